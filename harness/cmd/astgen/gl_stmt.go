// Go -> Gallina function translator: statements (continuation passing).
package main

import (
	"fmt"
	"go/ast"
	"go/token"
	"regexp"
	"sort"
	"strings"
)

// ---------------------------------------------------------------------------
// syntactic analyses

func isPanicCall(s ast.Stmt) bool {
	es, ok := s.(*ast.ExprStmt)
	if !ok {
		return false
	}
	c, ok := es.X.(*ast.CallExpr)
	if !ok {
		return false
	}
	id, ok := c.Fun.(*ast.Ident)
	return ok && id.Name == "panic"
}

// terminates: control never reaches the statement after this list
func terminates(list []ast.Stmt) bool {
	if len(list) == 0 {
		return false
	}
	switch s := list[len(list)-1].(type) {
	case *ast.ReturnStmt:
		return true
	case *ast.BranchStmt:
		return s.Tok != token.FALLTHROUGH
	case *ast.BlockStmt:
		return terminates(s.List)
	case *ast.IfStmt:
		if s.Else == nil {
			return false
		}
		return terminates(s.Body.List) && terminates([]ast.Stmt{s.Else})
	case *ast.LabeledStmt:
		return terminates([]ast.Stmt{s.Stmt})
	case *ast.SwitchStmt:
		hasDefault := false
		for _, c := range s.Body.List {
			cc := c.(*ast.CaseClause)
			if cc.List == nil {
				hasDefault = true
			}
			if !terminates(cc.Body) {
				// a clause ending in fallthrough continues with the next one
				if n := len(cc.Body); n > 0 {
					if b, ok := cc.Body[n-1].(*ast.BranchStmt); ok && b.Tok == token.FALLTHROUGH {
						continue
					}
				}
				return false
			}
		}
		return hasDefault
	default:
		return isPanicCall(list[len(list)-1])
	}
}

// hasExit: some statement inside leaves the enclosing statement list early
func hasExit(n ast.Node) bool {
	found := false
	ast.Inspect(n, func(m ast.Node) bool {
		switch t := m.(type) {
		case *ast.ReturnStmt:
			found = true
		case *ast.BranchStmt:
			if t.Tok != token.FALLTHROUGH {
				found = true
			}
		case *ast.FuncLit:
			return false
		case *ast.ExprStmt:
			if isPanicCall(t) {
				found = true
			}
		}
		return !found
	})
	return found
}

func builderMethod(m string) bool {
	switch m {
	case "Write", "WriteString", "WriteByte", "WriteRune", "Reset":
		return true
	}
	return false
}

// assigned collects, in order of first occurrence, the names (identifiers and selector
// texts) that the statements assign; defs also includes := declarations
func (x *xl) assigned(list []ast.Stmt, defs bool) []string {
	var out []string
	seen := map[string]bool{}
	add := func(s string) {
		if s != "_" && !seen[s] {
			seen[s] = true
			out = append(out, s)
		}
	}
	lhs := func(e ast.Expr) {
		switch t := e.(type) {
		case *ast.Ident:
			add(t.Name)
		case *ast.SelectorExpr:
			add(exprStr(t))
		case *ast.IndexExpr:
			if id, ok := t.X.(*ast.Ident); ok {
				add(id.Name)
			} else {
				add(exprStr(t.X))
			}
		case *ast.StarExpr:
			add(exprStr(t.X))
		}
	}
	for _, s := range list {
		ast.Inspect(s, func(n ast.Node) bool {
			switch t := n.(type) {
			case *ast.FuncLit:
				return false
			case *ast.AssignStmt:
				if t.Tok == token.DEFINE && !defs {
					return true
				}
				for _, l := range t.Lhs {
					lhs(l)
				}
			case *ast.IncDecStmt:
				lhs(t.X)
			case *ast.RangeStmt:
				if defs || t.Tok == token.ASSIGN {
					if t.Key != nil {
						lhs(t.Key)
					}
					if t.Value != nil {
						lhs(t.Value)
					}
				}
			case *ast.DeclStmt:
				if gd, ok := t.Decl.(*ast.GenDecl); ok && defs {
					for _, sp := range gd.Specs {
						if vs, ok := sp.(*ast.ValueSpec); ok {
							for _, n := range vs.Names {
								add(n.Name)
							}
						}
					}
				}
			case *ast.CallExpr:
				ft := exprStr(t.Fun)
				if es, ok := x.spec.ext[ft]; ok && es.state != "" {
					add(es.state)
				}
				if se, ok := t.Fun.(*ast.SelectorExpr); ok {
					if id, ok := se.X.(*ast.Ident); ok && builderMethod(se.Sel.Name) {
						add(id.Name)
					}
				}
				if x.spec.writer != "" && (ft == "io.WriteString" || ft == "fmt.Fprintf" || ft == "fmt.Fprint") {
					add(x.spec.writer)
				}
			}
			return true
		})
	}
	return out
}

// outer variables (present in the current scopes) assigned by the statements
func (x *xl) assignedOuter(list []ast.Stmt) []*vinfo {
	var vs []*vinfo
	seen := map[*vinfo]bool{}
	for _, n := range x.assigned(list, false) {
		if v := x.lookup(n); v != nil && !seen[v] {
			seen[v] = true
			vs = append(vs, v)
		}
	}
	if x.spec.logStmts {
		if v := x.lookup("tr"); v != nil && !seen[v] && len(list) > 0 {
			vs = append(vs, v)
		}
	}
	return vs
}

// ---------------------------------------------------------------------------
// terminals

func (x *xl) outsTuple() (string, error) {
	var ps []string
	for _, o := range x.outs {
		v := x.lookup(o)
		if v == nil {
			if h, ok := x.hint(o); ok {
				if z, ok := h.zero(); ok {
					x.note("where %s is not yet declared it is reported as its zero value", o)
					x.outTys[o] = h
					ps = append(ps, z)
					continue
				}
			}
			return "", errf("result variable %s of the fragment is not declared at this point (give its type in the table)", o)
		}
		x.outTys[o] = v.ty
		ps = append(ps, v.coq)
	}
	if len(ps) == 0 {
		return "tt", nil
	}
	if len(ps) == 1 {
		return ps[0], nil
	}
	return "(" + strings.Join(ps, ", ") + ")", nil
}

func (x *xl) panicCode() string {
	x.mayPanic = true
	x.panicSites++
	if x.frag {
		return "FPanic"
	}
	return "GoPanic"
}

func (x *xl) fragTerm(ctor, what string) (string, error) {
	o, err := x.outsTuple()
	if err != nil {
		return "", err
	}
	if ctor == "FFall" {
		return "(FFall " + o + ")", nil
	}
	return "(" + ctor + " " + coqStr(what) + "%string " + o + ")", nil
}

func (x *xl) wrapChecks(checks []string, code string) string {
	if len(checks) == 0 {
		return code
	}
	return "if negb (" + strings.Join(checks, " && ") + ") then " + x.panicCode() + " else\n  " + code
}

func (x *xl) takeChecks() []string {
	c := x.checks
	x.checks = nil
	return c
}

// bindK fixes the scope depth a continuation is translated in
func (x *xl) bindK(k cont) cont {
	depth := len(x.scopes)
	loops := len(x.loops)
	return func() (string, error) {
		saveS, saveL := x.scopes, x.loops
		x.scopes = x.scopes[:depth]
		x.loops = x.loops[:loops]
		c, err := k()
		x.scopes, x.loops = saveS, saveL
		return c, err
	}
}

// ---------------------------------------------------------------------------

func (x *xl) block(list []ast.Stmt, k cont) (string, error) {
	if len(list) == 0 {
		return k()
	}
	return x.stmt(list[0], func() (string, error) { return x.block(list[1:], k) })
}

func (x *xl) scoped(list []ast.Stmt, k cont) (string, error) {
	kk := x.bindK(k)
	x.push()
	c, err := x.block(list, kk)
	x.pop()
	return c, err
}

func (x *xl) logStmt(s ast.Node, k cont) (string, error) {
	tr := x.lookup("tr")
	if tr == nil {
		return "", errf("statement `%s` is outside the subset", exprStr2(s))
	}
	rest, err := k()
	if err != nil {
		return "", err
	}
	return "let " + tr.coq + " := " + app(tr.coq, "["+coqStr(exprStr2(s))+"%string]") + " in\n  " + rest, nil
}

func exprStr2(n ast.Node) string {
	switch t := n.(type) {
	case ast.Expr:
		return exprStr(t)
	case ast.Stmt:
		return stmtStr(t)
	}
	return "?"
}

func tupleOf(vs []*vinfo) string {
	if len(vs) == 0 {
		return "tt"
	}
	var ps []string
	for _, v := range vs {
		ps = append(ps, v.coq)
	}
	if len(ps) == 1 {
		return ps[0]
	}
	return "(" + strings.Join(ps, ", ") + ")"
}

func patOf(vs []*vinfo) string {
	if len(vs) == 0 {
		return "_"
	}
	if len(vs) == 1 {
		return vs[0].coq
	}
	return "'" + tupleOf(vs)
}

func bindersOf(vs []*vinfo) string {
	if len(vs) == 0 {
		return "(_ : unit)"
	}
	var ps []string
	for _, v := range vs {
		ps = append(ps, "("+v.coq+" : "+v.ty.coq()+")")
	}
	return strings.Join(ps, " ")
}

func argsOf(vs []*vinfo) string {
	if len(vs) == 0 {
		return "tt"
	}
	var ps []string
	for _, v := range vs {
		ps = append(ps, v.coq)
	}
	return strings.Join(ps, " ")
}

// relevant (slice mode): the statement assigns one of the result variables
func (x *xl) relevant(s ast.Stmt) bool {
	for _, n := range x.assigned([]ast.Stmt{s}, true) {
		for _, o := range x.outs {
			if n == o {
				return true
			}
		}
	}
	return false
}

func (x *xl) stmt(s ast.Stmt, k cont) (string, error) {
	if x.spec.slice {
		switch s.(type) {
		case *ast.BlockStmt, *ast.LabeledStmt:
		default:
			if !x.relevant(s) {
				switch s.(type) {
				case *ast.ReturnStmt, *ast.BranchStmt:
					x.note("line %d: `%s` is not represented (the result describes the paths that reach the end point)", x.line(s), stmtStr(s))
					return k()
				}
				if hasExit(s) {
					x.note("line %d: a statement that may leave early is skipped (the result describes the paths that reach the end point)", x.line(s))
				}
				return k()
			}
		}
	}
	switch t := s.(type) {
	case *ast.EmptyStmt:
		return k()
	case *ast.BlockStmt:
		return x.scoped(t.List, k)
	case *ast.LabeledStmt:
		if rs, ok := t.Stmt.(*ast.RangeStmt); ok {
			return x.rangeStmt(rs, t.Label.Name, k)
		}
		if fs, ok := t.Stmt.(*ast.ForStmt); ok {
			return x.forStmt(fs, t.Label.Name, k)
		}
		if x.spec.logStmts {
			// a label that gotos of the fragment may target
			return x.stmt(t.Stmt, k)
		}
		return x.stmt(t.Stmt, k)
	case *ast.ExprStmt:
		return x.exprStmt(t, k)
	case *ast.AssignStmt:
		return x.assignStmt(t, k)
	case *ast.DeclStmt:
		return x.declStmt(t, k)
	case *ast.IncDecStmt:
		op := token.ADD_ASSIGN
		if t.Tok == token.DEC {
			op = token.SUB_ASSIGN
		}
		return x.assignStmt(&ast.AssignStmt{Lhs: []ast.Expr{t.X}, Tok: op, Rhs: []ast.Expr{&ast.BasicLit{Kind: token.INT, Value: "1"}}}, k)
	case *ast.ReturnStmt:
		return x.returnStmt(t)
	case *ast.IfStmt:
		return x.ifStmt(t, k)
	case *ast.SwitchStmt:
		return x.switchStmt(t, k)
	case *ast.RangeStmt:
		return x.rangeStmt(t, "", k)
	case *ast.ForStmt:
		return x.forStmt(t, "", k)
	case *ast.BranchStmt:
		return x.branchStmt(t, k)
	case *ast.SelectStmt:
		if x.spec.logStmts {
			return x.selectStmt(t, k)
		}
	}
	if x.spec.logStmts {
		switch s.(type) {
		case *ast.DeferStmt, *ast.GoStmt, *ast.SendStmt:
			return x.logStmt(s, k)
		}
	}
	return "", errf("line %d: statement `%s` is outside the subset", x.line(s), firstLine(stmtStr(s)))
}

func firstLine(s string) string {
	if len(s) > 90 {
		return s[:90] + "..."
	}
	return s
}

func (x *xl) branchStmt(t *ast.BranchStmt, k cont) (string, error) {
	label := ""
	if t.Label != nil {
		label = t.Label.Name
	}
	switch t.Tok {
	case token.BREAK, token.CONTINUE:
		if len(x.loops) > 0 {
			lp := x.loops[len(x.loops)-1]
			if label == "" || label == lp.label {
				if t.Tok == token.BREAK {
					if x.switchDepth > 0 && label == "" {
						return "", errf("line %d: unlabeled break inside a switch is outside the subset", x.line(t))
					}
					return lp.breakCode()
				}
				return lp.contCode()
			}
			return "", errf("line %d: branch to the outer label %s is outside the subset", x.line(t), label)
		}
		if x.frag {
			if t.Tok == token.BREAK && x.switchDepth > 0 && label == "" {
				return "", errf("line %d: unlabeled break inside a switch is outside the subset", x.line(t))
			}
			if t.Tok == token.BREAK {
				return x.fragTerm("FBreak", label)
			}
			return x.fragTerm("FContinue", label)
		}
	case token.GOTO:
		if x.frag {
			return x.fragTerm("FGoto", label)
		}
	}
	return "", errf("line %d: `%s` is outside the subset", x.line(t), stmtStr(t))
}

func (x *xl) returnStmt(t *ast.ReturnStmt) (string, error) {
	if x.frag {
		return x.fragTerm("FReturn", stmtStr(t))
	}
	var parts []string
	if len(t.Results) == 0 {
		for _, n := range x.named {
			v := x.lookup(n)
			if v == nil {
				return "", errf("named result %s not in scope", n)
			}
			parts = append(parts, v.coq)
		}
	} else if len(t.Results) == 1 && len(x.resTys) > 1 {
		c, ty, err := x.expr(t.Results[0], tTuple(x.resTys))
		if err != nil {
			return "", err
		}
		if ty.k != "tuple" || len(ty.tup) != len(x.resTys) {
			return "", errf("line %d: `%s` does not produce %d results", x.line(t), stmtStr(t), len(x.resTys))
		}
		parts = append(parts, c)
	} else {
		if len(t.Results) != len(x.resTys) {
			return "", errf("line %d: wrong number of results", x.line(t))
		}
		for i, r := range t.Results {
			c, ty, err := x.expr(r, x.resTys[i])
			if err != nil {
				return "", err
			}
			if !ty.eq(x.resTys[i]) {
				return "", errf("line %d: result %d of `%s` has type %s, expected %s", x.line(t), i+1, stmtStr(t), ty.coq(), x.resTys[i].coq())
			}
			parts = append(parts, c)
		}
	}
	mf, err := x.mutValues()
	if err != nil {
		return "", err
	}
	parts = append(parts, mf...)
	if x.spec.writer != "" {
		w := x.lookup(x.spec.writer)
		parts = append(parts, w.coq)
	}
	code := "tt"
	if len(parts) == 1 {
		code = parts[0]
	} else if len(parts) > 1 {
		code = "(" + strings.Join(parts, ", ") + ")"
	}
	if x.wrapPanic {
		code = "(GoRet " + code + ")"
	}
	return x.wrapChecks(x.takeChecks(), code), nil
}

func (x *xl) exprStmt(t *ast.ExprStmt, k cont) (string, error) {
	c, ok := t.X.(*ast.CallExpr)
	if !ok {
		if x.spec.logStmts {
			return x.logStmt(t, k) // e.g. a channel receive whose value is dropped
		}
		return "", errf("line %d: expression statement outside the subset", x.line(t))
	}
	if ignorableCall(c) {
		x.note("diagnostic calls (log.*, verifYield) are skipped")
		return k()
	}
	if isPanicCall(t) {
		return x.panicCode(), nil
	}
	ftext := exprStr(c.Fun)
	if es, ok := x.spec.ext[ftext]; ok && es.state != "" {
		return x.bindCall(nil, c, es, k)
	}
	if se, ok := c.Fun.(*ast.SelectorExpr); ok {
		if id, ok := se.X.(*ast.Ident); ok {
			if v := x.lookup(id.Name); v != nil && v.builder {
				code, err := x.builderWrite(v, se.Sel.Name, c)
				if err != nil {
					return "", err
				}
				if code == "" {
					return k()
				}
				checks := x.takeChecks()
				rest, err := k()
				if err != nil {
					return "", err
				}
				return x.wrapChecks(checks, "let "+v.coq+" := "+code+" in\n  "+rest), nil
			}
		}
	}
	if x.spec.writer != "" && ftext == "io.WriteString" && exprStr(c.Args[0]) == x.spec.writer {
		v := x.lookup(x.spec.writer)
		a, _, err := x.expr(c.Args[1], tBytes)
		if err != nil {
			return "", err
		}
		rest, err := k()
		if err != nil {
			return "", err
		}
		return "let " + v.coq + " := " + app(v.coq, a) + " in\n  " + rest, nil
	}
	if x.spec.logStmts {
		return x.logStmt(t, k)
	}
	return "", errf("line %d: call `%s` is outside the subset (effect unknown)", x.line(t), firstLine(exprStr(c)))
}

// builderWrite: the new contents of a byte buffer after a method call ("" = unchanged)
func (x *xl) builderWrite(v *vinfo, method string, c *ast.CallExpr) (string, error) {
	switch method {
	case "Grow":
		x.note("Grow calls on byte buffers are skipped (capacity is not modelled)")
		return "", nil
	case "Write", "WriteString":
		a, ty, err := x.expr(c.Args[0], tBytes)
		if err != nil {
			return "", err
		}
		if ty.k != "bytes" {
			return "", errf("line %d: %s of a non-byte value", x.line(c), method)
		}
		return app(v.coq, a), nil
	case "WriteByte":
		a, err := x.exprZ(c.Args[0])
		if err != nil {
			return "", err
		}
		if lit, ok := c.Args[0].(*ast.BasicLit); ok && lit.Kind == token.INT {
			return app(v.coq, "["+a+"%N]"), nil
		}
		return app(v.coq, "[Z.to_N "+a+"]"), nil
	case "Reset":
		return "[]", nil
	}
	return "", errf("line %d: method %s of a byte buffer is outside the subset", x.line(c), method)
}

// lhsTargets resolves the left-hand sides of an assignment to variables to (re)bind.
// define: := declares in the innermost scope.
func (x *xl) lhsTarget(e ast.Expr, define bool, ty *gty) (*vinfo, error) {
	switch t := e.(type) {
	case *ast.Ident:
		if t.Name == "_" {
			return nil, nil
		}
		if define {
			top := x.scopes[len(x.scopes)-1]
			if v, ok := top[t.Name]; ok {
				return v, nil
			}
			return x.declare(t.Name, ty), nil
		}
		if v := x.lookup(t.Name); v != nil {
			return v, nil
		}
		if x.frag {
			// a variable of the enclosing function, first assigned inside the fragment
			if h, ok := x.hint(t.Name); ok {
				ty = h
			}
			v := &vinfo{coq: x.fresh(t.Name), ty: ty}
			x.live[v.coq]++
			x.scopes[0][t.Name] = v
			return v, nil
		}
		return nil, errf("assignment to unknown variable %s", t.Name)
	case *ast.SelectorExpr:
		text := exprStr(t)
		if v := x.lookup(text); v != nil {
			return v, nil
		}
		if h, ok := x.hint(text); ok && x.frag {
			// a field of an opaque value that the table declares as a variable of the fragment
			v := &vinfo{coq: x.fresh(sanitize(text)), ty: h}
			x.live[v.coq]++
			x.scopes[0][text] = v
			return v, nil
		}
		if _, c, sname, ok := x.structPath(t.X); ok {
			ft, err := x.structField(sname, t.Sel.Name)
			if err != nil {
				return nil, err
			}
			v := &vinfo{coq: x.fresh(c + "_" + t.Sel.Name), ty: ft}
			x.live[v.coq]++
			x.scopes[0][text] = v
			return v, nil
		}
	}
	return nil, errf("assignment to `%s` is outside the subset", exprStr(e))
}

func (x *xl) bindCall(lhs []ast.Expr, c *ast.CallExpr, es extSpec, k cont) (string, error) {
	return x.bindCallDef(lhs, false, c, es, k)
}

func (x *xl) bindCallDef(lhs []ast.Expr, define bool, c *ast.CallExpr, es extSpec, k cont) (string, error) {
	code, rt, err := x.extCall(c, es)
	if err != nil {
		return "", err
	}
	var comps []*gty
	if rt.k == "tuple" {
		comps = rt.tup
	} else if rt.k != "unit" {
		comps = []*gty{rt}
	}
	var pats []string
	off := 0
	if es.state != "" {
		sv := x.lookup(es.state)
		pats = append(pats, sv.coq)
		off = 1
	}
	if lhs != nil && len(lhs) != len(comps)-off {
		return "", errf("line %d: `%s` yields %d values, %d are bound", x.line(c), firstLine(exprStr(c)), len(comps)-off, len(lhs))
	}
	for i := off; i < len(comps); i++ {
		if lhs == nil {
			pats = append(pats, "_")
			continue
		}
		v, err := x.lhsTarget(lhs[i-off], define, comps[i])
		if err != nil {
			return "", err
		}
		if v == nil {
			pats = append(pats, "_")
		} else {
			if !v.ty.eq(comps[i]) {
				return "", errf("line %d: %s has type %s but receives %s", x.line(c), v.coq, v.ty.coq(), comps[i].coq())
			}
			pats = append(pats, v.coq)
		}
	}
	checks := x.takeChecks()
	rest, err := k()
	if err != nil {
		return "", err
	}
	pat := "_"
	if len(pats) == 1 {
		pat = pats[0]
	} else if len(pats) > 1 {
		pat = "'(" + strings.Join(pats, ", ") + ")"
	}
	return x.wrapChecks(checks, "let "+pat+" := "+code+" in\n  "+rest), nil
}

func (x *xl) assignStmt(t *ast.AssignStmt, k cont) (string, error) {
	define := t.Tok == token.DEFINE
	allBlank := len(t.Rhs) == 1
	for _, l := range t.Lhs {
		if id, ok := l.(*ast.Ident); !ok || id.Name != "_" {
			allBlank = false
		}
	}
	if allBlank {
		if _, isCall := t.Rhs[0].(*ast.CallExpr); isCall {
			if _, isExt := x.spec.ext[exprStr(t.Rhs[0].(*ast.CallExpr).Fun)]; !isExt {
				return x.exprStmt(&ast.ExprStmt{X: t.Rhs[0]}, k)
			}
		}
	}
	// op-assign
	if t.Tok != token.ASSIGN && t.Tok != token.DEFINE {
		ops := map[token.Token]token.Token{token.ADD_ASSIGN: token.ADD, token.SUB_ASSIGN: token.SUB, token.MUL_ASSIGN: token.MUL,
			token.QUO_ASSIGN: token.QUO, token.REM_ASSIGN: token.REM, token.OR_ASSIGN: token.OR, token.AND_ASSIGN: token.AND,
			token.SHL_ASSIGN: token.SHL, token.SHR_ASSIGN: token.SHR, token.XOR_ASSIGN: token.XOR}
		op, ok := ops[t.Tok]
		if !ok || len(t.Lhs) != 1 {
			return "", errf("line %d: `%s` is outside the subset", x.line(t), stmtStr(t))
		}
		return x.assignStmt(&ast.AssignStmt{Lhs: t.Lhs, Tok: token.ASSIGN, TokPos: t.TokPos,
			Rhs: []ast.Expr{&ast.BinaryExpr{X: t.Lhs[0], Op: op, Y: t.Rhs[0], OpPos: t.TokPos}}}, k)
	}
	// x, err := f(...) with f a configured external function; w.Write
	if len(t.Rhs) == 1 {
		if c, ok := t.Rhs[0].(*ast.CallExpr); ok {
			ftext := exprStr(c.Fun)
			if es, ok := x.spec.ext[ftext]; ok && (es.state != "" || len(es.res) > 1) {
				return x.bindCallDef(t.Lhs, define, c, es, k)
			}
			if se, ok := c.Fun.(*ast.SelectorExpr); ok && x.spec.writer != "" {
				if id, ok := se.X.(*ast.Ident); ok && id.Name == x.spec.writer && se.Sel.Name == "Write" && len(t.Lhs) == 2 {
					return x.writerWrite(t.Lhs, define, c.Args[0], k)
				}
			}
			if x.spec.writer != "" && ftext == "io.WriteString" && len(t.Lhs) == 2 && exprStr(c.Args[0]) == x.spec.writer {
				return x.writerWrite(t.Lhs, define, c.Args[1], k)
			}
		}
	}
	if len(t.Lhs) == 1 && len(t.Rhs) == 1 && t.Tok == token.ASSIGN {
		if ix, ok := t.Lhs[0].(*ast.IndexExpr); ok {
			if id, ok := ix.X.(*ast.Ident); ok {
				if v := x.lookup(id.Name); v != nil && (v.ty.k == "list" || v.ty.k == "bytes") {
					return x.elemAssign(t, v, ix, k)
				}
			}
			if se, ok := ix.X.(*ast.SelectorExpr); ok {
				if _, _, err := x.expr(se, nil); err == nil {
					if v := x.lookup(exprStr(se)); v != nil && (v.ty.k == "list" || v.ty.k == "bytes") {
						return x.elemAssign(t, v, ix, k)
					}
				}
			}
		}
	}
	if len(t.Lhs) == 2 && len(t.Rhs) == 1 && x.spec.atoms {
		if ix, ok := t.Rhs[0].(*ast.IndexExpr); ok && (x.tryType(ix.X) == nil || x.tryType(ix.X).k == "opaque") {
			return x.commaOk(t, ix, define, k)
		}
	}
	if len(t.Lhs) != len(t.Rhs) {
		// tuple-valued right-hand side
		if len(t.Rhs) != 1 {
			return "", errf("line %d: `%s` is outside the subset", x.line(t), stmtStr(t))
		}
		code, ty, err := x.expr(t.Rhs[0], x.tupleWant(t.Lhs, t.Rhs[0]))
		if err != nil {
			if x.spec.logStmts {
				return x.havoc(t, define, k)
			}
			return "", errf("line %d: %s", x.line(t), err.Error())
		}
		if ty.k != "tuple" || len(ty.tup) != len(t.Lhs) {
			return "", errf("line %d: `%s` does not yield %d values", x.line(t), firstLine(exprStr(t.Rhs[0])), len(t.Lhs))
		}
		var pats []string
		for i, l := range t.Lhs {
			v, err := x.lhsTarget(l, define, ty.tup[i])
			if err != nil {
				return "", err
			}
			if v == nil {
				pats = append(pats, "_")
			} else {
				pats = append(pats, v.coq)
			}
		}
		checks := x.takeChecks()
		rest, err := k()
		if err != nil {
			return "", err
		}
		return x.wrapChecks(checks, "let '("+strings.Join(pats, ", ")+") := "+code+" in\n  "+rest), nil
	}
	// parallel assignment: evaluate all right-hand sides first
	type bind struct {
		v    *vinfo
		code string
	}
	var binds []bind
	var codes []string
	var tys []*gty
	for i, r := range t.Rhs {
		var want *gty
		if !define {
			if v := x.peekTarget(t.Lhs[i]); v != nil {
				want = v.ty
			}
		}
		if want == nil {
			if id, ok := t.Lhs[i].(*ast.Ident); ok {
				want = x.nameType(id.Name)
			}
		}
		code, ty, err := x.expr(r, want)
		if err != nil {
			if x.spec.logStmts {
				return x.havoc(t, define, k)
			}
			return "", errf("line %d: %s", x.line(t), err.Error())
		}
		codes = append(codes, code)
		tys = append(tys, ty)
	}
	for i, l := range t.Lhs {
		v, err := x.lhsTarget(l, define, tys[i])
		if err != nil {
			return "", errf("line %d: %s", x.line(t), err.Error())
		}
		if v == nil {
			continue
		}
		if !v.ty.eq(tys[i]) {
			return "", errf("line %d: %s has type %s but is assigned a %s", x.line(t), v.coq, v.ty.coq(), tys[i].coq())
		}
		if isBuilderRhs(t.Rhs[i]) {
			v.builder = true
		}
		binds = append(binds, bind{v, codes[i]})
	}
	checks := x.takeChecks()
	logged := ""
	if x.spec.logStmts {
		if tr := x.lookup("tr"); tr != nil {
			logged = "let " + tr.coq + " := " + app(tr.coq, "["+coqStr(stmtStr(t))+"%string]") + " in\n  "
		}
	}
	rest, err := k()
	if err != nil {
		return "", err
	}
	var b strings.Builder
	if len(binds) == 1 {
		b.WriteString("let " + binds[0].v.coq + " := " + binds[0].code + " in\n  ")
	} else if len(binds) > 1 {
		var ps, cs []string
		for _, bd := range binds {
			ps = append(ps, bd.v.coq)
			cs = append(cs, bd.code)
		}
		b.WriteString("let '(" + strings.Join(ps, ", ") + ") := (" + strings.Join(cs, ", ") + ") in\n  ")
	}
	return x.wrapChecks(checks, b.String()+logged+rest), nil
}

func isBuilderRhs(e ast.Expr) bool {
	if c, ok := e.(*ast.CallExpr); ok {
		f := exprStr(c.Fun)
		return f == "bytes.NewBuffer" || f == "bytes.NewBufferString"
	}
	return false
}

func (x *xl) peekTarget(e ast.Expr) *vinfo {
	switch t := e.(type) {
	case *ast.Ident:
		return x.lookup(t.Name)
	case *ast.SelectorExpr:
		return x.lookup(exprStr(t))
	}
	return nil
}

func (x *xl) tupleWant(lhs []ast.Expr, rhs ast.Expr) *gty {
	if h, ok := x.hint(exprStr(rhs)); ok {
		return h
	}
	var ts []*gty
	for _, l := range lhs {
		var t *gty
		if id, ok := l.(*ast.Ident); ok {
			if id.Name == "_" {
				t = tUnit
			} else if v := x.lookup(id.Name); v != nil {
				t = v.ty
			} else if h, ok := x.hint(id.Name); ok {
				t = h
			} else if id.Name == "err" {
				t = tErr
			} else if id.Name == "ok" {
				t = tBool
			}
		}
		if t == nil {
			return nil
		}
		ts = append(ts, t)
	}
	return tTuple(ts)
}

func (x *xl) writerWrite(lhs []ast.Expr, define bool, arg ast.Expr, k cont) (string, error) {
	w := x.lookup(x.spec.writer)
	a, ty, err := x.expr(arg, tBytes)
	if err != nil {
		return "", err
	}
	if ty.k != "bytes" {
		return "", errf("write of a non-byte value")
	}
	nv, err := x.lhsTarget(lhs[0], define, tZ)
	if err != nil {
		return "", err
	}
	ev, err := x.lhsTarget(lhs[1], define, tErr)
	if err != nil {
		return "", err
	}
	checks := x.takeChecks()
	rest, err := k()
	if err != nil {
		return "", err
	}
	code := "let " + w.coq + " := " + app(w.coq, a) + " in\n  "
	if nv != nil {
		code = "let " + nv.coq + " := len " + a + " in\n  " + code
	}
	if ev != nil {
		code += "let " + ev.coq + " := (None : option string) in\n  "
	}
	x.note("writes to %s never fail (it is modelled as a byte buffer)", x.spec.writer)
	return x.wrapChecks(checks, code+rest), nil
}

func (x *xl) declStmt(t *ast.DeclStmt, k cont) (string, error) {
	gd, ok := t.Decl.(*ast.GenDecl)
	if !ok || (gd.Tok != token.VAR && gd.Tok != token.CONST) {
		return "", errf("line %d: declaration outside the subset", x.line(t))
	}
	var lets []string
	for _, sp := range gd.Specs {
		vs := sp.(*ast.ValueSpec)
		for i, n := range vs.Names {
			var ty *gty
			var err error
			if vs.Type != nil {
				if ty, err = x.goType(vs.Type); err != nil {
					return "", err
				}
			}
			var code string
			if i < len(vs.Values) {
				var t2 *gty
				if code, t2, err = x.expr(vs.Values[i], ty); err != nil {
					return "", errf("line %d: %s", x.line(t), err.Error())
				}
				if ty == nil {
					ty = t2
				}
			} else {
				z, ok := ty.zero()
				if !ok {
					if ty.k == "opaque" {
						x.addParam("nil_"+ty.name, ty.name, "Go zero value of "+ty.name, 1)
						z = "nil_" + ty.name
					} else if ty.k == "struct" && x.spec.logStmts {
						// `var e S` in a recording fragment: the variable exists (as unit); reading one
						// of its fields afterwards is refused (selector), so nothing depends on the
						// field values the declaration gives
						if x.zeroStructs == nil {
							x.zeroStructs = map[string]bool{}
						}
						x.zeroStructs[n.Name] = true
						x.note("line %d: `%s` declares a zero %s; the fragment does not read its fields", x.line(t), firstLine(stmtStr(t)), ty.name)
						z = "tt"
					} else {
						return "", errf("line %d: zero value of %s is outside the subset", x.line(t), ty.coq())
					}
				}
				code = z
			}
			if n.Name == "_" {
				continue
			}
			v := x.declare(n.Name, ty)
			if vs.Type != nil && isBuilderType(vs.Type) {
				v.builder = true
			}
			lets = append(lets, "let "+v.coq+" := "+code+" in\n  ")
		}
	}
	checks := x.takeChecks()
	rest, err := k()
	if err != nil {
		return "", err
	}
	return x.wrapChecks(checks, strings.Join(lets, "")+rest), nil
}

// ---------------------------------------------------------------------------
// if / switch

func (x *xl) ifStmt(t *ast.IfStmt, k cont) (string, error) {
	kk := x.bindK(k)
	x.push()
	defer x.pop()
	if t.Init != nil {
		return x.stmt(t.Init, func() (string, error) { return x.ifCore(t, kk) })
	}
	return x.ifCore(t, kk)
}

func (x *xl) elseList(t *ast.IfStmt) []ast.Stmt {
	if t.Else == nil {
		return nil
	}
	if b, ok := t.Else.(*ast.BlockStmt); ok {
		return b.List
	}
	return []ast.Stmt{t.Else}
}

func (x *xl) ifCore(t *ast.IfStmt, k cont) (string, error) {
	c, err := x.cond(t.Cond)
	if err != nil {
		return "", errf("line %d: %s", x.line(t), err.Error())
	}
	checks := x.takeChecks()
	thenL, elseL := t.Body.List, x.elseList(t)
	if x.spec.slice {
		thenL, elseL = x.sliceList(thenL), x.sliceList(elseL)
	}
	thenT, elseT := terminates(thenL), terminates(elseL)
	unreachable := func() (string, error) { return "", errf("internal: continuation after a terminating branch") }
	var code string
	switch {
	case thenT || elseT:
		kt, ke := k, k
		if thenT {
			kt = unreachable
		}
		if elseT {
			ke = unreachable
		}
		a, err := x.scoped(thenL, kt)
		if err != nil {
			return "", err
		}
		b, err := x.scoped(elseL, ke)
		if err != nil {
			return "", err
		}
		code = "if " + c + "\n  then (" + a + ")\n  else (" + b + ")"
	case !hasExit(&ast.BlockStmt{List: thenL}) && !hasExit(&ast.BlockStmt{List: elseL}) && !x.branchesMayPanic(thenL, elseL):
		vs := x.assignedOuter(append(append([]ast.Stmt{}, thenL...), elseL...))
		tup := func() (string, error) { return tupleOf(vs), nil }
		a, err := x.scoped(thenL, tup)
		if err != nil {
			return "", err
		}
		b, err := x.scoped(elseL, tup)
		if err != nil {
			return "", err
		}
		rest, err := k()
		if err != nil {
			return "", err
		}
		if len(vs) == 0 {
			code = rest
		} else {
			code = "let " + patOf(vs) + " := (if " + c + " then (" + a + ") else (" + b + ")) in\n  " + rest
		}
	default:
		vs := x.assignedOuter(append(append([]ast.Stmt{}, thenL...), elseL...))
		x.counter++
		kn := fmt.Sprintf("k_%d", x.counter)
		rest, err := k()
		if err != nil {
			return "", err
		}
		call := func() (string, error) { return "(" + kn + " " + argsOf(vs) + ")", nil }
		a, err := x.scoped(thenL, call)
		if err != nil {
			return "", err
		}
		b, err := x.scoped(elseL, call)
		if err != nil {
			return "", err
		}
		code = "let " + kn + " := fun " + bindersOf(vs) + " =>\n  " + rest + " in\n  if " + c + "\n  then (" + a + ")\n  else (" + b + ")"
	}
	return x.wrapChecks(checks, code), nil
}

// slice mode: drop the statements of a branch that do not matter, so that a branch that
// only leaves early counts as empty
func (x *xl) sliceList(l []ast.Stmt) []ast.Stmt {
	var out []ast.Stmt
	for _, s := range l {
		if x.relevant(s) {
			out = append(out, s)
		} else {
			switch s.(type) {
			case *ast.ReturnStmt, *ast.BranchStmt:
				x.note("line %d: `%s` is not represented (the result describes the paths that reach the end point)", x.line(s), stmtStr(s))
			default:
				if hasExit(s) {
					x.note("line %d: a statement that may leave early is skipped (the result describes the paths that reach the end point)", x.line(s))
				}
			}
		}
	}
	return out
}

func (x *xl) switchStmt(t *ast.SwitchStmt, k cont) (string, error) {
	// desugar into an if chain
	var clauses []*ast.CaseClause
	for _, c := range t.Body.List {
		clauses = append(clauses, c.(*ast.CaseClause))
	}
	bodyOf := func(i int) ([]ast.Stmt, error) {
		var out []ast.Stmt
		for j := i; j < len(clauses); j++ {
			b := clauses[j].Body
			if n := len(b); n > 0 {
				if br, ok := b[n-1].(*ast.BranchStmt); ok && br.Tok == token.FALLTHROUGH {
					out = append(out, b[:n-1]...)
					continue
				}
				if br, ok := b[n-1].(*ast.BranchStmt); ok && br.Tok == token.BREAK && br.Label == nil {
					out = append(out, b[:n-1]...)
					return out, nil
				}
			}
			out = append(out, b...)
			return out, nil
		}
		return out, nil
	}
	var def []ast.Stmt
	hasDef := false
	type arm struct {
		cond ast.Expr
		body []ast.Stmt
	}
	var arms []arm
	for i, c := range clauses {
		b, err := bodyOf(i)
		if err != nil {
			return "", err
		}
		if c.List == nil {
			def, hasDef = b, true
			continue
		}
		var cond ast.Expr
		for _, e := range c.List {
			var one ast.Expr = e
			if t.Tag != nil {
				one = &ast.BinaryExpr{X: t.Tag, Op: token.EQL, Y: e, OpPos: e.Pos()}
			}
			if cond == nil {
				cond = one
			} else {
				cond = &ast.BinaryExpr{X: cond, Op: token.LOR, Y: one, OpPos: e.Pos()}
			}
		}
		arms = append(arms, arm{cond, b})
	}
	var chain ast.Stmt
	if hasDef {
		chain = &ast.BlockStmt{List: def, Lbrace: t.Pos()}
	}
	for i := len(arms) - 1; i >= 0; i-- {
		chain = &ast.IfStmt{If: arms[i].cond.Pos(), Cond: arms[i].cond, Body: &ast.BlockStmt{List: arms[i].body, Lbrace: arms[i].cond.Pos()}, Else: chain}
	}
	if chain == nil {
		return k()
	}
	kk := x.bindK(k)
	x.push()
	defer x.pop()
	x.switchDepth++
	defer func() { x.switchDepth-- }()
	run := func() (string, error) { return x.stmt(chain, kk) }
	if t.Init != nil {
		return x.stmt(t.Init, run)
	}
	return run()
}

// select, in a fragment that records statements: which case proceeds is not decided by the
// function, so it is a parameter (sel_<line>: 0-based index in source order; any other value means
// the last case).  Each case is its communication (recorded; a received value is a fresh parameter)
// followed by its body.  Inside a translated loop one parameter would have to serve every
// iteration, so that is refused.
func (x *xl) selectStmt(t *ast.SelectStmt, k cont) (string, error) {
	if len(x.loops) > 0 {
		return "", errf("line %d: select inside a translated loop is outside the subset (its outcome differs per iteration)", x.line(t))
	}
	var clauses []*ast.CommClause
	for _, c := range t.Body.List {
		clauses = append(clauses, c.(*ast.CommClause))
	}
	if len(clauses) == 0 {
		return "", errf("line %d: empty select (blocks forever) is outside the subset", x.line(t))
	}
	name := fmt.Sprintf("sel_%d", x.line(t))
	x.push()
	defer x.pop()
	v := x.declare(name, tZ)
	x.addParam(v.coq, "Z", fmt.Sprintf("which case of the select at line %d proceeds (0-based, source order; any other value: the last case)", x.line(t)), 2)
	var chain ast.Stmt
	for i := len(clauses) - 1; i >= 0; i-- {
		c := clauses[i]
		var body []ast.Stmt
		if c.Comm != nil {
			body = append(body, c.Comm)
		}
		for _, b := range c.Body {
			if br, ok := b.(*ast.BranchStmt); ok && br.Tok == token.BREAK && br.Label == nil {
				return "", errf("line %d: break inside a select is outside the subset", x.line(b))
			}
			body = append(body, b)
		}
		blk := &ast.BlockStmt{List: body, Lbrace: c.Pos()}
		if chain == nil {
			chain = blk
			continue
		}
		cond := &ast.BinaryExpr{X: &ast.Ident{Name: name, NamePos: c.Pos()}, Op: token.EQL, OpPos: c.Pos(),
			Y: &ast.BasicLit{Kind: token.INT, Value: fmt.Sprint(i), ValuePos: c.Pos()}}
		chain = &ast.IfStmt{If: c.Pos(), Cond: cond, Body: blk, Else: chain}
	}
	kk := x.bindK(k)
	return x.stmt(chain, kk)
}

// ---------------------------------------------------------------------------
// for ... range over a slice

func (x *xl) rangeStmt(t *ast.RangeStmt, label string, k cont) (string, error) {
	if t.Tok == token.ASSIGN {
		return "", errf("line %d: range with = is outside the subset", x.line(t))
	}
	xs, lt, err := x.expr(t.X, nil)
	if err != nil {
		return "", errf("line %d: %s", x.line(t), err.Error())
	}
	var elemTy *gty
	switch lt.k {
	case "list":
		elemTy = lt.elem
	case "bytes":
		return "", errf("line %d: range over bytes/string is outside the subset", x.line(t))
	default:
		return "", errf("line %d: range over %s is outside the subset", x.line(t), lt.coq())
	}
	if id, ok := t.X.(*ast.Ident); ok && !rangedWritesOK(t.Body.List, id.Name) {
		return "", errf("line %d: the loop writes elements of the slice it ranges over and continues (later iterations would see the writes)", x.line(t))
	}
	checks := x.takeChecks()
	state := x.assignedOuter(t.Body.List)
	x.counter++
	n := x.counter
	kn, ln := fmt.Sprintf("k_%d", n), fmt.Sprintf("loop_%d", n)
	rest, err := k()
	if err != nil {
		return "", err
	}
	kk := x.bindK(func() (string, error) { return "", nil })
	_ = kk
	x.push()
	lv, rv, iv := x.fresh(fmt.Sprintf("l_%d", n)), x.fresh(fmt.Sprintf("r_%d", n)), ""
	x.live[lv]++
	x.live[rv]++
	useIdx := false
	if id, ok := t.Key.(*ast.Ident); ok && id.Name != "_" {
		useIdx = true
		iv = x.declare(id.Name, tZ).coq
	}
	elem := "_"
	if id, ok := t.Value.(*ast.Ident); ok && id.Name != "_" {
		elem = x.declare(id.Name, elemTy).coq
	}
	stArgs := ""
	for _, v := range state {
		stArgs += " " + v.coq
	}
	next := ln + " " + rv
	if useIdx {
		next += " (" + iv + " + 1)"
	}
	lp := &loopCtx{label: label,
		contCode:  func() (string, error) { return "(" + next + stArgs + ")", nil },
		breakCode: func() (string, error) { return "(" + kn + " " + argsOf(state) + ")", nil }}
	depth := len(x.scopes)
	saveSw := x.switchDepth
	x.switchDepth = 0
	x.loops = append(x.loops, lp)
	body, err := x.scoped(t.Body.List, func() (string, error) {
		save := x.scopes
		x.scopes = x.scopes[:depth]
		c, err := lp.contCode()
		x.scopes = save
		return c, err
	})
	x.loops = x.loops[:len(x.loops)-1]
	x.switchDepth = saveSw
	x.live[lv]--
	x.live[rv]--
	x.pop()
	if err != nil {
		return "", err
	}
	binders := "(" + lv + " : list (" + elemTy.coq() + "))"
	init := xs
	if useIdx {
		binders += " (" + iv + " : Z)"
		init += " 0"
	}
	for _, v := range state {
		binders += " (" + v.coq + " : " + v.ty.coq() + ")"
	}
	// the loop is a definition of its own: parameters of the enclosing definition, the locals it
	// reads, its continuation
	skip := map[string]bool{lv: true, rv: true, elem: true, iv: true, kn: true, ln: true}
	for _, v := range state {
		skip[v.coq] = true
	}
	var locBinders, locArgs string
	seenLoc := map[string]bool{}
	for _, sc := range x.scopes {
		var names []string
		for _, v := range sc {
			names = append(names, v.coq)
		}
		sort.Strings(names)
		for _, nm := range names {
			var v *vinfo
			for _, cand := range sc {
				if cand.coq == nm {
					v = cand
				}
			}
			if v == nil || skip[v.coq] || seenLoc[v.coq] || x.pidx[v.coq] != nil || v.ty == nil || v.ty.k == "struct" || v.ty.k == "poison" {
				continue
			}
			if !wordIn(v.coq, body) {
				continue
			}
			seenLoc[v.coq] = true
			locBinders += " (" + v.coq + " : " + v.ty.coq() + ")"
			locArgs += " " + v.coq
		}
	}
	// continuations of enclosing loops that the body calls (break / continue of an outer loop are
	// outside the subset, but the body of a nested loop may end the outer iteration)
	stTypes := ""
	for _, v := range state {
		stTypes += v.ty.coq() + " -> "
	}
	if len(state) == 0 {
		stTypes = "unit -> "
	}
	dname := x.coqName + "_" + ln
	idxTy := ""
	if useIdx {
		idxTy = "Z -> "
	}
	def := fmt.Sprintf("@@LOOP%d@@", n) + "Definition " + dname + " @@PARAMS@@" + locBinders + " (" + kn + " : " + stTypes + "@@RES@@) : list (" + elemTy.coq() + ") -> " + idxTy + stTypes2(state) + "@@RES@@ :=\n" +
		"  fix " + ln + " " + binders + " {struct " + lv + "} : @@RES@@ :=\n    match " + lv + " with\n    | [] => " + kn + " " + argsOf(state) +
		"\n    | " + elem + " :: " + rv + " =>\n      " + body + "\n    end."
	x.loopDefs = append(x.loopDefs, def)
	code := "let " + kn + " := fun " + bindersOf(state) + " =>\n  " + rest + " in\n  " +
		"(" + dname + fmt.Sprintf(" @@ARGS%d@@", n) + locArgs + " " + kn + ") " + init + stArgs
	return x.wrapChecks(checks, code), nil
}

// nameType: a type for a variable known only by its name (table hint, or the Go conventions err / ok)
func (x *xl) nameType(name string) *gty {
	if h, ok := x.hint(name); ok {
		return h
	}
	switch name {
	case "err":
		return tErr
	case "ok":
		return tBool
	}
	return nil
}

// v, ok := m[k] on a map: two parameters, the value found and whether the key is present
func (x *xl) commaOk(t *ast.AssignStmt, ix *ast.IndexExpr, define bool, k cont) (string, error) {
	text := exprStr(ix)
	for _, v := range x.varsOf(ix) {
		if x.region[v] && !x.isOnce(text) {
			return "", errf("line %d: map read `%s` mentions %s, which is assigned in the translated region", x.line(t), text, v)
		}
	}
	has := "has_" + sanitize(text)
	x.addParam(has, "bool", "whether the key is present in `"+text+"`", 2)
	var pats, vals []string
	if id, ok := t.Lhs[0].(*ast.Ident); ok && id.Name == "_" {
	} else {
		var want *gty
		if id, ok := t.Lhs[0].(*ast.Ident); ok {
			want = x.nameType(id.Name)
			if !define {
				if v := x.lookup(id.Name); v != nil {
					want = v.ty
				}
			}
		}
		c, ty, err := x.atom(ix, want)
		if err != nil {
			return "", errf("line %d: %s", x.line(t), err.Error())
		}
		v, err := x.lhsTarget(t.Lhs[0], define, ty)
		if err != nil {
			return "", err
		}
		pats, vals = append(pats, v.coq), append(vals, c)
	}
	ov, err := x.lhsTarget(t.Lhs[1], define, tBool)
	if err != nil {
		return "", err
	}
	if ov != nil {
		pats, vals = append(pats, ov.coq), append(vals, has)
	}
	rest, err := k()
	if err != nil {
		return "", err
	}
	code := ""
	for i := range pats {
		code += "let " + pats[i] + " := " + vals[i] + " in\n  "
	}
	return code + rest, nil
}

// havoc: an assignment whose right-hand side is outside the subset, in a fragment that records
// such statements: the statement is recorded and each assigned variable continues as a fresh
// parameter (the unknown value the statement produced)
func (x *xl) havoc(t *ast.AssignStmt, define bool, k cont) (string, error) {
	x.checks = nil
	var lets []string
	for _, l := range t.Lhs {
		id, ok := l.(*ast.Ident)
		if !ok {
			if se, ok := l.(*ast.SelectorExpr); ok {
				if v, err := x.lhsTarget(se, false, nil); err == nil && v != nil && v.ty != nil {
					name := x.fresh(fmt.Sprintf("h%d_%s", x.line(t), sanitize(exprStr(se))))
					x.addParam(name, v.ty.coq(), fmt.Sprintf("value of %s after line %d `%s`", exprStr(se), x.line(t), firstLine(stmtStr(t))), 2)
					lets = append(lets, "let "+v.coq+" := "+name+" in\n  ")
					continue
				}
			}
			x.note("line %d: `%s` is only recorded; what it assigns is not read again by the fragment", x.line(t), firstLine(stmtStr(t)))
			continue
		}
		if id.Name == "_" {
			continue
		}
		var ty *gty
		if !define {
			if v := x.lookup(id.Name); v != nil {
				ty = v.ty
			} else if pv, ok := x.pre[id.Name]; ok {
				ty = pv.ty
			}
		}
		if ty == nil {
			ty = x.nameType(id.Name)
		}
		if ty == nil {
			v, err := x.lhsTarget(l, define, &gty{k: "poison"})
			if err != nil {
				return "", err
			}
			v.ty = &gty{k: "poison"}
			continue
		}
		v, err := x.lhsTarget(l, define, ty)
		if err != nil {
			return "", err
		}
		v.ty = ty
		name := x.fresh(fmt.Sprintf("h%d_%s", x.line(t), id.Name))
		x.addParam(name, ty.coq(), fmt.Sprintf("value of %s after line %d `%s`", id.Name, x.line(t), firstLine(stmtStr(t))), 2)
		lets = append(lets, "let "+v.coq+" := "+name+" in\n  ")
	}
	tr := x.lookup("tr")
	if tr == nil {
		return "", errf("line %d: statement outside the subset", x.line(t))
	}
	logged := "let " + tr.coq + " := " + app(tr.coq, "["+coqStr(stmtStr(t))+"%string]") + " in\n  "
	rest, err := k()
	if err != nil {
		return "", err
	}
	return logged + strings.Join(lets, "") + rest, nil
}

// branchesMayPanic: translating the branches produces a run-time check (trial translation,
// undone afterwards)
func (x *xl) branchesMayPanic(thenL, elseL []ast.Stmt) bool {
	before := x.panicSites
	saveChecks, saveParams, saveNotes, saveCounter, saveDefs := x.checks, x.params, x.notes, x.counter, x.defOrder
	savePidx, saveLive, saveGo, saveOut := map[string]*param{}, map[string]int{}, map[string]int{}, map[string]*gty{}
	for k, v := range x.pidx {
		savePidx[k] = v
	}
	for k, v := range x.live {
		saveLive[k] = v
	}
	for k, v := range x.paramGoIdx {
		saveGo[k] = v
	}
	for k, v := range x.outTys {
		saveOut[k] = v
	}
	var saveScopes []map[string]*vinfo
	for _, sc := range x.scopes {
		c := map[string]*vinfo{}
		for k, v := range sc {
			c[k] = v
		}
		saveScopes = append(saveScopes, c)
	}
	saveLoops := x.loopDefs
	saveLocal := map[string]string{}
	for k, v := range x.localDefs {
		saveLocal[k] = v
	}
	mayPanic := x.mayPanic
	tup := func() (string, error) { return "tt", nil }
	_, _ = x.scoped(thenL, tup)
	_, _ = x.scoped(elseL, tup)
	changed := x.panicSites != before
	x.checks, x.params, x.notes, x.counter, x.defOrder = saveChecks, saveParams[:len(saveParams):len(saveParams)], saveNotes, saveCounter, saveDefs
	x.pidx, x.live, x.paramGoIdx, x.outTys, x.localDefs = savePidx, saveLive, saveGo, saveOut, saveLocal
	x.scopes = saveScopes
	x.loopDefs = saveLoops[:len(saveLoops):len(saveLoops)]
	x.mayPanic = mayPanic
	x.panicSites = before
	return changed
}

func wordIn(name, text string) bool {
	re := regexp.MustCompile(`(^|[^A-Za-z0-9_'])` + regexp.QuoteMeta(name) + `($|[^A-Za-z0-9_'])`)
	return re.MatchString(text)
}

func stTypes2(state []*vinfo) string {
	s := ""
	for _, v := range state {
		s += v.ty.coq() + " -> "
	}
	return s
}

// xs[i] = v on a list held in a variable
func (x *xl) elemAssign(t *ast.AssignStmt, v *vinfo, ix *ast.IndexExpr, k cont) (string, error) {
	i, err := x.exprZ(ix.Index)
	if err != nil {
		return "", errf("line %d: %s", x.line(t), err.Error())
	}
	var val string
	if v.ty.k == "bytes" {
		c, err := x.exprZ(t.Rhs[0])
		if err != nil {
			return "", errf("line %d: %s", x.line(t), err.Error())
		}
		val = "(Z.to_N " + c + ")"
	} else {
		c, ty, err := x.expr(t.Rhs[0], v.ty.elem)
		if err != nil {
			return "", errf("line %d: %s", x.line(t), err.Error())
		}
		if !ty.eq(v.ty.elem) {
			return "", errf("line %d: element of type %s assigned a %s", x.line(t), v.ty.elem.coq(), ty.coq())
		}
		val = c
	}
	x.addCheck("((0 <=? " + i + ") && (" + i + " <? len " + v.coq + "))")
	checks := x.takeChecks()
	logged := ""
	if x.spec.logStmts {
		if tr := x.lookup("tr"); tr != nil {
			logged = "let " + tr.coq + " := " + app(tr.coq, "["+coqStr(stmtStr(t))+"%string]") + " in\n  "
		}
	}
	rest, err := k()
	if err != nil {
		return "", err
	}
	return x.wrapChecks(checks, "let "+v.coq+" := (list_set "+v.coq+" "+i+" "+val+") in\n  "+logged+rest), nil
}

// rangedWritesOK: every element write to the ranged slice is followed, in its statement list,
// by statements after which the loop is left
func rangedWritesOK(list []ast.Stmt, name string) bool {
	ok := true
	var walk func(l []ast.Stmt)
	writes := func(s ast.Stmt) bool {
		as, isAs := s.(*ast.AssignStmt)
		if !isAs {
			return false
		}
		for _, l := range as.Lhs {
			if ix, isIx := l.(*ast.IndexExpr); isIx {
				if id, isId := ix.X.(*ast.Ident); isId && id.Name == name {
					return true
				}
			}
		}
		return false
	}
	walk = func(l []ast.Stmt) {
		for i, s := range l {
			if writes(s) && !terminates(l[i+1:]) {
				ok = false
			}
			switch t := s.(type) {
			case *ast.BlockStmt:
				walk(t.List)
			case *ast.IfStmt:
				walk(t.Body.List)
				if t.Else != nil {
					walk([]ast.Stmt{t.Else})
				}
			case *ast.SwitchStmt:
				for _, c := range t.Body.List {
					walk(c.(*ast.CaseClause).Body)
				}
			case *ast.RangeStmt:
				walk(t.Body.List)
			case *ast.ForStmt:
				walk(t.Body.List)
			case *ast.LabeledStmt:
				walk([]ast.Stmt{t.Stmt})
			}
		}
	}
	walk(list)
	return ok
}

// for init; cond; post { body } (each part optional): recursion on explicit fuel.  The enclosing
// definition gets two more parameters: fuel_N (how many iterations may run) and oof_N (the result
// when the fuel runs out, of the definition's result type); theorems state how much fuel suffices.
func (x *xl) forStmt(t *ast.ForStmt, label string, k cont) (string, error) {
	kk := x.bindK(k)
	x.push()
	defer x.pop()
	if t.Init != nil {
		return x.stmt(t.Init, func() (string, error) { return x.forCore(t, label, kk) })
	}
	return x.forCore(t, label, kk)
}

func (x *xl) forCore(t *ast.ForStmt, label string, k cont) (string, error) {
	bodyAndPost := append([]ast.Stmt{}, t.Body.List...)
	if t.Post != nil {
		bodyAndPost = append(bodyAndPost, t.Post)
	}
	state := x.assignedOuter(bodyAndPost)
	x.counter++
	n := x.counter
	kn, ln := fmt.Sprintf("k_%d", n), fmt.Sprintf("loop_%d", n)
	fuelP, oofP := fmt.Sprintf("fuel_%d", n), fmt.Sprintf("oof_%d", n)
	rest, err := k()
	if err != nil {
		return "", err
	}
	fv, fr := x.fresh(fmt.Sprintf("f_%d", n)), x.fresh(fmt.Sprintf("g_%d", n))
	x.live[fv]++
	x.live[fr]++
	stArgs := ""
	for _, v := range state {
		stArgs += " " + v.coq
	}
	cond := "true"
	var checks []string
	if t.Cond != nil {
		c, err := x.cond(t.Cond)
		if err != nil {
			return "", errf("line %d: %s", x.line(t), err.Error())
		}
		cond = c
		checks = x.takeChecks()
	}
	depth := len(x.scopes)
	again := func() (string, error) {
		save := x.scopes
		x.scopes = x.scopes[:depth]
		defer func() { x.scopes = save }()
		next := func() (string, error) { return "(" + ln + " " + fr + stArgs + ")", nil }
		if t.Post != nil {
			return x.stmt(t.Post, next)
		}
		return next()
	}
	lp := &loopCtx{label: label, contCode: again,
		breakCode: func() (string, error) { return "(" + kn + " " + argsOf(state) + ")", nil }}
	saveSw := x.switchDepth
	x.switchDepth = 0
	x.loops = append(x.loops, lp)
	body, err := x.scoped(t.Body.List, again)
	x.loops = x.loops[:len(x.loops)-1]
	x.switchDepth = saveSw
	x.live[fv]--
	x.live[fr]--
	if err != nil {
		return "", err
	}
	skip := map[string]bool{fv: true, fr: true, kn: true, ln: true, fuelP: true, oofP: true}
	for _, v := range state {
		skip[v.coq] = true
	}
	var locBinders, locArgs string
	seenLoc := map[string]bool{}
	text := body + " " + cond + " " + strings.Join(checks, " ")
	for _, sc := range x.scopes {
		var names []string
		for _, v := range sc {
			names = append(names, v.coq)
		}
		sort.Strings(names)
		for _, nm := range names {
			var v *vinfo
			for _, cand := range sc {
				if cand.coq == nm {
					v = cand
				}
			}
			if v == nil || skip[v.coq] || seenLoc[v.coq] || x.pidx[v.coq] != nil || v.ty == nil || v.ty.k == "struct" || v.ty.k == "poison" {
				continue
			}
			if !wordIn(v.coq, text) {
				continue
			}
			seenLoc[v.coq] = true
			locBinders += " (" + v.coq + " : " + v.ty.coq() + ")"
			locArgs += " " + v.coq
		}
	}
	stTypes := stTypes2(state)
	if len(state) == 0 {
		stTypes = "unit -> "
	}
	binders := "(" + fv + " : nat)"
	for _, v := range state {
		binders += " (" + v.coq + " : " + v.ty.coq() + ")"
	}
	x.addParam(fuelP, "nat", fmt.Sprintf("fuel of the loop at line %d: the number of iterations that may run", x.line(t)), 2)
	x.addParam(oofP, "@@RES@@", fmt.Sprintf("result when the fuel of the loop at line %d runs out", x.line(t)), 2)
	dname := x.coqName + "_" + ln
	step := "if " + cond + "\n      then (" + body + ")\n      else (" + kn + " " + argsOf(state) + ")"
	if len(checks) > 0 {
		step = x.wrapChecks(checks, step)
	}
	def := fmt.Sprintf("@@LOOP%d@@", n) + "Definition " + dname + " @@PARAMS@@" + locBinders + " (" + kn + " : " + stTypes + "@@RES@@) (" + oofP + " : @@RES@@) : nat -> " + stTypes2(state) + "@@RES@@ :=\n" +
		"  fix " + ln + " " + binders + " {struct " + fv + "} : @@RES@@ :=\n    match " + fv + " with\n    | O => " + oofP +
		"\n    | S " + fr + " =>\n      " + step + "\n    end."
	x.loopDefs = append(x.loopDefs, def)
	code := "let " + kn + " := fun " + bindersOf(state) + " =>\n  " + rest + " in\n  " +
		"(" + dname + fmt.Sprintf(" @@ARGS%d@@", n) + locArgs + " " + kn + " " + oofP + ") " + fuelP + stArgs
	return code, nil
}
