// Go -> Gallina function translator: locating functions / fragments, assembling definitions,
// writing the Gen_Funcs_<pkg>.v files.
package main

import (
	"bytes"
	"fmt"
	"go/ast"
	"go/constant"
	"go/parser"
	"go/printer"
	"go/token"
	"sort"
	"strconv"
	"strings"
)

func stmtStr(s ast.Stmt) string {
	var b bytes.Buffer
	_ = printer.Fprint(&b, token.NewFileSet(), s)
	return strings.Join(strings.Fields(b.String()), " ")
}

type located struct {
	list   []ast.Stmt
	i, j   int
	inLoop bool
}

// findStmts locates the statements whose text starts with `from` (unique in the function)
func findStmts(body *ast.BlockStmt, from, to string) (*located, error) {
	var found []*located
	var walk func(list []ast.Stmt, inLoop bool)
	var inner func(s ast.Stmt, inLoop bool)
	inner = func(s ast.Stmt, inLoop bool) {
		switch t := s.(type) {
		case *ast.BlockStmt:
			walk(t.List, inLoop)
		case *ast.IfStmt:
			walk(t.Body.List, inLoop)
			if t.Else != nil {
				inner(t.Else, inLoop)
			}
		case *ast.ForStmt:
			walk(t.Body.List, true)
		case *ast.RangeStmt:
			walk(t.Body.List, true)
		case *ast.SwitchStmt:
			for _, c := range t.Body.List {
				walk(c.(*ast.CaseClause).Body, inLoop)
			}
		case *ast.TypeSwitchStmt:
			for _, c := range t.Body.List {
				walk(c.(*ast.CaseClause).Body, inLoop)
			}
		case *ast.SelectStmt:
			for _, c := range t.Body.List {
				walk(c.(*ast.CommClause).Body, inLoop)
			}
		case *ast.LabeledStmt:
			inner(t.Stmt, inLoop)
		}
	}
	walk = func(list []ast.Stmt, inLoop bool) {
		for i, s := range list {
			if markerMatches(s, from) {
				found = append(found, &located{list: list, i: i, j: i, inLoop: inLoop})
			}
			inner(s, inLoop)
			switch s.(type) {
			case *ast.ExprStmt, *ast.AssignStmt, *ast.ReturnStmt, *ast.DeferStmt, *ast.GoStmt, *ast.DeclStmt:
				ast.Inspect(s, func(n ast.Node) bool {
					if fl, ok := n.(*ast.FuncLit); ok {
						walk(fl.Body.List, false)
						return false
					}
					return true
				})
			}
		}
	}
	walk(body.List, false)
	if sel, k, ok := markerOrdinal(from); ok {
		// structural marker with an ordinal: the k-th match in source order
		_ = sel
		if k < 1 || k > len(found) {
			return nil, errf("marker `%s`: %d matching statements", from, len(found))
		}
		found = []*located{found[k-1]}
	}
	if len(found) != 1 {
		return nil, errf("%d statements start with `%s` (exactly one expected)", len(found), from)
	}
	l := found[0]
	if to != "" {
		// "#+k" at the end of `to`: the k-th match at or after `from` in the same block
		want := 1
		if i := strings.LastIndex(to, "#+"); i > 0 && strings.HasPrefix(to, "@") {
			if n, err := strconv.Atoi(to[i+2:]); err == nil && n >= 1 {
				want, to = n, to[:i]
			}
		}
		ok := false
		for j := l.i; j < len(l.list); j++ {
			if markerMatches(l.list[j], to) {
				want--
				if want == 0 {
					l.j, ok = j, true
					break
				}
			}
		}
		if !ok {
			return nil, errf("no statement starting with `%s` follows `%s` in the same block", to, from)
		}
	}
	return l, nil
}

func (x *xl) callResultTypes(c *ast.CallExpr) []*gty {
	var fd *ast.FuncDecl
	switch f := c.Fun.(type) {
	case *ast.Ident:
		fd = x.p.funcs[f.Name]
	case *ast.SelectorExpr:
		if _, _, sname, ok := x.structPath(f.X); ok {
			fd = x.p.funcs[sname+"."+f.Sel.Name]
		}
	}
	if fd == nil || fd.Type.Results == nil {
		return nil
	}
	var out []*gty
	for _, fl := range fd.Type.Results.List {
		t, err := x.goType(fl.Type)
		if err != nil {
			return nil
		}
		n := len(fl.Names)
		if n == 0 {
			n = 1
		}
		for i := 0; i < n; i++ {
			out = append(out, t)
		}
	}
	return out
}

// prescan learns the types of the locals declared before position `end`
func (x *xl) prescan(body *ast.BlockStmt, end token.Pos) {
	ast.Inspect(body, func(n ast.Node) bool {
		if n == nil || n.Pos() >= end {
			return false
		}
		switch t := n.(type) {
		case *ast.FuncLit:
			return false
		case *ast.DeclStmt:
			if gd, ok := t.Decl.(*ast.GenDecl); ok && gd.Tok == token.CONST {
				for _, sp := range gd.Specs {
					vs := sp.(*ast.ValueSpec)
					for i, nm := range vs.Names {
						if i < len(vs.Values) {
							if v := evalConst(vs.Values[i], x.p.consts, 0); v != nil && v.Kind() == constant.Int {
								x.preConst[nm.Name] = zlit(v.ExactString())
							}
						}
					}
				}
			}
			if gd, ok := t.Decl.(*ast.GenDecl); ok && gd.Tok == token.VAR {
				for _, sp := range gd.Specs {
					vs := sp.(*ast.ValueSpec)
					if vs.Type == nil {
						for i, nm := range vs.Names {
							if i < len(vs.Values) {
								if ty := x.tryType(vs.Values[i]); ty != nil {
									x.preDeclare(nm.Name, ty, false)
								}
							}
						}
						continue
					}
					ty, err := x.goType(vs.Type)
					if err != nil {
						continue
					}
					for _, nm := range vs.Names {
						x.preDeclare(nm.Name, ty, isBuilderType(vs.Type))
					}
				}
			}
		case *ast.AssignStmt:
			if t.Tok != token.DEFINE {
				return true
			}
			if len(t.Lhs) == len(t.Rhs) {
				for i, l := range t.Lhs {
					id, ok := l.(*ast.Ident)
					if !ok || id.Name == "_" {
						continue
					}
					if ty := x.tryType(t.Rhs[i]); ty != nil {
						x.preDeclare(id.Name, ty, false)
					} else if c, ok := t.Rhs[i].(*ast.CallExpr); ok {
						if rts := x.callResultTypes(c); len(rts) == 1 {
							x.preDeclare(id.Name, rts[0], false)
						}
					}
				}
			} else if len(t.Rhs) == 1 {
				if c, ok := t.Rhs[0].(*ast.CallExpr); ok {
					if rts := x.callResultTypes(c); len(rts) == len(t.Lhs) {
						for i, l := range t.Lhs {
							if id, ok := l.(*ast.Ident); ok && id.Name != "_" {
								x.preDeclare(id.Name, rts[i], false)
							}
						}
					}
				}
			}
		}
		return true
	})
}

func (x *xl) preDeclare(name string, ty *gty, builder bool) {
	if _, ok := x.pre[name]; ok {
		return
	}
	x.pre[name] = &preVar{ty: ty, builder: builder, goIdx: -1}
	if ty.k == "struct" {
		x.scopes[0][name] = &vinfo{coq: sanitize(name), ty: ty}
	}
}

type preVar struct {
	ty      *gty
	builder bool
	goIdx   int
	ptr     bool
}

func (x *xl) declareSignature() error {
	idx := 0
	add := func(fl *ast.Field, isRecv bool) error {
		ty, err := x.goType(fl.Type)
		if err != nil {
			return err
		}
		for _, n := range fl.Names {
			if n.Name == "_" {
				idx++
				continue
			}
			gi := idx
			if isRecv {
				gi = -1
			}
			_, isPtr := fl.Type.(*ast.StarExpr)
			x.pre[n.Name] = &preVar{ty: ty, goIdx: gi, ptr: isPtr}
			if ty.k == "struct" {
				x.scopes[0][n.Name] = &vinfo{coq: sanitize(n.Name), ty: ty}
			}
			if x.spec.writer == n.Name {
				v := &vinfo{coq: x.fresh(n.Name), ty: tBytes, builder: true}
				x.live[v.coq]++
				x.scopes[0][n.Name] = v
				delete(x.pre, n.Name)
			}
			if !isRecv {
				idx++
			}
		}
		if len(fl.Names) == 0 && !isRecv {
			idx++
		}
		return nil
	}
	if x.fd.Recv != nil {
		for _, fl := range x.fd.Recv.List {
			if err := add(fl, true); err != nil {
				return err
			}
		}
	}
	for _, fl := range x.fd.Type.Params.List {
		if err := add(fl, false); err != nil {
			return err
		}
	}
	return nil
}

func newXl(p *pkgInfo, spec *fspec, fd *ast.FuncDecl, file *ast.File) *xl {
	x := &xl{p: p, file: file, spec: spec, fd: fd, pidx: map[string]*param{}, live: map[string]int{},
		localDefs: map[string]string{}, region: map[string]bool{}, pre: map[string]*preVar{}, paramGoIdx: map[string]int{}, preConst: map[string]string{}, outTys: map[string]*gty{}}
	x.push()
	return x
}

type result struct {
	spec    *fspec
	coqName string
	text    string // definition with its comments; "" when not translated
	defs    []string
	reason  string
	em      *emitted
}

func coqNameOf(p *pkgInfo, spec *fspec) string {
	if spec.name != "" {
		return p.prefix + "_" + spec.name
	}
	return p.prefix + "_" + strings.ReplaceAll(spec.fn, ".", "_")
}

func translateSpec(repo string, prefix string, spec *fspec) *result {
	res := &result{spec: spec}
	p, err := loadPkg(repo, prefix, spec.dir)
	if err != nil {
		res.reason = err.Error()
		return res
	}
	res.coqName = coqNameOf(p, spec)
	fd, ok := p.funcs[spec.fn]
	if !ok || fd.Body == nil {
		res.reason = "function not found in " + spec.dir
		return res
	}
	file := p.funcFile[spec.fn]
	if spec.lit != "" {
		var lits []*ast.FuncLit
		ast.Inspect(fd.Body, func(n ast.Node) bool {
			if fl, ok := n.(*ast.FuncLit); ok && len(fl.Body.List) > 0 && strings.HasPrefix(stmtStr(fl.Body.List[0]), spec.lit) {
				lits = append(lits, fl)
			}
			return true
		})
		if len(lits) != 1 {
			res.reason = fmt.Sprintf("%d function literals start with `%s` (exactly one expected)", len(lits), spec.lit)
			return res
		}
		fd = &ast.FuncDecl{Name: fd.Name, Type: lits[0].Type, Body: lits[0].Body}
	}
	var x *xl
	var body string
	for pass := 0; pass < 2; pass++ {
		x = newXl(p, spec, fd, file)
		x.coqName = res.coqName
		x.captures = spec.lit != ""
		x.wrapPanic = pass == 1
		body, err = x.run()
		if err != nil {
			res.reason = err.Error()
			return res
		}
		if !x.mayPanic || x.frag {
			break
		}
	}
	res.text, res.em = x.assemble(res.coqName, body)
	for _, d := range x.defOrder {
		res.defs = append(res.defs, x.localDefs[d])
	}
	return res
}

func (x *xl) run() (string, error) {
	if x.fd.Type.TypeParams != nil {
		return "", errf("generic function")
	}
	if err := x.declareSignature(); err != nil {
		return "", err
	}
	spec := x.spec
	if spec.mode == "frag" {
		x.frag = true
		loc, err := findStmts(x.fd.Body, spec.from, spec.to)
		if err != nil {
			return "", err
		}
		x.fragLoc = loc
		stmts := loc.list[loc.i : loc.j+1]
		x.inGoLoop = loc.inLoop
		x.prescan(x.fd.Body, stmts[0].Pos())
		// variables the table types as structs of this package
		for name, h := range spec.hints {
			if strings.HasPrefix(h, "S:") && !strings.ContainsAny(name, ".()[ ") {
				if _, ok := x.p.structs[strings.TrimPrefix(h, "S:")]; ok && x.lookup(name) == nil {
					x.scopes[0][name] = &vinfo{coq: sanitize(name), ty: tStruct(strings.TrimPrefix(h, "S:"))}
				}
			}
		}
		for _, n := range x.assigned(stmts, true) {
			x.region[n] = true
		}
		x.outs = spec.outs
		// variables of the enclosing function that the fragment assigns or reports: their values
		// at the start of the fragment are parameters
		declared := map[string]bool{}
		for _, s := range stmts {
			ast.Inspect(s, func(n ast.Node) bool {
				switch t := n.(type) {
				case *ast.FuncLit:
					return false
				case *ast.AssignStmt:
					if t.Tok == token.DEFINE {
						for _, l := range t.Lhs {
							if id, ok := l.(*ast.Ident); ok {
								declared[id.Name] = true
							}
						}
					}
				case *ast.ValueSpec:
					for _, nm := range t.Names {
						declared[nm.Name] = true
					}
				case *ast.RangeStmt:
					if t.Tok == token.DEFINE {
						if id, ok := t.Key.(*ast.Ident); ok {
							declared[id.Name] = true
						}
						if id, ok := t.Value.(*ast.Ident); ok {
							declared[id.Name] = true
						}
					}
				}
				return true
			})
		}
		for _, n := range append(x.assigned(stmts, false), spec.outs...) {
			if declared[n] || x.lookup(n) != nil {
				continue
			}
			if e, err := parseExprText(n); err == nil {
				if _, _, err := x.expr(e, x.nameType(n)); err != nil {
					// typed later, at the first use, or reported there
				}
			}
		}
		x.checks = nil
		if spec.logStmts {
			v := &vinfo{coq: "tr", ty: tStrs}
			x.live["tr"]++
			x.scopes[0]["tr"] = v
			x.outs = append(append([]string{}, spec.outs...), "tr")
		}
		code, err := x.block(stmts, func() (string, error) { return x.fragTerm("FFall", "") })
		if err != nil {
			return "", err
		}
		if spec.logStmts {
			code = "let tr := ([] : list string) in\n  " + code
		}
		return code, nil
	}
	// whole function
	for _, n := range x.assigned(x.fd.Body.List, true) {
		x.region[n] = true
	}
	// fields of pointer parameters / the pointer receiver that the body assigns: their final
	// values are appended to the results
	for _, n := range x.assigned(x.fd.Body.List, false) {
		parts := strings.Split(n, ".")
		if len(parts) != 2 {
			continue
		}
		if pv, ok := x.pre[parts[0]]; ok && pv.ty.k == "struct" && pv.ptr {
			ft, err := x.structField(pv.ty.name, parts[1])
			if err != nil {
				return "", err
			}
			if ft.k == "struct" {
				return "", errf("assignment to the struct-valued field %s", n)
			}
			x.mutFields = append(x.mutFields, n)
			x.mutTys = append(x.mutTys, ft)
		}
	}
	if len(x.mutFields) > 0 {
		x.note("the body assigns %s: their values at return are appended to the results", strings.Join(x.mutFields, ", "))
	}
	var pre []string
	if x.fd.Type.Results != nil {
		for _, fl := range x.fd.Type.Results.List {
			ty, err := x.goType(fl.Type)
			if err != nil {
				return "", err
			}
			if ty.k == "struct" {
				return "", errf("struct result %s", exprStr(fl.Type))
			}
			n := len(fl.Names)
			if n == 0 {
				n = 1
			}
			for i := 0; i < n; i++ {
				x.resTys = append(x.resTys, ty)
			}
			for _, nm := range fl.Names {
				z, ok := ty.zero()
				if !ok {
					return "", errf("named result %s of type %s", nm.Name, ty.coq())
				}
				v := x.declare(nm.Name, ty)
				x.named = append(x.named, nm.Name)
				pre = append(pre, "let "+v.coq+" := "+z+" in\n  ")
			}
		}
	}
	if x.spec.writer != "" {
		pre = append(pre, "let "+x.lookup(x.spec.writer).coq+" := ([] : list N) in\n  ")
	}
	code, err := x.block(x.fd.Body.List, func() (string, error) {
		if len(x.resTys) == 0 {
			var parts []string
			mf, err := x.mutValues()
			if err != nil {
				return "", err
			}
			parts = append(parts, mf...)
			if x.spec.writer != "" {
				parts = append(parts, x.lookup(x.spec.writer).coq)
			}
			c := "tt"
			if len(parts) == 1 {
				c = parts[0]
			} else if len(parts) > 1 {
				c = "(" + strings.Join(parts, ", ") + ")"
			}
			if x.wrapPanic {
				return "(GoRet " + c + ")", nil
			}
			return c, nil
		}
		return "", errf("control reaches the end of the function body")
	})
	if err != nil {
		return "", err
	}
	return strings.Join(pre, "") + code, nil
}

func (x *xl) assemble(name, body string) (string, *emitted) {
	// order: type parameters, function parameters, declared Go parameters (declared order), the rest
	var tps, fps, gps, ops []*param
	for _, p := range x.params {
		switch p.kind {
		case 0:
			tps = append(tps, p)
		case 1:
			fps = append(fps, p)
		default:
			if _, ok := x.paramGoIdx[p.name]; ok {
				gps = append(gps, p)
			} else {
				ops = append(ops, p)
			}
		}
	}
	sort.SliceStable(gps, func(i, j int) bool { return x.paramGoIdx[gps[i].name] < x.paramGoIdx[gps[j].name] })
	// everything else by name, so that reordering statements does not reorder parameters
	sort.SliceStable(tps, func(i, j int) bool { return tps[i].name < tps[j].name })
	sort.SliceStable(fps, func(i, j int) bool { return fps[i].name < fps[j].name })
	sort.SliceStable(ops, func(i, j int) bool { return ops[i].name < ops[j].name })
	{
		allText := body + " " + strings.Join(x.loopDefs, " ")
		used := func(p *param) bool { return wordIn(p.name, allText) }
		var g2, o2, f2 []*param
		for _, p := range gps {
			if used(p) {
				g2 = append(g2, p)
			}
		}
		for _, p := range ops {
			if used(p) {
				o2 = append(o2, p)
			}
		}
		for _, p := range fps {
			if used(p) {
				f2 = append(f2, p)
			}
		}
		gps, ops, fps = g2, o2, f2
	}
	{
		var text strings.Builder
		text.WriteString(body + " " + x.resultType() + " " + strings.Join(x.loopDefs, " "))
		for _, p := range append(append(append([]*param{}, fps...), gps...), ops...) {
			text.WriteString(" " + p.ty)
		}
		var kept []*param
		for _, p := range tps {
			if strings.Contains(text.String(), p.name) {
				kept = append(kept, p)
			}
		}
		tps = kept
	}
	all := append(append(append(tps, fps...), gps...), ops...)
	var b strings.Builder
	spec := x.spec
	kind := "func " + spec.fn
	if spec.lit != "" {
		kind = "the function literal in func " + spec.fn + " that starts with `" + spec.lit + "`"
	}
	if spec.mode == "frag" {
		loc := x.fragLoc
		first, last := loc.list[loc.i], loc.list[loc.j]
		kind = fmt.Sprintf("func %s, FRAGMENT lines %d-%d: from `%s` to the end of `%s`", spec.fn, x.line(first),
			x.p.fset.Position(last.End()).Line, firstLine(stmtStr(first)), firstLine(stmtStr(last)))
		if spec.slice {
			kind += fmt.Sprintf("; SLICE on %s: only the statements assigning these variables are kept", strings.Join(spec.outs, ", "))
		}
	}
	b.WriteString(fmt.Sprintf("(* %s/%s: %s", spec.dir, spec.file, cmt(kind)))
	if spec.prop != "" {
		b.WriteString("  [" + spec.prop + "]")
	}
	b.WriteString(" *)\n")
	for _, p := range all {
		if p.doc != "" && !(p.kind == 2 && x.paramGoIdxHas(p.name)) {
			b.WriteString("(*   " + p.name + " : " + cmt(p.doc) + " *)\n")
		}
	}
	if spec.mode == "frag" {
		outs := strings.Join(x.outs, ", ")
		if outs == "" {
			outs = "(none)"
		}
		b.WriteString("(*   result: how control leaves the fragment, with the values of " + outs + " at that point *)\n")
	}
	for _, n := range x.notes {
		b.WriteString("(*   note: " + cmt(n) + " *)\n")
	}
	var pb, pa []string
	for _, p := range all {
		pb = append(pb, "("+p.name+" : "+p.ty+")")
		pa = append(pa, p.name)
	}
	_, _ = pb, pa
	// every loop definition takes the parameters it mentions (and the Type parameters those need)
	loopArgs := map[string]string{}
	var loopTexts []string
	for _, d := range x.loopDefs {
		end := strings.Index(d[2:], "@@") + 4
		tag := d[:end] // @@LOOPn@@
		num := strings.TrimSuffix(strings.TrimPrefix(tag, "@@LOOP"), "@@")
		d = d[end:]
		for num2, a := range loopArgs { // calls of inner loops: their arguments are needed here too
			d = strings.ReplaceAll(d, " @@ARGS"+num2+"@@", prefixSp(a))
		}
		var sel []*param
		for _, p := range all {
			if p.kind != 0 && wordIn(p.name, d) && !strings.Contains(d, "("+p.name+" : ") {
				sel = append(sel, p)
			}
		}
		var tsel []*param
		for _, p := range all {
			if p.kind != 0 {
				continue
			}
			need := wordIn(p.name, d) || wordIn(p.name, x.resultType())
			for _, q := range sel {
				if wordIn(p.name, q.ty) {
					need = true
				}
			}
			if need {
				tsel = append(tsel, p)
			}
		}
		sel = append(tsel, sel...)
		var bs, as []string
		for _, p := range sel {
			bs = append(bs, "("+p.name+" : "+strings.ReplaceAll(p.ty, "@@RES@@", x.resultType())+")")
			as = append(as, p.name)
		}
		d = strings.ReplaceAll(d, " @@PARAMS@@", prefixSp(strings.Join(bs, " ")))
		d = strings.ReplaceAll(d, "@@RES@@", x.resultType())
		loopArgs[num] = strings.Join(as, " ")
		loopTexts = append(loopTexts, d)
	}
	fill := func(s string) string {
		for num, a := range loopArgs {
			s = strings.ReplaceAll(s, " @@ARGS"+num+"@@", prefixSp(a))
		}
		return strings.ReplaceAll(s, "@@RES@@", x.resultType())
	}
	for i, d := range loopTexts {
		b.WriteString(fmt.Sprintf("(*   loop %d of the definition below, as a definition of its own: the parameters and locals it reads, and what follows the loop (k_..) *)\n", i+1))
		b.WriteString(fill(d) + "\n")
	}
	b.WriteString("Definition " + name)
	for _, p := range all {
		b.WriteString(" (" + p.name + " : " + fill(p.ty) + ")")
	}
	b.WriteString(" : " + x.resultType() + " :=\n  " + fill(body) + ".\n")
	em := &emitted{coq: name, params: all, resTys: x.resTys, wrap: x.wrapPanic && x.mayPanic, simple: len(ops) == 0 && spec.mode != "frag" && spec.writer == "" && len(x.mutFields) == 0}
	for _, p := range gps {
		em.goParams = append(em.goParams, p.name)
		em.goIdx = append(em.goIdx, x.paramGoIdx[p.name])
	}
	return b.String(), em
}

func (x *xl) paramGoIdxHas(n string) bool { _, ok := x.paramGoIdx[n]; return ok }

func (x *xl) resultType() string {
	if x.frag {
		var ts []*gty
		for _, o := range x.outs {
			if t, ok := x.outTys[o]; ok {
				ts = append(ts, t)
			} else if v := x.lookup(o); v != nil {
				ts = append(ts, v.ty)
			}
		}
		o := "unit"
		if len(ts) == 1 {
			o = ts[0].coq()
		} else if len(ts) > 1 {
			o = tTuple(ts).coq()
		}
		return "frag (" + o + ")"
	}
	ts := append([]*gty{}, x.resTys...)
	ts = append(ts, x.mutTys...)
	if x.spec.writer != "" {
		ts = append(ts, tBytes)
	}
	r := "unit"
	if len(ts) == 1 {
		r = ts[0].coq()
	} else if len(ts) > 1 {
		r = tTuple(ts).coq()
	}
	if x.wrapPanic && x.mayPanic {
		return "gores (" + r + ")"
	}
	return r
}

func (x *xl) mutValues() ([]string, error) {
	var out []string
	for _, n := range x.mutFields {
		parts := strings.Split(n, ".")
		c, _, err := x.selector(&ast.SelectorExpr{X: ast.NewIdent(parts[0]), Sel: ast.NewIdent(parts[1])}, nil)
		if err != nil {
			return nil, err
		}
		out = append(out, c)
	}
	return out, nil
}

func parseExprText(s string) (ast.Expr, error) { return parser.ParseExpr(s) }

func prefixSp(s string) string {
	if s == "" {
		return ""
	}
	return " " + s
}

// Markers.  A plain marker is a prefix of the statement's (whitespace-normalised) source text.
// A marker that starts with '@' is structural and survives renamings of everything it does not
// name:
//
//	@assign:x     a statement that itself assigns or declares x (x := .., x = .., x += .., var x ..,
//	              x.f = .. written as @assign:x.f); compound statements are matched by their header only
//	@if:x         an if statement whose condition or init statement mentions the identifier x
//	@switch:x     a switch whose tag or init mentions x        @range:x   a range over an expression mentioning x
//	@for:x        a for statement whose condition or init mentions x
//	@call:f       an expression statement, or a single assignment, whose call is to f (text of the callee)
//	@return       a return statement
//
// "#k" at the end of `from` picks the k-th match in source order in the function (otherwise the
// match must be unique).  `to` is the first match at or after `from` in the same block; "#+k" at the
// end of `to` picks the k-th such match instead.
func markerOrdinal(m string) (string, int, bool) {
	if !strings.HasPrefix(m, "@") {
		return m, 0, false
	}
	if i := strings.LastIndex(m, "#"); i > 0 {
		k := 0
		for _, c := range m[i+1:] {
			if c < '0' || c > '9' {
				return m, 0, false
			}
			k = k*10 + int(c-'0')
		}
		return m[:i], k, true
	}
	return m, 0, false
}

func mentions(n ast.Node, name string) bool {
	if n == nil {
		return false
	}
	found := false
	ast.Inspect(n, func(m ast.Node) bool {
		switch t := m.(type) {
		case *ast.FuncLit:
			return false
		case *ast.Ident:
			if t.Name == name {
				found = true
			}
		case *ast.SelectorExpr:
			if exprStr(t) == name {
				found = true
			}
		}
		return !found
	})
	return found
}

func callTo(e ast.Expr, f string) bool {
	c, ok := e.(*ast.CallExpr)
	return ok && exprStr(c.Fun) == f
}

func markerMatches(s ast.Stmt, marker string) bool {
	if !strings.HasPrefix(marker, "@") {
		return strings.HasPrefix(stmtStr(s), marker)
	}
	m, _, _ := markerOrdinal(marker)
	kind, arg := m[1:], ""
	if i := strings.Index(kind, ":"); i >= 0 {
		kind, arg = kind[:i], kind[i+1:]
	}
	if ls, ok := s.(*ast.LabeledStmt); ok {
		s = ls.Stmt
	}
	switch kind {
	case "assign":
		switch t := s.(type) {
		case *ast.AssignStmt:
			for _, l := range t.Lhs {
				if exprStr(l) == arg {
					return true
				}
			}
		case *ast.IncDecStmt:
			return exprStr(t.X) == arg
		case *ast.DeclStmt:
			if gd, ok := t.Decl.(*ast.GenDecl); ok {
				for _, sp := range gd.Specs {
					if vs, ok := sp.(*ast.ValueSpec); ok {
						for _, n := range vs.Names {
							if n.Name == arg {
								return true
							}
						}
					}
				}
			}
		}
	case "if":
		if t, ok := s.(*ast.IfStmt); ok {
			return mentions(t.Cond, arg) || (t.Init != nil && mentions(t.Init, arg))
		}
	case "switch":
		if t, ok := s.(*ast.SwitchStmt); ok {
			return (t.Tag != nil && mentions(t.Tag, arg)) || (t.Init != nil && mentions(t.Init, arg))
		}
	case "range":
		if t, ok := s.(*ast.RangeStmt); ok {
			return mentions(t.X, arg)
		}
	case "for":
		if t, ok := s.(*ast.ForStmt); ok {
			return (t.Cond != nil && mentions(t.Cond, arg)) || (t.Init != nil && mentions(t.Init, arg))
		}
	case "call":
		switch t := s.(type) {
		case *ast.ExprStmt:
			return callTo(t.X, arg)
		case *ast.AssignStmt:
			return len(t.Rhs) == 1 && callTo(t.Rhs[0], arg)
		}
	case "return":
		_, ok := s.(*ast.ReturnStmt)
		return ok
	}
	return false
}
