// Go -> Gallina function translator: expressions.
package main

import (
	"fmt"
	"go/ast"
	"go/constant"
	"go/token"
	"strings"
)

// description of an already translated function, for direct calls
type emitted struct {
	coq      string
	params   []*param
	goParams []string // value parameters in order = these declared Go parameters
	goIdx    []int    // their positions in the Go parameter list
	simple   bool     // every value parameter is a declared Go parameter
	resTys   []*gty
	wrap     bool
}

var translatedFns = map[string]*emitted{} // "dir:fn"

func (x *xl) addCheck(c string) {
	x.mayPanic = true
	if len(x.guards) > 0 {
		c = "(implb (" + strings.Join(x.guards, " && ") + ") " + c + ")"
	}
	x.checks = append(x.checks, c)
}

func bytesLit(s string) string {
	printable := true
	for i := 0; i < len(s); i++ {
		if s[i] < 32 || s[i] > 126 {
			printable = false
		}
	}
	if s == "" {
		return "([] : list N)"
	}
	if printable {
		return "(bytes_of_string " + coqStr(s) + "%string)"
	}
	var ps []string
	for i := 0; i < len(s); i++ {
		ps = append(ps, fmt.Sprintf("%d", s[i]))
	}
	return "[" + strings.Join(ps, "; ") + "]%N"
}

// tryType guesses the type of an expression without translating it (nil = unknown)
func (x *xl) tryType(e ast.Expr) *gty {
	switch t := e.(type) {
	case *ast.ParenExpr:
		return x.tryType(t.X)
	case *ast.BasicLit:
		switch t.Kind {
		case token.INT, token.CHAR:
			return tZ
		case token.STRING:
			return tBytes
		}
	case *ast.Ident:
		if t.Name == "true" || t.Name == "false" {
			return tBool
		}
		if v := x.lookup(t.Name); v != nil {
			return v.ty
		}
		if _, ok := x.preConst[t.Name]; ok {
			return tZ
		}
		if pv, ok := x.pre[t.Name]; ok {
			return pv.ty
		}
		if v, ok := x.p.consts[t.Name]; ok {
			return constTy(v)
		}
		if v, ok := x.p.vars[t.Name]; ok {
			return constTy(v)
		}
		if h, ok := x.hint(t.Name); ok {
			return h
		}
	case *ast.SelectorExpr:
		if h, ok := x.hint(exprStr(t)); ok {
			return h
		}
		if v := x.lookup(exprStr(t)); v != nil {
			return v.ty
		}
		if id, ok := t.X.(*ast.Ident); ok && x.lookup(id.Name) == nil {
			if _, ty, ok := x.extConstPeek(id.Name, t.Sel.Name); ok {
				return ty
			}
		}
		if _, _, sname, ok := x.structPath(t.X); ok {
			if ft, err := x.structField(sname, t.Sel.Name); err == nil {
				return ft
			}
		}
	case *ast.UnaryExpr:
		if t.Op == token.NOT {
			return tBool
		}
		if t.Op == token.ARROW {
			return nil // a channel receive: the element type is not tracked
		}
		return x.tryType(t.X)
	case *ast.StarExpr:
		if in := x.tryType(t.X); in != nil {
			if in.k == "ptr" {
				return in.elem
			}
			return in
		}
	case *ast.BinaryExpr:
		switch t.Op {
		case token.LAND, token.LOR, token.EQL, token.NEQ, token.LSS, token.LEQ, token.GTR, token.GEQ:
			return tBool
		}
		if l := x.tryType(t.X); l != nil {
			return l
		}
		return x.tryType(t.Y)
	case *ast.CallExpr:
		if h, ok := x.hint(exprStr(t)); ok {
			return h
		}
		if es, ok := x.spec.ext[exprStr(t.Fun)]; ok && len(es.res) == 1 && es.state == "" {
			if ty, err := x.typeFromName(es.res[0]); err == nil {
				return ty
			}
		}
		if se, ok := t.Fun.(*ast.SelectorExpr); ok {
			if h, ok := x.hint("." + se.Sel.Name + "()"); ok {
				return h
			}
		}
		switch exprStr(t.Fun) {
		case "len", "int", "int64", "int32", "uint64", "uint32", "uint", "uint8", "byte", "min", "max":
			return tZ
		case "string", "[]byte", "append":
			if exprStr(t.Fun) == "append" && len(t.Args) > 0 {
				return x.tryType(t.Args[0])
			}
			return tBytes
		case "bytes.Equal":
			return tBool
		case "errors.New", "fmt.Errorf":
			return tErr
		}
		if namedZ[exprStr(t.Fun)] {
			return tZ
		}
		if namedBytes[exprStr(t.Fun)] {
			return tBytes
		}
	case *ast.IndexExpr:
		if b := x.tryType(t.X); b != nil {
			if b.k == "bytes" {
				return tZ
			}
			if b.k == "list" {
				return b.elem
			}
		}
	case *ast.SliceExpr:
		return x.tryType(t.X)
	case *ast.CompositeLit:
		if t.Type != nil {
			if id, ok := t.Type.(*ast.Ident); ok {
				if _, ok := x.p.structs[id.Name]; ok {
					return tStruct(id.Name)
				}
			}
			if at, ok := t.Type.(*ast.ArrayType); ok {
				if id, ok := at.Elt.(*ast.Ident); ok && (id.Name == "byte" || id.Name == "uint8") {
					return tBytes
				}
			}
		}
	}
	return nil
}

func constTy(v constant.Value) *gty {
	switch v.Kind() {
	case constant.Int:
		return tZ
	case constant.String:
		return tBytes
	case constant.Bool:
		return tBool
	}
	return nil
}

func (x *xl) extConstPeek(pkgIdent, name string) (string, *gty, bool) {
	path, ok := resolveImport(x.p.repo, x.file, pkgIdent)
	if !ok {
		return "", nil, false
	}
	const self = "github.com/ipni/go-libipni/"
	if strings.HasPrefix(path, self) {
		q, err := loadPkg(x.p.repo, sanitize(strings.TrimPrefix(path, self)), strings.TrimPrefix(path, self))
		if err != nil {
			return "", nil, false
		}
		if v, ok := q.consts[name]; ok {
			return "", constTy(v), true
		}
		return "", nil, false
	}
	ep, err := loadExtPkg(x.p.repo, path)
	if err != nil {
		return "", nil, false
	}
	if v, ok := ep.consts[name]; ok {
		return "", constTy(v), true
	}
	return "", nil, false
}

// structPath resolves an expression denoting a value of a struct type of this package:
// key (for the scope table), Coq name prefix, struct name
func (x *xl) structPath(e ast.Expr) (string, string, string, bool) {
	switch t := e.(type) {
	case *ast.ParenExpr:
		return x.structPath(t.X)
	case *ast.StarExpr:
		return x.structPath(t.X)
	case *ast.UnaryExpr:
		if t.Op == token.AND {
			return x.structPath(t.X)
		}
	case *ast.Ident:
		if v := x.lookup(t.Name); v != nil && v.ty.k == "struct" {
			return t.Name, v.coq, v.ty.name, true
		}
	case *ast.SelectorExpr:
		k, c, sname, ok := x.structPath(t.X)
		if !ok {
			return "", "", "", false
		}
		ft, err := x.structField(sname, t.Sel.Name)
		if err != nil || ft.k != "struct" {
			return "", "", "", false
		}
		return k + "." + t.Sel.Name, c + "_" + t.Sel.Name, ft.name, true
	}
	return "", "", "", false
}

// identifiers of an expression that denote Go variables
func (x *xl) varsOf(e ast.Expr) []string {
	var out []string
	ast.Inspect(e, func(n ast.Node) bool {
		switch t := n.(type) {
		case *ast.SelectorExpr:
			if id, ok := t.X.(*ast.Ident); ok {
				if x.lookup(id.Name) == nil {
					if _, isImport := resolveImport(x.p.repo, x.file, id.Name); isImport {
						return false
					}
				}
				out = append(out, id.Name, exprStr(t))
				return false
			}
		case *ast.Ident:
			out = append(out, t.Name)
		}
		return true
	})
	return out
}

func (x *xl) atom(e ast.Expr, want *gty) (string, *gty, error) {
	text := exprStr(e)
	if !x.spec.atoms {
		return "", nil, errf("expression `%s` is outside the subset", text)
	}
	if h, ok := x.hint(text); ok {
		want = h
	}
	if want == nil {
		return "", nil, errf("cannot type the opaque expression `%s` (needs a type hint)", text)
	}
	for _, v := range x.varsOf(e) {
		if x.region[v] && !x.isOnce(text) {
			return "", nil, errf("opaque expression `%s` reads %s, which is assigned in the translated region", text, v)
		}
	}
	name := "a_" + sanitize(text)
	for i := 2; ; i++ {
		p, ok := x.pidx[name]
		if !ok || p.doc == "value of `"+text+"`" {
			break
		}
		name = fmt.Sprintf("a_%s_%d", sanitize(text), i)
	}
	x.addParam(name, want.coq(), "value of `"+text+"`", 2)
	return name, want, nil
}

func (x *xl) cond(e ast.Expr) (string, error) {
	c, t, err := x.expr(e, tBool)
	if err != nil {
		return "", err
	}
	if t.k != "bool" {
		return "", errf("condition `%s` is not boolean", exprStr(e))
	}
	return c, nil
}

func (x *xl) exprZ(e ast.Expr) (string, error) {
	c, t, err := x.expr(e, tZ)
	if err != nil {
		return "", err
	}
	if t.k != "Z" {
		return "", errf("`%s` is not an integer", exprStr(e))
	}
	return c, nil
}

func (x *xl) eqCode(l, r string, t *gty, text string) (string, error) {
	switch t.k {
	case "Z":
		return "(" + l + " =? " + r + ")", nil
	case "bool":
		return "(Bool.eqb " + l + " " + r + ")", nil
	case "bytes":
		return "(bytes_eqb " + l + " " + r + ")", nil
	case "err":
		x.note("== on errors compares their texts (`%s`)", text)
		return "(err_eqb " + l + " " + r + ")", nil
	case "opaque":
		x.addParam("eqb_"+t.name, t.name+" -> "+t.name+" -> bool", "Go == on "+t.name, 1)
		return "(eqb_" + t.name + " " + l + " " + r + ")", nil
	}
	return "", errf("== on values of type %s is outside the subset (`%s`)", t.coq(), text)
}

func isNilIdent(e ast.Expr) bool {
	id, ok := e.(*ast.Ident)
	return ok && id.Name == "nil"
}

func (x *xl) nilTest(e ast.Expr, orig ast.Expr) (string, error) {
	// pointer to a struct of this package
	if _, c, _, ok := x.structPath(e); ok {
		n := c + "_isnil"
		x.addParam(n, "bool", "`"+exprStr(e)+" == nil`", 2)
		return n, nil
	}
	t := x.tryType(e)
	if t == nil && x.spec.atoms {
		return "", nil
	}
	c, ty, err := x.expr(e, nil)
	if err != nil {
		return "", err
	}
	switch ty.k {
	case "err", "ptr":
		return "(isNone " + c + ")", nil
	case "bytes", "list":
		if !x.spec.nilEmpty {
			return "", errf("`%s` distinguishes a nil slice from an empty one", exprStr(orig))
		}
		x.note("a nil slice and an empty slice are not distinguished (`%s`)", exprStr(orig))
		return "(is_nil " + c + ")", nil
	case "opaque":
		x.addParam("isnil_"+ty.name, ty.name+" -> bool", "Go == nil on "+ty.name, 1)
		return "(isnil_" + ty.name + " " + c + ")", nil
	}
	return "", errf("nil test on `%s` is outside the subset", exprStr(e))
}

func (x *xl) expr(e ast.Expr, want *gty) (string, *gty, error) {
	switch t := e.(type) {
	case *ast.ParenExpr:
		return x.expr(t.X, want)
	case *ast.BasicLit:
		switch t.Kind {
		case token.INT, token.CHAR:
			v := constant.MakeFromLiteral(t.Value, t.Kind, 0)
			return zlit(v.ExactString()), tZ, nil
		case token.STRING:
			v := constant.MakeFromLiteral(t.Value, t.Kind, 0)
			return bytesLit(constant.StringVal(v)), tBytes, nil
		}
	case *ast.Ident:
		return x.ident(t, want)
	case *ast.SelectorExpr:
		return x.selector(t, want)
	case *ast.StarExpr:
		c, ty, err := x.expr(t.X, nil)
		if err != nil {
			return "", nil, err
		}
		if ty.k == "ptr" {
			z, ok := ty.elem.zero()
			if !ok {
				return "", nil, errf("dereference `%s` is outside the subset", exprStr(e))
			}
			x.addCheck("(isSome " + c + ")")
			return "(match " + c + " with Some v_ => v_ | None => " + z + " end)", ty.elem, nil
		}
		return c, ty, nil
	case *ast.UnaryExpr:
		switch t.Op {
		case token.NOT:
			c, err := x.cond(t.X)
			if err != nil {
				return "", nil, err
			}
			return "(negb " + c + ")", tBool, nil
		case token.SUB:
			c, err := x.exprZ(t.X)
			if err != nil {
				return "", nil, err
			}
			return "(- " + c + ")", tZ, nil
		case token.ADD:
			return x.expr(t.X, want)
		case token.AND:
			if want != nil && want.k == "ptr" {
				c, ty, err := x.expr(t.X, want.elem)
				if err != nil {
					return "", nil, err
				}
				return "(Some " + c + ")", &gty{k: "ptr", elem: ty}, nil
			}
			if ty := x.tryType(t.X); ty != nil && ty.k != "struct" && ty.k != "opaque" {
				c, ty, err := x.expr(t.X, nil)
				if err != nil {
					return "", nil, err
				}
				return "(Some " + c + ")", &gty{k: "ptr", elem: ty}, nil
			}
			return x.expr(t.X, want)
		}
	case *ast.BinaryExpr:
		return x.binary(t, want)
	case *ast.CallExpr:
		return x.call(t, want)
	case *ast.IndexExpr:
		bt := x.tryType(t.X)
		if bt != nil && (bt.k == "bytes" || bt.k == "list") {
			b, _, err := x.expr(t.X, nil)
			if err != nil {
				return "", nil, err
			}
			i, err := x.exprZ(t.Index)
			if err != nil {
				return "", nil, err
			}
			x.addCheck("((0 <=? " + i + ") && (" + i + " <? len " + b + "))")
			if bt.k == "bytes" {
				return "(index " + b + " " + i + ")", tZ, nil
			}
			z, ok := bt.elem.zero()
			if !ok {
				if bt.elem.k == "opaque" {
					x.addParam("zero_"+bt.elem.name, bt.elem.name, "zero value of "+bt.elem.name+" (never reached: the index is checked first)", 1)
					z = "zero_" + bt.elem.name
				} else {
					return "", nil, errf("indexing a list of %s is outside the subset", bt.elem.coq())
				}
			}
			return "(nth (Z.to_nat " + i + ") " + b + " " + z + ")", bt.elem, nil
		}
		return x.atom(e, want)
	case *ast.SliceExpr:
		bt := x.tryType(t.X)
		if t.Slice3 || bt == nil || (bt.k != "bytes" && bt.k != "list") {
			return x.atom(e, want)
		}
		b, _, err := x.expr(t.X, nil)
		if err != nil {
			return "", nil, err
		}
		if t.Low == nil && t.High == nil {
			return b, bt, nil
		}
		lo, hi := "0", "(len "+b+")"
		if t.Low != nil {
			if lo, err = x.exprZ(t.Low); err != nil {
				return "", nil, err
			}
		}
		if t.High != nil {
			if hi, err = x.exprZ(t.High); err != nil {
				return "", nil, err
			}
		}
		x.addCheck("((0 <=? " + lo + ") && (" + lo + " <=? " + hi + ") && (" + hi + " <=? len " + b + "))")
		return "(slice " + b + " " + lo + " " + hi + ")", bt, nil
	case *ast.CompositeLit:
		if at, ok := t.Type.(*ast.ArrayType); ok {
			el, err := x.goType(at.Elt)
			if err != nil {
				return "", nil, err
			}
			isBytes := false
			if id, ok := at.Elt.(*ast.Ident); ok && (id.Name == "byte" || id.Name == "uint8") {
				isBytes = true
			}
			var ps []string
			for _, item := range t.Elts {
				if _, kv := item.(*ast.KeyValueExpr); kv {
					return "", nil, errf("keyed array literal `%s` is outside the subset", exprStr(e))
				}
				c, _, err := x.expr(item, el)
				if err != nil {
					return "", nil, err
				}
				if isBytes {
					if lit, ok := item.(*ast.BasicLit); ok && (lit.Kind == token.INT || lit.Kind == token.CHAR) {
						c = c + "%N"
					} else {
						c = "(Z.to_N " + c + ")"
					}
				}
				ps = append(ps, c)
			}
			if isBytes {
				return "[" + strings.Join(ps, "; ") + "]", tBytes, nil
			}
			return "[" + strings.Join(ps, "; ") + "]", tList(el), nil
		}
		// struct literal of another package with keyed fields: an uninterpreted constructor
		if se, ok := t.Type.(*ast.SelectorExpr); ok && x.spec.atoms {
			rt := x.opaque(exprStr(se))
			if want != nil && want.isOpaque() {
				rt = want // the literal is stored in a variable of an interface type
			}
			var args, tys []string
			for _, item := range t.Elts {
				kv, ok := item.(*ast.KeyValueExpr)
				if !ok {
					return "", nil, errf("positional struct literal `%s` is outside the subset", exprStr(e))
				}
				c, ty, err := x.expr(kv.Value, nil)
				if err != nil {
					return "", nil, err
				}
				args = append(args, c)
				tys = append(tys, ty.coq())
			}
			name := "mk_" + sanitize(exprStr(se))
			var keys []string
			for _, item := range t.Elts {
				keys = append(keys, exprStr(item.(*ast.KeyValueExpr).Key))
			}
			x.addParam(name, strings.Join(append(tys, rt.coq()), " -> "), "the literal "+exprStr(se)+"{"+strings.Join(keys, ", ")+"}", 1)
			if len(args) == 0 {
				return name, rt, nil
			}
			return "(" + name + " " + strings.Join(args, " ") + ")", rt, nil
		}
	case *ast.TypeAssertExpr:
		return x.atom(e, want)
	}
	return x.atom(e, want)
}

func (x *xl) ident(t *ast.Ident, want *gty) (string, *gty, error) {
	switch t.Name {
	case "true", "false":
		return t.Name, tBool, nil
	case "nil":
		if want != nil {
			if z, ok := want.zero(); ok {
				return z, want, nil
			}
			if want.k == "opaque" {
				x.addParam("nil_"+want.name, want.name, "Go nil of "+want.name, 1)
				return "nil_" + want.name, want, nil
			}
		}
		return "", nil, errf("nil of unknown type")
	}
	if v := x.lookup(t.Name); v != nil {
		if v.ty.k == "struct" {
			return "", nil, errf("struct value `%s` used as a whole is outside the subset", t.Name)
		}
		if v.ty.k == "poison" {
			return "", nil, errf("`%s` is read after an assignment that could not be translated", t.Name)
		}
		return v.coq, v.ty, nil
	}
	if c, ok := x.preConst[t.Name]; ok {
		return c, tZ, nil
	}
	if pv, ok := x.pre[t.Name]; ok {
		if pv.ty.k == "struct" {
			return "", nil, errf("struct value `%s` used as a whole is outside the subset", t.Name)
		}
		if x.spec.slice && x.region[t.Name] {
			return "", nil, errf("the slice reads `%s`, which is assigned by a statement that was not kept", t.Name)
		}
		v := &vinfo{coq: x.fresh(t.Name), ty: pv.ty, builder: pv.builder}
		x.live[v.coq]++
		x.scopes[0][t.Name] = v
		doc := "variable " + t.Name + " at the start of the fragment"
		if pv.goIdx >= 0 {
			x.paramGoIdx[v.coq] = pv.goIdx
			doc = ""
		} else if !x.frag {
			doc = "receiver " + t.Name
		}
		x.addParam(v.coq, pv.ty.coq(), doc, 2)
		return v.coq, pv.ty, nil
	}
	if c, ty, ok := x.pkgConst(t.Name); ok {
		if want != nil && want.k == "err" && ty.k == "bytes" {
			// var ErrX = errors.New("text")
			if _, isVar := x.p.vars[t.Name]; isVar {
				return "(Some (string_of_bytes " + c + "))", tErr, nil
			}
		}
		return c, ty, nil
	}
	if x.frag || x.captures {
		if x.spec.slice && x.region[t.Name] {
			return "", nil, errf("the slice reads `%s`, which is assigned by a statement that was not kept", t.Name)
		}
		// a variable of the enclosing function that the fragment reads
		ty := want
		if h, ok := x.hint(t.Name); ok {
			ty = h
		}
		if ty == nil {
			return "", nil, errf("cannot type the variable `%s` read by the fragment (needs a type hint)", t.Name)
		}
		top := x.scopes[0]
		v := &vinfo{coq: x.fresh(t.Name), ty: ty}
		x.live[v.coq]++
		top[t.Name] = v
		doc := "variable " + t.Name + " at the start of the fragment"
		if x.captures {
			doc = "captured variable " + t.Name
		}
		x.addParam(v.coq, ty.coq(), doc, 2)
		return v.coq, ty, nil
	}
	return "", nil, errf("unknown identifier `%s`", t.Name)
}

func (x *xl) selector(t *ast.SelectorExpr, want *gty) (string, *gty, error) {
	text := exprStr(t)
	if v := x.lookup(text); v != nil {
		return v.coq, v.ty, nil
	}
	// struct field through a path of in-package structs
	if id, ok := t.X.(*ast.Ident); ok && x.zeroStructs[id.Name] {
		return "", nil, errf("field `%s` of a struct declared inside the fragment is outside the subset", text)
	}
	if _, c, sname, ok := x.structPath(t.X); ok {
		ft, err := x.structField(sname, t.Sel.Name)
		if err != nil {
			return "", nil, err
		}
		if ft.k == "struct" {
			return "", nil, errf("struct value `%s` used as a whole is outside the subset", text)
		}
		name := x.fresh(c + "_" + t.Sel.Name)
		v := &vinfo{coq: name, ty: ft}
		x.live[name]++
		x.scopes[0][text] = v
		x.addParam(name, ft.coq(), "field "+text+" at entry", 2)
		return name, ft, nil
	}
	if id, ok := t.X.(*ast.Ident); ok && x.lookup(id.Name) == nil {
		if c, ty, ok := x.extConst(id.Name, t.Sel.Name); ok {
			return c, ty, nil
		}
		if _, isImport := resolveImport(x.p.repo, x.file, id.Name); isImport {
			// a variable of another package (cid.Undef, multihash.ErrInvalidMultihash, ...)
			if h, ok := x.hint(text); ok {
				want = h
			}
			if want == nil {
				return "", nil, errf("cannot type the external variable `%s` (needs a type hint)", text)
			}
			if !x.spec.atoms {
				return "", nil, errf("external variable `%s` is outside the subset", text)
			}
			name := "ext_" + sanitize(text)
			x.addParam(name, want.coq(), "the variable "+text, 2)
			return name, want, nil
		}
	}
	if h, ok := x.hint(text); ok && x.frag && x.spec.fieldVars {
		// a field of an opaque value that the table declares as a variable of the fragment
		v := &vinfo{coq: x.fresh(sanitize(text)), ty: h}
		x.live[v.coq]++
		x.scopes[0][text] = v
		x.addParam(v.coq, h.coq(), "field "+text+" at the start of the fragment", 2)
		return v.coq, h, nil
	}
	// field of the opaque result of a method call on a variable: an observer
	if c, ok := t.X.(*ast.CallExpr); ok {
		if se, ok := c.Fun.(*ast.SelectorExpr); ok {
			if id, ok := se.X.(*ast.Ident); ok {
				if v := x.lookup(id.Name); v != nil && v.ty.k == "opaque" {
					base, bty, err := x.expr(c, nil)
					if err != nil {
						return "", nil, err
					}
					if bty.k == "opaque" {
						rt := want
						if h, ok := x.hint("." + t.Sel.Name); ok {
							rt = h
						}
						if rt == nil {
							return "", nil, errf("cannot type the field `%s` (needs a type hint)", text)
						}
						name := "fld_" + strings.TrimPrefix(bty.name, "T_") + "_" + t.Sel.Name
						x.addParam(name, bty.name+" -> "+rt.coq(), "field ."+t.Sel.Name+" of a "+bty.name, 1)
						return "(" + name + " " + base + ")", rt, nil
					}
				}
			}
		}
	}
	// field of an opaque value held in a variable: an observer
	if id, ok := t.X.(*ast.Ident); ok {
		if x.spec.fieldObs && x.lookup(id.Name) == nil {
			if pv, ok := x.pre[id.Name]; ok && pv.ty.k == "opaque" {
				_, _, _ = x.ident(id, nil) // a parameter / earlier local that has not been read yet
			}
		}
		if v := x.lookup(id.Name); v != nil && v.ty.k == "opaque" {
			rt := want
			if h, ok := x.hint(text); ok {
				rt = h
			}
			if h, ok := x.hint("." + t.Sel.Name); ok {
				rt = h
			}
			if rt == nil {
				return "", nil, errf("cannot type the field `%s` (needs a type hint)", text)
			}
			name := "fld_" + strings.TrimPrefix(v.ty.name, "T_") + "_" + t.Sel.Name
			x.addParam(name, v.ty.name+" -> "+rt.coq(), "field ."+t.Sel.Name+" of a "+v.ty.name, 1)
			return "(" + name + " " + v.coq + ")", rt, nil
		}
	}
	return x.atom(t, want)
}

func (x *xl) binary(t *ast.BinaryExpr, want *gty) (string, *gty, error) {
	switch t.Op {
	case token.LAND, token.LOR:
		l, err := x.cond(t.X)
		if err != nil {
			return "", nil, err
		}
		g := l
		if t.Op == token.LOR {
			g = "(negb " + l + ")"
		}
		x.guards = append(x.guards, g)
		r, err := x.cond(t.Y)
		x.guards = x.guards[:len(x.guards)-1]
		if err != nil {
			return "", nil, err
		}
		if t.Op == token.LAND {
			return "(" + l + " && " + r + ")", tBool, nil
		}
		return "(" + l + " || " + r + ")", tBool, nil
	case token.EQL, token.NEQ:
		var code string
		if isNilIdent(t.Y) || isNilIdent(t.X) {
			other := t.X
			if isNilIdent(t.X) {
				other = t.Y
			}
			c, err := x.nilTest(other, t)
			if err != nil {
				return "", nil, err
			}
			if c == "" {
				a, ty, err := x.atom(&ast.BinaryExpr{X: other, Op: token.EQL, Y: ast.NewIdent("nil")}, tBool)
				if err != nil {
					return "", nil, err
				}
				_ = ty
				c = a
			}
			code = c
		} else {
			lt, rt := x.tryType(t.X), x.tryType(t.Y)
			var l, r string
			var ty *gty
			var err error
			if lt == nil && rt != nil {
				if r, ty, err = x.expr(t.Y, nil); err != nil {
					return "", nil, err
				}
				if l, _, err = x.expr(t.X, ty); err != nil {
					return "", nil, err
				}
			} else {
				if l, ty, err = x.expr(t.X, lt); err != nil {
					return "", nil, err
				}
				var ty2 *gty
				if r, ty2, err = x.expr(t.Y, ty); err != nil {
					return "", nil, err
				}
				if !ty.eq(ty2) {
					return "", nil, errf("`%s` compares %s with %s", exprStr(t), ty.coq(), ty2.coq())
				}
			}
			if code, err = x.eqCode(l, r, ty, exprStr(t)); err != nil {
				return "", nil, err
			}
		}
		if t.Op == token.NEQ {
			return "(negb " + code + ")", tBool, nil
		}
		return code, tBool, nil
	case token.LSS, token.LEQ, token.GTR, token.GEQ:
		l, err := x.exprZ(t.X)
		if err != nil {
			return "", nil, err
		}
		r, err := x.exprZ(t.Y)
		if err != nil {
			return "", nil, err
		}
		switch t.Op {
		case token.LSS:
			return "(" + l + " <? " + r + ")", tBool, nil
		case token.LEQ:
			return "(" + l + " <=? " + r + ")", tBool, nil
		case token.GTR:
			return "(" + r + " <? " + l + ")", tBool, nil
		default:
			return "(" + r + " <=? " + l + ")", tBool, nil
		}
	case token.ADD:
		lt := x.tryType(t.X)
		if lt == nil {
			lt = x.tryType(t.Y)
		}
		if lt != nil && lt.k == "bytes" {
			l, _, err := x.expr(t.X, tBytes)
			if err != nil {
				return "", nil, err
			}
			r, _, err := x.expr(t.Y, tBytes)
			if err != nil {
				return "", nil, err
			}
			return app(l, r), tBytes, nil
		}
		fallthrough
	case token.SUB, token.MUL, token.QUO, token.REM, token.AND, token.OR, token.XOR, token.SHL, token.SHR:
		l, err := x.exprZ(t.X)
		if err != nil {
			return "", nil, err
		}
		r, err := x.exprZ(t.Y)
		if err != nil {
			return "", nil, err
		}
		switch t.Op {
		case token.ADD:
			return "(" + l + " + " + r + ")", tZ, nil
		case token.SUB:
			return "(" + l + " - " + r + ")", tZ, nil
		case token.MUL:
			return "(" + l + " * " + r + ")", tZ, nil
		case token.QUO:
			x.addCheck("(negb (" + r + " =? 0))")
			return "(Z.quot " + l + " " + r + ")", tZ, nil
		case token.REM:
			x.addCheck("(negb (" + r + " =? 0))")
			return "(Z.rem " + l + " " + r + ")", tZ, nil
		case token.AND:
			return "(Z.land " + l + " " + r + ")", tZ, nil
		case token.OR:
			return "(Z.lor " + l + " " + r + ")", tZ, nil
		case token.XOR:
			return "(Z.lxor " + l + " " + r + ")", tZ, nil
		case token.SHL:
			return "(Z.shiftl " + l + " " + r + ")", tZ, nil
		case token.SHR:
			return "(Z.shiftr " + l + " " + r + ")", tZ, nil
		}
	}
	return "", nil, errf("operator %s is outside the subset (`%s`)", t.Op, exprStr(t))
}
