// astgen regenerates small Coq files from the Go source of /repo on every run:
//
//	Gen_Sync_<pkg>.v   per function: the nested skeleton of synchronisation operations
//	Gen_Consts.v       the constants the properties name
//	Gen_Writes_pcache.v every map write / delete in pcache/provider_cache.go
//	Gen_Funcs.v        pcache.needMerge (kept as it was)
//	Gen_Funcs_<pkg>.v  functions and fragments of function bodies translated statement by
//	                   statement to Gallina (gl_*.go; table in gl_specs.go), Gen_Funcs_prelude.v
//
// It uses only go/parser, go/ast, go/token, go/constant (no type checking): field and
// variable kinds (mutex, channel, wait group, once, atomic, cancel func) are resolved
// by name from the struct declarations and local declarations of the package.
package main

import (
	"bytes"
	"flag"
	"fmt"
	"go/ast"
	"go/constant"
	"go/parser"
	"go/printer"
	"go/token"
	"os"
	"path/filepath"
	"sort"
	"strconv"
	"strings"
)

type pkgSpec struct {
	name  string   // coq prefix
	dir   string   // relative to repo
	files []string // file names (no tests); empty = all non-test files
}

var syncPkgs = []pkgSpec{
	{"announce", "announce", []string{"receiver.go", "string_lru.go"}},
	{"dagsync", "dagsync", []string{"subscriber.go"}},
	{"pcache", "pcache", []string{"provider_cache.go"}},
}

var constPkgs = []pkgSpec{
	{"announce", "announce", nil},
	{"message", "announce/message", nil},
	{"metadata", "metadata", nil},
	{"dhash", "dhash", nil},
	{"schema", "ingest/schema", nil},
	{"ipnisync", "dagsync/ipnisync", nil},
	{"dagsync", "dagsync", nil},
	{"pcache", "pcache", nil},
	{"model", "ingest/model", nil},
	{"head", "dagsync/ipnisync/head", nil},
}

func main() {
	repo := flag.String("repo", "/repo", "repository root")
	out := flag.String("out", "", "output directory (coq/gen)")
	flag.Parse()
	if *out == "" {
		fmt.Fprintln(os.Stderr, "need -out")
		os.Exit(2)
	}
	if err := os.MkdirAll(*out, 0o755); err != nil {
		panic(err)
	}
	for _, p := range syncPkgs {
		src, err := genSync(*repo, p)
		if err != nil {
			fmt.Fprintln(os.Stderr, "astgen:", err)
			os.Exit(1)
		}
		writeIfChanged(filepath.Join(*out, "Gen_Sync_"+p.name+".v"), src)
	}
	src, err := genConsts(*repo)
	if err != nil {
		fmt.Fprintln(os.Stderr, "astgen:", err)
		os.Exit(1)
	}
	writeIfChanged(filepath.Join(*out, "Gen_Consts.v"), src)
	src, err = genWrites(*repo, "pcache", "pcache", "provider_cache.go")
	if err != nil {
		fmt.Fprintln(os.Stderr, "astgen:", err)
		os.Exit(1)
	}
	writeIfChanged(filepath.Join(*out, "Gen_Writes_pcache.v"), src)
	src, err = genFieldWrites(*repo, "pcache", "pcache", "provider_cache.go")
	if err != nil {
		fmt.Fprintln(os.Stderr, "astgen:", err)
		os.Exit(1)
	}
	writeIfChanged(filepath.Join(*out, "Gen_Fields_pcache.v"), src)
	src, err = genPureFuncs(*repo)
	if err != nil {
		fmt.Fprintln(os.Stderr, "astgen:", err)
		os.Exit(1)
	}
	writeIfChanged(filepath.Join(*out, "Gen_Funcs.v"), src)
	if err := genFuncFiles(*repo, *out); err != nil {
		fmt.Fprintln(os.Stderr, "astgen:", err)
		os.Exit(1)
	}
}

func writeIfChanged(path, content string) {
	old, err := os.ReadFile(path)
	if err == nil && string(old) == content {
		return
	}
	if err := os.WriteFile(path, []byte(content), 0o644); err != nil {
		panic(err)
	}
}

func parseFiles(repo string, p pkgSpec) (*token.FileSet, []*ast.File, error) {
	fset := token.NewFileSet()
	dir := filepath.Join(repo, p.dir)
	var names []string
	if len(p.files) != 0 {
		names = p.files
	} else {
		ents, err := os.ReadDir(dir)
		if err != nil {
			return nil, nil, err
		}
		for _, e := range ents {
			n := e.Name()
			if strings.HasSuffix(n, ".go") && !strings.HasSuffix(n, "_test.go") && !strings.Contains(n, "_verif") {
				names = append(names, n)
			}
		}
	}
	sort.Strings(names)
	var files []*ast.File
	for _, n := range names {
		f, err := parser.ParseFile(fset, filepath.Join(dir, n), nil, parser.SkipObjectResolution)
		if err != nil {
			return nil, nil, err
		}
		files = append(files, f)
	}
	return fset, files, nil
}

// ---------------------------------------------------------------------------
// sync skeletons

type kind int

const (
	kNone kind = iota
	kMutex
	kChan
	kWG
	kOnce
	kAtomic
	kCancel
)

type syncGen struct {
	fset   *token.FileSet
	fields map[string]kind // struct field name -> kind (package wide, by name)
	funcs  map[string]bool // package level function and method names
	locals map[string]kind // per function
}

func typeKind(e ast.Expr) kind {
	s := exprStr(e)
	switch {
	case s == "sync.Mutex" || s == "sync.RWMutex" || s == "*sync.Mutex" || s == "*sync.RWMutex":
		return kMutex
	case strings.HasPrefix(s, "chan ") || strings.HasPrefix(s, "<-chan ") || strings.HasPrefix(s, "chan<- "):
		return kChan
	case s == "sync.WaitGroup" || s == "*sync.WaitGroup":
		return kWG
	case s == "sync.Once" || s == "*sync.Once":
		return kOnce
	case strings.HasPrefix(s, "atomic."):
		return kAtomic
	case s == "context.CancelFunc":
		return kCancel
	}
	return kNone
}

func exprStr(e ast.Expr) string {
	var b bytes.Buffer
	_ = printer.Fprint(&b, token.NewFileSet(), e)
	return strings.Join(strings.Fields(b.String()), " ")
}

func coqStr(s string) string {
	return `"` + strings.ReplaceAll(s, `"`, `""`) + `"`
}

func (g *syncGen) kindOf(e ast.Expr) kind {
	switch x := e.(type) {
	case *ast.Ident:
		if k, ok := g.locals[x.Name]; ok {
			return k
		}
		if k, ok := g.fields[x.Name]; ok {
			return k
		}
	case *ast.SelectorExpr:
		if k, ok := g.fields[x.Sel.Name]; ok {
			return k
		}
	case *ast.ParenExpr:
		return g.kindOf(x.X)
	case *ast.UnaryExpr:
		return g.kindOf(x.X)
	case *ast.StarExpr:
		return g.kindOf(x.X)
	}
	return kNone
}

func genSync(repo string, p pkgSpec) (string, error) {
	fset, files, err := parseFiles(repo, p)
	if err != nil {
		return "", err
	}
	g := &syncGen{fset: fset, fields: map[string]kind{}, funcs: map[string]bool{}}
	// also scan the whole package for field kinds and function names
	_, all, err := parseFiles(repo, pkgSpec{p.name, p.dir, nil})
	if err != nil {
		return "", err
	}
	for _, f := range all {
		for _, d := range f.Decls {
			switch dd := d.(type) {
			case *ast.GenDecl:
				for _, s := range dd.Specs {
					ts, ok := s.(*ast.TypeSpec)
					if !ok {
						continue
					}
					st, ok := ts.Type.(*ast.StructType)
					if !ok {
						continue
					}
					for _, fl := range st.Fields.List {
						k := typeKind(fl.Type)
						if k == kNone {
							continue
						}
						for _, n := range fl.Names {
							g.fields[n.Name] = k
						}
					}
				}
			case *ast.FuncDecl:
				g.funcs[dd.Name.Name] = true
			}
		}
	}
	var b strings.Builder
	b.WriteString("(* GENERATED by harness/cmd/astgen from /repo/" + p.dir + " -- do not edit *)\n")
	b.WriteString("From Lib Require Import SyncSkel.\nOpen Scope string_scope.\n\n")
	var names []string
	for _, f := range files {
		for _, d := range f.Decls {
			fd, ok := d.(*ast.FuncDecl)
			if !ok || fd.Body == nil {
				continue
			}
			name := fd.Name.Name
			if fd.Recv != nil && len(fd.Recv.List) == 1 {
				t := exprStr(fd.Recv.List[0].Type)
				t = strings.TrimPrefix(t, "*")
				if i := strings.Index(t, "["); i >= 0 {
					t = t[:i]
				}
				name = t + "_" + name
			}
			g.locals = map[string]kind{}
			if fd.Type.Params != nil {
				for _, fl := range fd.Type.Params.List {
					k := typeKind(fl.Type)
					for _, n := range fl.Names {
						if k != kNone {
							g.locals[n.Name] = k
						}
					}
				}
			}
			ops := g.block(fd.Body.List)
			cname := p.name + "_" + name
			names = append(names, cname+"|"+strings.Replace(name, "_", ".", 1))
			b.WriteString("Definition " + cname + " : skel :=\n  " + fmtOps(ops, 1) + ".\n\n")
		}
	}
	b.WriteString("Definition " + p.name + "_funcs : list (string * skel) :=\n  [")
	for i, n := range names {
		parts := strings.SplitN(n, "|", 2)
		if i > 0 {
			b.WriteString(";\n   ")
		}
		b.WriteString("(" + coqStr(parts[1]) + ", " + parts[0] + ")")
	}
	b.WriteString("].\n")
	return b.String(), nil
}

type op struct {
	ctor string   // constructor name
	args []string // string args (already coq-quoted) or bool
	subs [][]op   // nested lists: for If: t,e ; Select/Switch: cases
	many bool     // subs is a list of lists (Select/Switch)
}

func fmtOps(ops []op, depth int) string {
	if len(ops) == 0 {
		return "[]"
	}
	ind := strings.Repeat("  ", depth)
	var parts []string
	for _, o := range ops {
		parts = append(parts, fmtOp(o, depth+1))
	}
	return "[" + strings.Join(parts, ";\n"+ind+" ") + "]"
}

func fmtOp(o op, depth int) string {
	s := o.ctor
	for _, a := range o.args {
		s += " " + a
	}
	if o.many {
		ind := strings.Repeat("  ", depth)
		var cs []string
		for _, c := range o.subs {
			cs = append(cs, fmtOps(c, depth+1))
		}
		s += " [" + strings.Join(cs, ";\n"+ind+" ") + "]"
	} else {
		for _, sub := range o.subs {
			s += " " + fmtOps(sub, depth+1)
		}
	}
	if len(o.args) > 0 || len(o.subs) > 0 || o.many {
		return "(" + s + ")"
	}
	return s
}

func (g *syncGen) block(stmts []ast.Stmt) []op {
	var out []op
	for _, s := range stmts {
		out = append(out, g.stmt(s)...)
	}
	return out
}

// exprOps collects, in source order, the synchronisation operations buried in an
// expression: receives, calls to package functions, mutex/wg/atomic/once methods,
// close(), cancel funcs and function literals.
func (g *syncGen) exprOps(e ast.Node) []op {
	if e == nil {
		return nil
	}
	var out []op
	ast.Inspect(e, func(n ast.Node) bool {
		switch x := n.(type) {
		case *ast.FuncLit:
			body := g.block(x.Body.List)
			if len(body) > 0 && !onlyReturns(body) {
				out = append(out, op{ctor: "SFunc", subs: [][]op{body}})
			}
			return false
		case *ast.UnaryExpr:
			if x.Op == token.ARROW {
				out = append(out, g.exprOps(x.X)...)
				out = append(out, op{ctor: "SRecv", args: []string{coqStr(exprStr(x.X))}})
				return false
			}
		case *ast.CallExpr:
			// arguments first (evaluation order), then the call
			for _, a := range x.Args {
				out = append(out, g.exprOps(a)...)
			}
			out = append(out, g.call(x)...)
			// receiver expression may itself contain calls
			if se, ok := x.Fun.(*ast.SelectorExpr); ok {
				out = append(g.exprOps(se.X), out...)
			}
			return false
		}
		return true
	})
	return out
}

func onlyReturns(ops []op) bool {
	for _, o := range ops {
		if o.ctor != "SReturn" {
			return false
		}
	}
	return true
}

func (g *syncGen) call(c *ast.CallExpr) []op {
	switch f := c.Fun.(type) {
	case *ast.Ident:
		if f.Name == "close" && len(c.Args) == 1 {
			return []op{{ctor: "SClose", args: []string{coqStr(exprStr(c.Args[0]))}}}
		}
		if g.kindOf(f) == kCancel {
			return []op{{ctor: "SCancel", args: []string{coqStr(f.Name)}}}
		}
		switch f.Name {
		case "len", "cap", "append", "make", "new", "delete", "copy", "panic", "print", "println", "min", "max":
			return nil
		}
		if g.funcs[f.Name] {
			return []op{{ctor: "SCall", args: []string{coqStr(f.Name)}}}
		}
	case *ast.SelectorExpr:
		recv := exprStr(f.X)
		k := g.kindOf(f.X)
		switch {
		case k == kMutex && (f.Sel.Name == "Lock" || f.Sel.Name == "RLock"):
			return []op{{ctor: "SLock", args: []string{coqStr(recv)}}}
		case k == kMutex && (f.Sel.Name == "Unlock" || f.Sel.Name == "RUnlock"):
			return []op{{ctor: "SUnlock", args: []string{coqStr(recv)}}}
		case k == kWG && f.Sel.Name == "Add":
			return []op{{ctor: "SWgAdd", args: []string{coqStr(recv)}}}
		case k == kWG && f.Sel.Name == "Done":
			return []op{{ctor: "SWgDone", args: []string{coqStr(recv)}}}
		case k == kWG && f.Sel.Name == "Wait":
			return []op{{ctor: "SWgWait", args: []string{coqStr(recv)}}}
		case k == kOnce && f.Sel.Name == "Do":
			var body []op
			if len(c.Args) == 1 {
				if fl, ok := c.Args[0].(*ast.FuncLit); ok {
					body = g.block(fl.Body.List)
				} else {
					body = []op{{ctor: "SCall", args: []string{coqStr(lastName(c.Args[0]))}}}
				}
			}
			return []op{{ctor: "SOnce", args: []string{coqStr(recv)}, subs: [][]op{body}}}
		case k == kAtomic:
			return []op{{ctor: "SAtomic", args: []string{coqStr(f.Sel.Name), coqStr(recv)}}}
		}
		if g.kindOf(f) == kCancel {
			return []op{{ctor: "SCancel", args: []string{coqStr(exprStr(f))}}}
		}
		// method of this package called on some receiver
		if g.funcs[f.Sel.Name] {
			return []op{{ctor: "SCall", args: []string{coqStr(f.Sel.Name)}}}
		}
	}
	return nil
}

func lastName(e ast.Expr) string {
	switch x := e.(type) {
	case *ast.Ident:
		return x.Name
	case *ast.SelectorExpr:
		return x.Sel.Name
	}
	return exprStr(e)
}

func (g *syncGen) noteLocals(s *ast.AssignStmt) {
	if s.Tok != token.DEFINE && s.Tok != token.ASSIGN {
		return
	}
	for i, l := range s.Lhs {
		id, ok := l.(*ast.Ident)
		if !ok || i >= len(s.Rhs) && len(s.Rhs) != 1 {
			continue
		}
		var r ast.Expr
		if len(s.Rhs) == len(s.Lhs) {
			r = s.Rhs[i]
		} else {
			r = s.Rhs[0]
		}
		if c, ok := r.(*ast.CallExpr); ok {
			if fn, ok := c.Fun.(*ast.Ident); ok && fn.Name == "make" && len(c.Args) > 0 {
				if k := typeKind(c.Args[0]); k != kNone {
					g.locals[id.Name] = k
				}
			}
			// ctx, cancel := context.WithCancel/WithTimeout(...)
			if se, ok := c.Fun.(*ast.SelectorExpr); ok && exprStr(se.X) == "context" && strings.HasPrefix(se.Sel.Name, "With") && i == 1 {
				g.locals[id.Name] = kCancel
			}
		}
		// alias of a field: x := s.field
		if k := g.kindOf(r); k != kNone {
			if _, isCall := r.(*ast.CallExpr); !isCall {
				g.locals[id.Name] = k
			}
		}
	}
}

func (g *syncGen) stmt(s ast.Stmt) []op {
	switch x := s.(type) {
	case nil:
		return nil
	case *ast.BlockStmt:
		return g.block(x.List)
	case *ast.ExprStmt:
		return g.exprOps(x.X)
	case *ast.SendStmt:
		out := g.exprOps(x.Value)
		return append(out, op{ctor: "SSend", args: []string{coqStr(exprStr(x.Chan))}})
	case *ast.AssignStmt:
		g.noteLocals(x)
		var out []op
		for _, r := range x.Rhs {
			out = append(out, g.exprOps(r)...)
		}
		return out
	case *ast.DeclStmt:
		if gd, ok := x.Decl.(*ast.GenDecl); ok {
			var out []op
			for _, sp := range gd.Specs {
				if vs, ok := sp.(*ast.ValueSpec); ok {
					if vs.Type != nil {
						if k := typeKind(vs.Type); k != kNone {
							for _, n := range vs.Names {
								g.locals[n.Name] = k
							}
						}
					}
					for _, v := range vs.Values {
						out = append(out, g.exprOps(v)...)
					}
				}
			}
			return out
		}
		return nil
	case *ast.IncDecStmt, *ast.EmptyStmt:
		return nil
	case *ast.LabeledStmt:
		return g.stmt(x.Stmt)
	case *ast.ReturnStmt:
		var out []op
		for _, r := range x.Results {
			out = append(out, g.exprOps(r)...)
		}
		return append(out, op{ctor: "SReturn"})
	case *ast.BranchStmt:
		switch x.Tok {
		case token.BREAK:
			return []op{{ctor: "SBreak"}}
		case token.CONTINUE:
			return []op{{ctor: "SContinue"}}
		}
		return nil
	case *ast.DeferStmt:
		ops := g.call(x.Call)
		if len(ops) == 1 && ops[0].ctor == "SUnlock" {
			return []op{{ctor: "SDeferUnlock", args: ops[0].args}}
		}
		if fl, ok := x.Call.Fun.(*ast.FuncLit); ok {
			body := g.block(fl.Body.List)
			if len(body) == 0 {
				return nil
			}
			return []op{{ctor: "SDefer", subs: [][]op{body}}}
		}
		if len(ops) == 0 {
			return nil
		}
		return []op{{ctor: "SDefer", subs: [][]op{ops}}}
	case *ast.GoStmt:
		if fl, ok := x.Call.Fun.(*ast.FuncLit); ok {
			saved := g.locals
			g.locals = copyLocals(saved)
			body := g.block(fl.Body.List)
			g.locals = saved
			return []op{{ctor: "SGo", subs: [][]op{body}}}
		}
		var pre []op
		for _, a := range x.Call.Args {
			pre = append(pre, g.exprOps(a)...)
		}
		body := g.call(x.Call)
		return append(pre, op{ctor: "SGo", subs: [][]op{body}})
	case *ast.IfStmt:
		var out []op
		out = append(out, g.stmt(x.Init)...)
		out = append(out, g.exprOps(x.Cond)...)
		t := g.block(x.Body.List)
		var e []op
		if x.Else != nil {
			e = g.stmt(x.Else)
		}
		if len(t) == 0 && len(e) == 0 {
			return out
		}
		return append(out, op{ctor: "SIf", args: []string{coqStr(exprStr(x.Cond))}, subs: [][]op{t, e}})
	case *ast.ForStmt:
		var out []op
		out = append(out, g.stmt(x.Init)...)
		var body []op
		body = append(body, g.exprOps(x.Cond)...)
		body = append(body, g.block(x.Body.List)...)
		body = append(body, g.stmt(x.Post)...)
		if len(body) == 0 {
			return out
		}
		return append(out, op{ctor: "SFor", subs: [][]op{body}})
	case *ast.RangeStmt:
		out := g.exprOps(x.X)
		var body []op
		if g.kindOf(x.X) == kChan {
			body = append(body, op{ctor: "SRecv", args: []string{coqStr(exprStr(x.X))}})
		}
		body = append(body, g.block(x.Body.List)...)
		if len(body) == 0 {
			return out
		}
		return append(out, op{ctor: "SFor", subs: [][]op{body}})
	case *ast.SwitchStmt:
		var out []op
		out = append(out, g.stmt(x.Init)...)
		out = append(out, g.exprOps(x.Tag)...)
		return append(out, g.switchBody(x.Body)...)
	case *ast.TypeSwitchStmt:
		var out []op
		out = append(out, g.stmt(x.Init)...)
		return append(out, g.switchBody(x.Body)...)
	case *ast.SelectStmt:
		hasDefault := false
		var cases [][]op
		for _, c := range x.Body.List {
			cc := c.(*ast.CommClause)
			var ops []op
			if cc.Comm == nil {
				hasDefault = true
				ops = g.block(cc.Body)
				cases = append(cases, ops)
				continue
			}
			ops = append(ops, g.stmt(cc.Comm)...)
			ops = append(ops, g.block(cc.Body)...)
			cases = append(cases, ops)
		}
		hd := "false"
		if hasDefault {
			hd = "true"
		}
		return []op{{ctor: "SSelect", args: []string{hd}, subs: cases, many: true}}
	}
	return nil
}

func copyLocals(m map[string]kind) map[string]kind {
	n := make(map[string]kind, len(m))
	for k, v := range m {
		n[k] = v
	}
	return n
}

func (g *syncGen) switchBody(b *ast.BlockStmt) []op {
	var cases [][]op
	any := false
	for _, c := range b.List {
		cc := c.(*ast.CaseClause)
		var ops []op
		for _, e := range cc.List {
			ops = append(ops, g.exprOps(e)...)
		}
		ops = append(ops, g.block(cc.Body)...)
		if len(ops) > 0 {
			any = true
		}
		cases = append(cases, ops)
	}
	if !any {
		return nil
	}
	return []op{{ctor: "SSwitch", subs: cases, many: true}}
}

// ---------------------------------------------------------------------------
// constants

func genConsts(repo string) (string, error) {
	var b strings.Builder
	b.WriteString("(* GENERATED by harness/cmd/astgen from /repo -- do not edit *)\n")
	b.WriteString("From Coq Require Import ZArith String.\nOpen Scope Z_scope.\nOpen Scope string_scope.\n\n")
	for _, p := range constPkgs {
		_, files, err := parseFiles(repo, p)
		if err != nil {
			return "", err
		}
		env := map[string]constant.Value{}
		type cdef struct {
			name string
			val  constant.Value
		}
		var defs []cdef
		for _, f := range files {
			for _, d := range f.Decls {
				gd, ok := d.(*ast.GenDecl)
				if !ok || (gd.Tok != token.CONST && gd.Tok != token.VAR) {
					continue
				}
				var lastVals []ast.Expr
				for iota, sp := range gd.Specs {
					vs := sp.(*ast.ValueSpec)
					vals := vs.Values
					if len(vals) == 0 && gd.Tok == token.CONST {
						vals = lastVals
					} else {
						lastVals = vals
					}
					for i, n := range vs.Names {
						if i >= len(vals) {
							continue
						}
						v := evalConst(vals[i], env, int64(iota))
						if v == nil || v.Kind() == constant.Unknown {
							continue
						}
						if gd.Tok == token.CONST {
							env[n.Name] = v
						}
						defs = append(defs, cdef{n.Name, v})
					}
				}
			}
		}
		sort.Slice(defs, func(i, j int) bool { return defs[i].name < defs[j].name })
		for _, d := range defs {
			if d.name == "_" {
				continue
			}
			switch d.val.Kind() {
			case constant.Int:
				b.WriteString(fmt.Sprintf("Definition %s_%s : Z := %s.\n", p.name, d.name, zlit(d.val.ExactString())))
			case constant.String:
				b.WriteString(fmt.Sprintf("Definition %s_%s : string := %s.\n", p.name, d.name, coqStr(constant.StringVal(d.val))))
			case constant.Bool:
				b.WriteString(fmt.Sprintf("Definition %s_%s : bool := %v.\n", p.name, d.name, constant.BoolVal(d.val)))
			}
		}
		b.WriteString("\n")
	}
	// third-party caps named by C10 (cbor-gen) — read from the module cache version
	// pinned in go.mod
	caps, err := cborGenCaps(repo)
	if err != nil {
		return "", err
	}
	b.WriteString(caps)
	return b.String(), nil
}

func zlit(s string) string {
	if strings.HasPrefix(s, "-") {
		return "(" + s + ")"
	}
	return s
}

func evalConst(e ast.Expr, env map[string]constant.Value, iota int64) constant.Value {
	switch x := e.(type) {
	case *ast.BasicLit:
		return constant.MakeFromLiteral(x.Value, x.Kind, 0)
	case *ast.Ident:
		if x.Name == "iota" {
			return constant.MakeInt64(iota)
		}
		if x.Name == "true" {
			return constant.MakeBool(true)
		}
		if x.Name == "false" {
			return constant.MakeBool(false)
		}
		if v, ok := env[x.Name]; ok {
			return v
		}
	case *ast.ParenExpr:
		return evalConst(x.X, env, iota)
	case *ast.BinaryExpr:
		l := evalConst(x.X, env, iota)
		r := evalConst(x.Y, env, iota)
		if l == nil || r == nil {
			return nil
		}
		defer func() { _ = recover() }()
		if x.Op == token.SHL || x.Op == token.SHR {
			n, ok := constant.Uint64Val(r)
			if !ok {
				return nil
			}
			return constant.Shift(l, x.Op, uint(n))
		}
		if l.Kind() != r.Kind() {
			return nil
		}
		if x.Op == token.QUO && l.Kind() == constant.Int {
			return constant.BinaryOp(l, token.QUO_ASSIGN, r)
		}
		return constant.BinaryOp(l, x.Op, r)
	case *ast.CallExpr:
		// conversions such as multicodec.Code(0x0900), uint64(3)
		if len(x.Args) == 1 {
			return evalConst(x.Args[0], env, iota)
		}
	case *ast.UnaryExpr:
		v := evalConst(x.X, env, iota)
		if v == nil {
			return nil
		}
		defer func() { _ = recover() }()
		return constant.UnaryOp(x.Op, v, 0)
	}
	return nil
}

func cborGenCaps(repo string) (string, error) {
	gomod, err := os.ReadFile(filepath.Join(repo, "go.mod"))
	if err != nil {
		return "", err
	}
	ver := ""
	for _, l := range strings.Split(string(gomod), "\n") {
		f := strings.Fields(l)
		if len(f) >= 2 && f[0] == "github.com/whyrusleeping/cbor-gen" {
			ver = f[1]
		}
	}
	if ver == "" {
		return "", fmt.Errorf("cbor-gen version not found in go.mod")
	}
	gopath := os.Getenv("GOMODCACHE")
	if gopath == "" {
		home := os.Getenv("GOPATH")
		if home == "" {
			home = filepath.Join(os.Getenv("HOME"), "go")
		}
		gopath = filepath.Join(home, "pkg", "mod")
	}
	dir := filepath.Join(gopath, "github.com", "whyrusleeping", "cbor-gen@"+ver)
	fset := token.NewFileSet()
	env := map[string]constant.Value{}
	var b strings.Builder
	b.WriteString("(* cbor-gen " + ver + " *)\n")
	var decls []ast.Decl
	for _, fn := range []string{"gen.go", "utils.go"} {
		f, err := parser.ParseFile(fset, filepath.Join(dir, fn), nil, parser.SkipObjectResolution)
		if err != nil {
			return "", err
		}
		decls = append(decls, f.Decls...)
	}
	for _, d := range decls {
		gd, ok := d.(*ast.GenDecl)
		if !ok {
			continue
		}
		for _, sp := range gd.Specs {
			vs, ok := sp.(*ast.ValueSpec)
			if !ok {
				continue
			}
			for i, n := range vs.Names {
				if i >= len(vs.Values) {
					continue
				}
				if n.Name != "MaxLength" && n.Name != "ByteArrayMaxLen" {
					continue
				}
				v := evalConst(vs.Values[i], env, 0)
				if v != nil && v.Kind() == constant.Int {
					b.WriteString(fmt.Sprintf("Definition cborgen_%s : Z := %s.\n", n.Name, v.ExactString()))
				}
			}
		}
	}
	b.WriteString("Definition cborgen_version : string := " + coqStr(ver) + ".\n")
	return b.String(), nil
}

// ---------------------------------------------------------------------------
// map write sites

func genWrites(repo, name, dir, file string) (string, error) {
	fset := token.NewFileSet()
	f, err := parser.ParseFile(fset, filepath.Join(repo, dir, file), nil, parser.SkipObjectResolution)
	if err != nil {
		return "", err
	}
	var b strings.Builder
	b.WriteString("(* GENERATED by harness/cmd/astgen from /repo/" + dir + "/" + file + " -- do not edit *)\n")
	b.WriteString("From Coq Require Import List String Bool.\nImport ListNotations.\nOpen Scope string_scope.\n\n")
	b.WriteString("(* one record per map write (m[k] = v) or delete(m, k):\n   function, kind, target expression, root identifier of the target,\n   whether that root is a local variable bound in the same function to a fresh\n   make(map...) (or a parameter documented as private), and whether an atomic\n   Store of that root occurs textually before the write in the function *)\n")
	b.WriteString("Record wsite := { w_func : string; w_kind : string; w_target : string; w_root : string; w_fresh_local : bool; w_after_publish : bool; w_line : nat }.\n\n")
	b.WriteString("Definition " + name + "_writes : list wsite :=\n  [")
	first := true
	for _, d := range f.Decls {
		fd, ok := d.(*ast.FuncDecl)
		if !ok || fd.Body == nil {
			continue
		}
		fname := fd.Name.Name
		fresh := map[string]bool{}
		published := map[string]token.Pos{}
		// pass 1: locals bound to make(map...) ; positions of x.Store(&readOnly{m: root}) / Store(root)
		ast.Inspect(fd.Body, func(n ast.Node) bool {
			switch x := n.(type) {
			case *ast.AssignStmt:
				if x.Tok == token.DEFINE || x.Tok == token.ASSIGN {
					for i, l := range x.Lhs {
						id, ok := l.(*ast.Ident)
						if !ok || i >= len(x.Rhs) {
							continue
						}
						if c, ok := x.Rhs[i].(*ast.CallExpr); ok {
							if fn, ok := c.Fun.(*ast.Ident); ok && fn.Name == "make" && len(c.Args) > 0 {
								_, isMap := c.Args[0].(*ast.MapType)
								at, isArr := c.Args[0].(*ast.ArrayType)
								if (isMap || (isArr && at.Len == nil)) && x.Tok == token.DEFINE {
									fresh[id.Name] = true
								}
							}
						}
					}
				}
			case *ast.CallExpr:
				if se, ok := x.Fun.(*ast.SelectorExpr); ok && (se.Sel.Name == "Store" || se.Sel.Name == "Swap" || se.Sel.Name == "CompareAndSwap") {
					for _, a := range x.Args {
						for _, name := range publishedRoots(a) {
							if _, seen := published[name]; !seen {
								published[name] = x.Pos()
							}
						}
					}
				}
			}
			return true
		})
		emit := func(kind string, target ast.Expr, pos token.Pos) {
			root := rootIdent(target)
			after := false
			if p, ok := published[root]; ok && p < pos {
				after = true
			}
			if !first {
				b.WriteString(";\n   ")
			}
			first = false
			b.WriteString(fmt.Sprintf("{| w_func := %s; w_kind := %s; w_target := %s; w_root := %s; w_fresh_local := %v; w_after_publish := %v; w_line := %d |}",
				coqStr(fname), coqStr(kind), coqStr(exprStr(target)), coqStr(root), fresh[root], after, fset.Position(pos).Line))
		}
		ast.Inspect(fd.Body, func(n ast.Node) bool {
			switch x := n.(type) {
			case *ast.AssignStmt:
				for _, l := range x.Lhs {
					if ix, ok := l.(*ast.IndexExpr); ok {
						emit("assign", ix.X, x.Pos())
					}
				}
			case *ast.CallExpr:
				if fn, ok := x.Fun.(*ast.Ident); ok && fn.Name == "delete" && len(x.Args) == 2 {
					emit("delete", x.Args[0], x.Pos())
				}
			case *ast.IncDecStmt:
				if ix, ok := x.X.(*ast.IndexExpr); ok {
					emit("assign", ix.X, x.Pos())
				}
			}
			return true
		})
	}
	b.WriteString("].\n")
	_ = strconv.Itoa
	return b.String(), nil
}

// publishedRoots lists the values an atomic Store/Swap/CompareAndSwap argument makes
// reachable: identifiers and selector expressions (rendered like rootIdent does),
// looking through &T{k: v} literals at the VALUES only.
func publishedRoots(e ast.Expr) []string {
	var out []string
	var walk func(n ast.Expr)
	walk = func(n ast.Expr) {
		switch x := n.(type) {
		case nil:
		case *ast.Ident:
			out = append(out, x.Name)
		case *ast.SelectorExpr:
			out = append(out, exprStr(x))
		case *ast.UnaryExpr:
			walk(x.X)
		case *ast.StarExpr:
			walk(x.X)
		case *ast.ParenExpr:
			walk(x.X)
		case *ast.CompositeLit:
			for _, el := range x.Elts {
				walk(el)
			}
		case *ast.KeyValueExpr:
			walk(x.Value)
		case *ast.CallExpr:
			for _, a := range x.Args {
				walk(a)
			}
		case *ast.IndexExpr:
			walk(x.X)
		}
	}
	walk(e)
	return out
}

func rootIdent(e ast.Expr) string {
	switch x := e.(type) {
	case *ast.Ident:
		return x.Name
	case *ast.SelectorExpr:
		return exprStr(x)
	case *ast.ParenExpr:
		return rootIdent(x.X)
	case *ast.IndexExpr:
		return rootIdent(x.X)
	case *ast.StarExpr:
		return rootIdent(x.X)
	}
	return exprStr(e)
}

// ---------------------------------------------------------------------------
// field writes through selector chains (x.f1...fn = v, op-assign, ++/--)

func selectorChain(e ast.Expr) (root string, depth int, ok bool) {
	for {
		switch x := e.(type) {
		case *ast.ParenExpr:
			e = x.X
		case *ast.StarExpr:
			e = x.X
		case *ast.IndexExpr:
			e = x.X
		case *ast.SelectorExpr:
			depth++
			e = x.X
		case *ast.Ident:
			return x.Name, depth, depth >= 1
		default:
			return "", 0, false
		}
	}
}

func genFieldWrites(repo, name, dir, file string) (string, error) {
	fset := token.NewFileSet()
	f, err := parser.ParseFile(fset, filepath.Join(repo, dir, file), nil, parser.SkipObjectResolution)
	if err != nil {
		return "", err
	}
	var b strings.Builder
	b.WriteString("(* GENERATED by harness/cmd/astgen from /repo/" + dir + "/" + file + " -- do not edit *)\n")
	b.WriteString("From Coq Require Import List String Bool.\nImport ListNotations.\nOpen Scope string_scope.\n\n")
	b.WriteString("(* one record per assignment (=, op=, ++, --) whose left-hand side, after stripping\n   parentheses, stars and index expressions, is a selector chain x.f1...fn (n >= 1):\n   function, LHS text, leftmost identifier, number of selectors, whether that identifier is\n   bound in the same function by x := &T{..} / T{..} / new(T) / make(..), line *)\n")
	b.WriteString("Record fsite := { f_func : string; f_lhs : string; f_root : string; f_depth : nat; f_root_fresh : bool; f_line : nat }.\n\n")
	b.WriteString("Definition " + name + "_field_writes : list fsite :=\n  [")
	first := true
	for _, d := range f.Decls {
		fd, ok := d.(*ast.FuncDecl)
		if !ok || fd.Body == nil {
			continue
		}
		fresh := map[string]bool{}
		ast.Inspect(fd.Body, func(n ast.Node) bool {
			as, ok := n.(*ast.AssignStmt)
			if !ok || as.Tok != token.DEFINE {
				return true
			}
			for i, l := range as.Lhs {
				id, ok := l.(*ast.Ident)
				if !ok || i >= len(as.Rhs) || len(as.Lhs) != len(as.Rhs) {
					continue
				}
				switch r := as.Rhs[i].(type) {
				case *ast.CompositeLit:
					fresh[id.Name] = true
				case *ast.UnaryExpr:
					if _, ok := r.X.(*ast.CompositeLit); ok && r.Op == token.AND {
						fresh[id.Name] = true
					}
				case *ast.CallExpr:
					if fn, ok := r.Fun.(*ast.Ident); ok && (fn.Name == "new" || fn.Name == "make") {
						fresh[id.Name] = true
					}
				}
			}
			return true
		})
		emit := func(lhs ast.Expr, pos token.Pos) {
			root, depth, ok := selectorChain(lhs)
			if !ok {
				return
			}
			if !first {
				b.WriteString(";\n   ")
			}
			first = false
			b.WriteString(fmt.Sprintf("{| f_func := %s; f_lhs := %s; f_root := %s; f_depth := %d; f_root_fresh := %v; f_line := %d |}",
				coqStr(fd.Name.Name), coqStr(exprStr(lhs)), coqStr(root), depth, fresh[root], fset.Position(pos).Line))
		}
		ast.Inspect(fd.Body, func(n ast.Node) bool {
			switch x := n.(type) {
			case *ast.AssignStmt:
				if x.Tok == token.DEFINE {
					return true
				}
				for _, l := range x.Lhs {
					emit(l, x.Pos())
				}
			case *ast.IncDecStmt:
				emit(x.X, x.Pos())
			}
			return true
		})
	}
	b.WriteString("].\n")
	return b.String(), nil
}

// ---------------------------------------------------------------------------
// pure integer functions translated expression by expression to Gallina over Z
// (Go int arithmetic without overflow: the translation is exact as long as no
// intermediate value leaves the machine range; `/` and `%` truncate toward zero
// = Z.quot / Z.rem).  Only functions whose body is `return <expr>` (optionally
// preceded by `if <cond> { return <expr> }` statements) over their int parameters
// are accepted; anything else is reported as untranslatable.

var pureFuncs = []struct{ pkg, dir, file, fn string }{
	{"pcache", "pcache", "provider_cache.go", "needMerge"},
}

func gallinaExpr(e ast.Expr, boolCtx bool) (string, bool, error) {
	// returns (text, isBool)
	switch x := e.(type) {
	case *ast.ParenExpr:
		t, b, err := gallinaExpr(x.X, boolCtx)
		return "(" + t + ")", b, err
	case *ast.BasicLit:
		if x.Kind == token.INT {
			v := constant.MakeFromLiteral(x.Value, x.Kind, 0)
			return v.ExactString(), false, nil
		}
	case *ast.Ident:
		switch x.Name {
		case "true", "false":
			return x.Name, true, nil
		}
		return x.Name, false, nil
	case *ast.UnaryExpr:
		t, b, err := gallinaExpr(x.X, boolCtx)
		if err != nil {
			return "", false, err
		}
		switch x.Op {
		case token.NOT:
			return "(negb " + t + ")", true, nil
		case token.SUB:
			return "(- " + t + ")", false, nil
		}
		_ = b
	case *ast.BinaryExpr:
		l, _, err := gallinaExpr(x.X, boolCtx)
		if err != nil {
			return "", false, err
		}
		r, _, err := gallinaExpr(x.Y, boolCtx)
		if err != nil {
			return "", false, err
		}
		switch x.Op {
		case token.ADD:
			return "(" + l + " + " + r + ")", false, nil
		case token.SUB:
			return "(" + l + " - " + r + ")", false, nil
		case token.MUL:
			return "(" + l + " * " + r + ")", false, nil
		case token.QUO:
			return "(Z.quot " + l + " " + r + ")", false, nil
		case token.REM:
			return "(Z.rem " + l + " " + r + ")", false, nil
		case token.LSS:
			return "(" + l + " <? " + r + ")", true, nil
		case token.LEQ:
			return "(" + l + " <=? " + r + ")", true, nil
		case token.GTR:
			return "(" + r + " <? " + l + ")", true, nil
		case token.GEQ:
			return "(" + r + " <=? " + l + ")", true, nil
		case token.EQL:
			return "(" + l + " =? " + r + ")", true, nil
		case token.NEQ:
			return "(negb (" + l + " =? " + r + "))", true, nil
		case token.LAND:
			return "(" + l + " && " + r + ")", true, nil
		case token.LOR:
			return "(" + l + " || " + r + ")", true, nil
		}
	}
	return "", false, fmt.Errorf("untranslatable expression %s", exprStr(e))
}

func genPureFuncs(repo string) (string, error) {
	var b strings.Builder
	b.WriteString("(* GENERATED by harness/cmd/astgen from /repo -- do not edit *)\n")
	b.WriteString("(* Pure integer functions of the source translated expression by expression (no overflow:\n   exact while every intermediate value stays in the machine range). *)\n")
	b.WriteString("From Coq Require Import ZArith Bool.\nOpen Scope Z_scope.\n\n")
	for _, pf := range pureFuncs {
		fset := token.NewFileSet()
		f, err := parser.ParseFile(fset, filepath.Join(repo, pf.dir, pf.file), nil, parser.SkipObjectResolution)
		if err != nil {
			return "", err
		}
		found := false
		for _, d := range f.Decls {
			fd, ok := d.(*ast.FuncDecl)
			if !ok || fd.Name.Name != pf.fn || fd.Recv != nil || fd.Body == nil {
				continue
			}
			found = true
			var params []string
			for _, fl := range fd.Type.Params.List {
				for _, n := range fl.Names {
					params = append(params, "("+n.Name+" : Z)")
				}
			}
			// body: (if cond { return e })* return e
			var conds, rets []string
			isBool := false
			okBody := true
			for i, st := range fd.Body.List {
				switch x := st.(type) {
				case *ast.IfStmt:
					if x.Init != nil || x.Else != nil || len(x.Body.List) != 1 {
						okBody = false
						break
					}
					r, ok := x.Body.List[0].(*ast.ReturnStmt)
					if !ok || len(r.Results) != 1 {
						okBody = false
						break
					}
					c, _, err := gallinaExpr(x.Cond, true)
					if err != nil {
						return "", err
					}
					e, bb, err := gallinaExpr(r.Results[0], false)
					if err != nil {
						return "", err
					}
					isBool = bb
					conds = append(conds, c)
					rets = append(rets, e)
				case *ast.ReturnStmt:
					if len(x.Results) != 1 || i != len(fd.Body.List)-1 {
						okBody = false
						break
					}
					e, bb, err := gallinaExpr(x.Results[0], false)
					if err != nil {
						return "", err
					}
					isBool = bb
					rets = append(rets, e)
				default:
					okBody = false
				}
			}
			if !okBody || len(rets) != len(conds)+1 {
				return "", fmt.Errorf("function %s.%s is no longer of the translatable shape", pf.pkg, pf.fn)
			}
			body := rets[len(rets)-1]
			for i := len(conds) - 1; i >= 0; i-- {
				body = "if " + conds[i] + " then " + rets[i] + " else " + body
			}
			ty := "Z"
			if isBool {
				ty = "bool"
			}
			b.WriteString(fmt.Sprintf("(* %s/%s: func %s *)\nDefinition %s_%s %s : %s :=\n  %s.\n\n",
				pf.dir, pf.file, pf.fn, pf.pkg, pf.fn, strings.Join(params, " "), ty, body))
		}
		if !found {
			return "", fmt.Errorf("function %s.%s not found", pf.pkg, pf.fn)
		}
	}
	return b.String(), nil
}
