// Go -> Gallina function translator: translator state, scopes, parameters, Go types.
package main

import (
	"fmt"
	"go/ast"
	"go/constant"
	"sort"
	"strings"
)

// extSpec says how a call to a function that is not translated is rendered: as an
// application of a function PARAMETER of the generated definition.
type extSpec struct {
	res   []string // result types: Z bool bytes err list:bytes T:<go type text>
	drop  []int    // argument positions that are not passed (scratch buffers, contexts)
	state string   // a Go variable the call writes to: passed first, returned first
	args  []string // optional expected types of the passed arguments
}

type fspec struct {
	dir, file string // repo relative directory, file
	fn        string // "Name" or "Recv.Name"
	name      string // Coq name suffix; default: fn with '.' -> '_' (+ "_" + frag)
	mode      string // func | frag
	// frag selection
	from, to  string             // prefixes of the (whitespace-normalised) source text of the first / last statement taken, searched at any depth; to=="" means just `from`
	outs      []string           // variables whose values are the result of the fragment
	slice     bool               // keep only the statements that assign an out variable (program slice)
	logStmts  bool               // simple statements outside the subset are recorded by their source text in the trace variable tr
	atoms     bool               // sub-expressions outside the subset become parameters (named by their source text)
	hints     map[string]string  // source text or identifier -> type
	ext       map[string]extSpec // callee text -> rendering
	writer    string             // name of an io.Writer parameter modelled as an infallible byte buffer
	prop      string             // property the tie belongs to (documentation only)
	auto      bool               // attempted automatically (every function of an anchor file)
	lit       string             // translate the function literal (inside fn) whose first statement starts with this text
	once      []string           // opaque expressions evaluated exactly once on every path, before anything they mention is assigned (checked by the table author, stated in a note)
	fieldVars bool               // selector texts that have a type in hints are variables of the fragment (fields of opaque values that the fragment assigns)
	fieldObs  bool               // methods of opaque values held in struct fields are observers (phase-2 entries; older entries keep them as a_ parameters)
	nilEmpty  bool               // `x == nil` on a slice is read as `len(x) == 0` (stated in a note)
}

type param struct {
	name string
	ty   string
	doc  string
	kind int // 0 type, 1 function (extern / observer / operation of an opaque type), 2 value
}

type vinfo struct {
	coq     string
	ty      *gty
	builder bool // bytes.Buffer / strings.Builder / writer: mutated through methods
	ptr     bool // declared with a pointer type
}

type loopCtx struct {
	label     string
	contCode  func() (string, error)
	breakCode func() (string, error)
}

type cont func() (string, error)

type xl struct {
	p    *pkgInfo
	file *ast.File
	spec *fspec
	fd   *ast.FuncDecl

	scopes []map[string]*vinfo
	params []*param
	pidx   map[string]*param
	live   map[string]int // Coq names in use (to pick fresh ones)

	checks      []string
	guards      []string // conditions under which the expression being translated is evaluated (for hoisted checks)
	mayPanic    bool
	wrapPanic   bool
	resTys      []*gty
	named       []string
	frag        bool
	outs        []string
	notes       []string
	localDefs   map[string]string
	defOrder    []string
	counter     int
	loops       []*loopCtx
	inGoLoop    bool
	region      map[string]bool    // variables assigned anywhere in the translated region
	pre         map[string]*preVar // parameters of the Go function and locals declared before a fragment
	paramGoIdx  map[string]int     // Coq parameter -> position of the declared Go parameter
	fragLoc     *located
	mutFields   []string
	zeroStructs map[string]bool // structs declared by `var` inside a recording fragment
	loopDefs    []string
	coqName     string
	panicSites  int
	outTys      map[string]*gty
	preConst    map[string]string // local integer constants declared before a fragment
	captures    bool              // function literal: free variables are captured variables of the enclosing function
	mutTys      []*gty
	switchDepth int
}

type xlErr struct{ msg string }

func (e *xlErr) Error() string { return e.msg }

func errf(format string, a ...any) error { return &xlErr{fmt.Sprintf(format, a...)} }

func (x *xl) push() { x.scopes = append(x.scopes, map[string]*vinfo{}) }
func (x *xl) pop() {
	top := x.scopes[len(x.scopes)-1]
	for _, v := range top {
		x.live[v.coq]--
	}
	x.scopes = x.scopes[:len(x.scopes)-1]
}

func (x *xl) lookup(name string) *vinfo {
	for i := len(x.scopes) - 1; i >= 0; i-- {
		if v, ok := x.scopes[i][name]; ok {
			return v
		}
	}
	return nil
}

func sanitize(s string) string {
	var b strings.Builder
	last := byte('_')
	for i := 0; i < len(s); i++ {
		c := s[i]
		ok := c >= 'a' && c <= 'z' || c >= 'A' && c <= 'Z' || c >= '0' && c <= '9'
		if ok {
			b.WriteByte(c)
			last = c
		} else if last != '_' {
			b.WriteByte('_')
			last = '_'
		}
	}
	r := strings.Trim(b.String(), "_")
	if len(r) > 48 {
		r = r[:48]
	}
	if r == "" {
		r = "x"
	}
	return r
}

var coqReserved = map[string]bool{"fix": true, "fun": true, "let": true, "in": true, "if": true, "then": true, "else": true,
	"match": true, "with": true, "end": true, "as": true, "at": true, "forall": true, "exists": true, "Type": true, "Set": true, "Prop": true,
	"return": true, "using": true, "where": true, "for": true, "mod": true, "len": true, "index": true, "slice": true, "tr": true,
	"cofix": true, "struct": true, "nil": true, "cons": true, "length": true, "app": true, "map": true, "option": true, "list": true, "bool": true, "N": true, "Z": true, "nat": true, "string": true}

func (x *xl) fresh(base string) string {
	b := sanitize(base)
	if coqReserved[b] {
		b = b + "_"
	}
	if x.live[b] == 0 && x.pidx[b] == nil {
		return b
	}
	for i := 2; ; i++ {
		c := fmt.Sprintf("%s_%d", b, i)
		if x.live[c] == 0 && x.pidx[c] == nil {
			return c
		}
	}
}

// declare a Go variable in the innermost scope
func (x *xl) declare(name string, ty *gty) *vinfo {
	top := x.scopes[len(x.scopes)-1]
	if v, ok := top[name]; ok {
		v.ty = ty
		return v
	}
	v := &vinfo{coq: x.fresh(name), ty: ty}
	x.live[v.coq]++
	top[name] = v
	return v
}

func (x *xl) addParam(name, ty, doc string, kind int) *param {
	if p, ok := x.pidx[name]; ok {
		return p
	}
	p := &param{name: name, ty: ty, doc: doc, kind: kind}
	x.params = append(x.params, p)
	x.pidx[name] = p
	return p
}

// an opaque Go type becomes a Type parameter
func (x *xl) opaque(goType string) *gty {
	n := "T_" + sanitize(goType)
	x.addParam(n, "Type", "Go type "+goType, 0)
	return tOpaque(n)
}

func (x *xl) note(format string, a ...any) {
	s := fmt.Sprintf(format, a...)
	for _, n := range x.notes {
		if n == s {
			return
		}
	}
	x.notes = append(x.notes, s)
}

func (x *xl) line(n ast.Node) int { return x.p.fset.Position(n.Pos()).Line }

// ---------------------------------------------------------------------------
// Go type expressions

func (x *xl) typeFromName(s string) (*gty, error) {
	switch {
	case s == "Z" || s == "bool" || s == "bytes" || s == "err":
		return map[string]*gty{"Z": tZ, "bool": tBool, "bytes": tBytes, "err": tErr}[s], nil
	case strings.HasPrefix(s, "list:"):
		e, err := x.typeFromName(strings.TrimPrefix(s, "list:"))
		if err != nil {
			return nil, err
		}
		return tList(e), nil
	case strings.HasPrefix(s, "T:"):
		return x.opaque(strings.TrimPrefix(s, "T:")), nil
	case strings.HasPrefix(s, "S:"):
		return tStruct(strings.TrimPrefix(s, "S:")), nil
	case strings.HasPrefix(s, "tuple:"):
		var ts []*gty
		for _, part := range strings.Split(strings.TrimPrefix(s, "tuple:"), ",") {
			t, err := x.typeFromName(part)
			if err != nil {
				return nil, err
			}
			ts = append(ts, t)
		}
		return tTuple(ts), nil
	}
	return nil, errf("unknown type name %q in the translation table", s)
}

func (x *xl) goType(e ast.Expr) (*gty, error) {
	switch t := e.(type) {
	case *ast.Ident:
		switch t.Name {
		case "int", "int8", "int16", "int32", "int64", "uint", "uint8", "uint16", "uint32", "uint64", "uintptr", "byte", "rune":
			return tZ, nil
		case "bool":
			return tBool, nil
		case "string":
			return tBytes, nil
		case "error":
			return tErr, nil
		case "any":
			return x.opaque("any"), nil
		}
		if _, ok := x.p.structs[t.Name]; ok {
			return tStruct(t.Name), nil
		}
		if u, ok := x.p.named[t.Name]; ok {
			if _, isFunc := u.(*ast.FuncType); isFunc {
				return x.opaque(t.Name), nil
			}
			return x.goType(u)
		}
		if _, ok := x.p.ifaces[t.Name]; ok {
			return x.opaque(t.Name), nil
		}
		return nil, errf("unknown type %s", t.Name)
	case *ast.StarExpr:
		in, err := x.goType(t.X)
		if err != nil {
			return nil, err
		}
		if in.k == "struct" || in.k == "opaque" {
			return in, nil // pointers to structs are transparent; nil-ness is a separate flag / operation
		}
		return &gty{k: "ptr", elem: in}, nil
	case *ast.ParenExpr:
		return x.goType(t.X)
	case *ast.ArrayType:
		el, err := x.goType(t.Elt)
		if err != nil {
			return nil, err
		}
		if id, ok := t.Elt.(*ast.Ident); ok && (id.Name == "byte" || id.Name == "uint8") {
			return tBytes, nil
		}
		return tList(el), nil
	case *ast.Ellipsis:
		el, err := x.goType(t.Elt)
		if err != nil {
			return nil, err
		}
		return tList(el), nil
	case *ast.SelectorExpr:
		s := exprStr(t)
		if namedZ[s] {
			return tZ, nil
		}
		if namedBytes[s] {
			return tBytes, nil
		}
		if s == "bytes.Buffer" || s == "strings.Builder" {
			return tBytes, nil
		}
		return x.opaque(s), nil
	case *ast.IndexExpr: // generic instantiation
		return x.opaque(exprStr(t)), nil
	case *ast.MapType, *ast.FuncType, *ast.ChanType, *ast.InterfaceType, *ast.StructType:
		return x.opaque(exprStr(e)), nil
	}
	return nil, errf("type %s is outside the subset", exprStr(e))
}

func isBuilderType(e ast.Expr) bool {
	s := exprStr(e)
	return s == "bytes.Buffer" || s == "strings.Builder" || s == "*bytes.Buffer" || s == "*strings.Builder"
}

func (x *xl) structField(sname, field string) (*gty, error) {
	st, ok := x.p.structs[sname]
	if !ok {
		return nil, errf("struct %s not found", sname)
	}
	for _, fl := range st.Fields.List {
		if len(fl.Names) == 0 {
			// embedded
			n := exprStr(fl.Type)
			n = strings.TrimPrefix(n, "*")
			if n == field {
				return x.goType(fl.Type)
			}
			if _, ok := x.p.structs[n]; ok {
				if t, err := x.structField(n, field); err == nil {
					return t, nil
				}
			}
			continue
		}
		for _, n := range fl.Names {
			if n.Name == field {
				return x.goType(fl.Type)
			}
		}
	}
	return nil, errf("struct %s has no field %s", sname, field)
}

// constants of the package under translation
func (x *xl) pkgConst(name string) (string, *gty, bool) {
	v, ok := x.p.consts[name]
	if !ok {
		v, ok = x.p.vars[name]
	}
	if !ok {
		return "", nil, false
	}
	var cname string
	if x.p.inGenConsts {
		cname = "Gen_Consts." + x.p.prefix + "_" + name
	} else {
		cname = x.p.prefix + "_c_" + name
		if _, done := x.localDefs[cname]; !done {
			switch v.Kind() {
			case constant.Int:
				x.addDef(cname, fmt.Sprintf("Definition %s : Z := %s.", cname, zlit(v.ExactString())))
			case constant.String:
				x.addDef(cname, fmt.Sprintf("Definition %s : string := %s%%string.", cname, coqStr(constant.StringVal(v))))
			case constant.Bool:
				x.addDef(cname, fmt.Sprintf("Definition %s : bool := %v.", cname, constant.BoolVal(v)))
			}
		}
	}
	switch v.Kind() {
	case constant.Int:
		return cname, tZ, true
	case constant.String:
		return "(bytes_of_string " + cname + ")", tBytes, true
	case constant.Bool:
		return cname, tBool, true
	}
	return "", nil, false
}

func (x *xl) addDef(name, text string) {
	if _, ok := x.localDefs[name]; ok {
		return
	}
	x.localDefs[name] = text
	x.defOrder = append(x.defOrder, name)
}

// constant of another package, read from its pinned source
func (x *xl) extConst(pkgIdent, name string) (string, *gty, bool) {
	path, ok := resolveImport(x.p.repo, x.file, pkgIdent)
	if !ok {
		return "", nil, false
	}
	// go-libipni's own packages
	const self = "github.com/ipni/go-libipni/"
	var v constant.Value
	if strings.HasPrefix(path, self) {
		q, err := loadPkg(x.p.repo, sanitize(strings.TrimPrefix(path, self)), strings.TrimPrefix(path, self))
		if err != nil {
			return "", nil, false
		}
		v, ok = q.consts[name]
		if !ok {
			return "", nil, false
		}
	} else {
		ep, err := loadExtPkg(x.p.repo, path)
		if err != nil {
			return "", nil, false
		}
		v, ok = ep.consts[name]
		if !ok {
			return "", nil, false
		}
	}
	cname := "ext_" + sanitize(pkgIdent) + "_" + name
	switch v.Kind() {
	case constant.Int:
		x.addDef(cname, fmt.Sprintf("Definition %s : Z := %s. (* %s.%s, read from %s *)", cname, zlit(v.ExactString()), pkgIdent, name, path))
		return cname, tZ, true
	case constant.String:
		x.addDef(cname, fmt.Sprintf("Definition %s : string := %s%%string. (* %s.%s, read from %s *)", cname, coqStr(constant.StringVal(v)), pkgIdent, name, path))
		return "(bytes_of_string " + cname + ")", tBytes, true
	case constant.Bool:
		x.addDef(cname, fmt.Sprintf("Definition %s : bool := %v. (* %s.%s *)", cname, constant.BoolVal(v), pkgIdent, name))
		return cname, tBool, true
	}
	return "", nil, false
}

func (x *xl) hint(text string) (*gty, bool) {
	if x.spec.hints == nil {
		return nil, false
	}
	if h, ok := x.spec.hints[text]; ok {
		t, err := x.typeFromName(h)
		if err == nil {
			return t, true
		}
	}
	return nil, false
}

func sortedKeys(m map[string]bool) []string {
	var ks []string
	for k := range m {
		ks = append(ks, k)
	}
	sort.Strings(ks)
	return ks
}

func app(a, b string) string { return "(" + a + " ++ " + b + ")%list" }

// text placed inside a Coq comment: no comment delimiters, no string quotes (Coq lexes strings inside comments)
func cmt(s string) string {
	s = strings.ReplaceAll(s, "*)", "* )")
	s = strings.ReplaceAll(s, "(*", "( *")
	return strings.ReplaceAll(s, "\"", "'")
}

func (x *xl) isOnce(text string) bool {
	for _, o := range x.spec.once {
		if o == text {
			x.note("`%s` is evaluated once on every path, before anything it mentions is assigned", text)
			return true
		}
	}
	return false
}
