// Go -> Gallina function translator: calls.
package main

import (
	"go/ast"
	"go/constant"
	"go/token"
	"strings"
)

var convZ = map[string]bool{"int": true, "int8": true, "int16": true, "int32": true, "int64": true, "uint": true,
	"uint8": true, "uint16": true, "uint32": true, "uint64": true, "uintptr": true, "byte": true, "rune": true}

// calls whose only effect is diagnostic output or a scheduling hook: skipped as statements
func ignorableCall(c *ast.CallExpr) bool {
	f := exprStr(c.Fun)
	if f == "verifYield" {
		return true
	}
	if strings.HasPrefix(f, "log.") {
		switch strings.TrimPrefix(f, "log.") {
		case "Debug", "Debugw", "Debugf", "Info", "Infow", "Infof", "Warn", "Warnw", "Warnf", "Error", "Errorw", "Errorf":
			return true
		}
	}
	return false
}

func stringLit(e ast.Expr) (string, bool) {
	if l, ok := e.(*ast.BasicLit); ok && l.Kind == token.STRING {
		v := constant.MakeFromLiteral(l.Value, l.Kind, 0)
		return constant.StringVal(v), true
	}
	return "", false
}

func (x *xl) resTypeOf(names []string) (*gty, []*gty, error) {
	var ts []*gty
	for _, n := range names {
		t, err := x.typeFromName(n)
		if err != nil {
			return nil, nil, err
		}
		ts = append(ts, t)
	}
	if len(ts) == 0 {
		return tUnit, ts, nil
	}
	if len(ts) == 1 {
		return ts[0], ts, nil
	}
	return tTuple(ts), ts, nil
}

// extCall renders a call as an application of a function parameter.  With a state
// variable the result is (state', results...).
func (x *xl) extCall(c *ast.CallExpr, es extSpec) (string, *gty, error) {
	ftext := exprStr(c.Fun)
	name := "ext_" + sanitize(ftext)
	dropped := map[int]bool{}
	for _, d := range es.drop {
		dropped[d] = true
	}
	var args, tys []string
	if es.state != "" {
		v := x.lookup(es.state)
		if v == nil {
			return "", nil, errf("state variable %s of %s is not in scope", es.state, ftext)
		}
		args = append(args, v.coq)
		tys = append(tys, v.ty.coq())
	}
	k := 0
	for i, a := range c.Args {
		if dropped[i] {
			continue
		}
		var want *gty
		if k < len(es.args) {
			w, err := x.typeFromName(es.args[k])
			if err != nil {
				return "", nil, err
			}
			want = w
		}
		k++
		code, ty, err := x.expr(a, want)
		if err != nil {
			return "", nil, err
		}
		if c.Ellipsis != token.NoPos && i == len(c.Args)-1 {
			// f(xs...) passes the slice itself
		}
		args = append(args, code)
		tys = append(tys, ty.coq())
	}
	rt, rts, err := x.resTypeOf(es.res)
	if err != nil {
		return "", nil, err
	}
	if es.state != "" {
		v := x.lookup(es.state)
		rts = append([]*gty{v.ty}, rts...)
		rt = tTuple(rts)
		if len(rts) == 1 {
			rt = rts[0]
		}
	}
	x.addParam(name, strings.Join(append(tys, rt.coq()), " -> "), "the function "+ftext, 1)
	if len(args) == 0 {
		return name, rt, nil
	}
	return "(" + name + " " + strings.Join(args, " ") + ")", rt, nil
}

func (x *xl) errValue(c *ast.CallExpr) (string, *gty, error) {
	if len(c.Args) >= 1 {
		if s, ok := stringLit(c.Args[0]); ok {
			if len(c.Args) > 1 {
				x.note("fmt.Errorf arguments are dropped: the error is identified by its format string")
			}
			return "(Some " + coqStr(s) + "%string)", tErr, nil
		}
	}
	if exprStr(c.Fun) == "errors.New" && len(c.Args) == 1 {
		a, ty, err := x.expr(c.Args[0], tBytes)
		if err == nil && ty.k == "bytes" {
			return "(Some (string_of_bytes " + a + "))", tErr, nil
		}
	}
	return "", nil, errf("error value `%s` has no literal text", exprStr(c))
}

func (x *xl) call(c *ast.CallExpr, want *gty) (string, *gty, error) {
	ftext := exprStr(c.Fun)
	if _, ok := x.hint(exprStr(c)); ok && x.spec.atoms {
		if _, isExt := x.spec.ext[ftext]; !isExt {
			if a, ty, err := x.atom(c, want); err == nil {
				return a, ty, nil
			}
		}
	}
	if es, ok := x.spec.ext[ftext]; ok {
		if es.state != "" {
			return "", nil, errf("call `%s` writes to %s and must be a statement of its own", exprStr(c), es.state)
		}
		return x.extCall(c, es)
	}
	switch f := c.Fun.(type) {
	case *ast.Ident:
		if v := x.lookup(f.Name); v != nil && v.ty.k == "opaque" {
			rt := want
			if h, ok := x.hint(f.Name + "()"); ok {
				rt = h
			}
			if rt == nil {
				return "", nil, errf("cannot type the call of the function value `%s` (needs a type hint)", exprStr(c))
			}
			args, tys := []string{v.coq}, []string{v.ty.name}
			for _, a := range c.Args {
				code, ty, err := x.expr(a, nil)
				if err != nil {
					return "", nil, err
				}
				args = append(args, code)
				tys = append(tys, ty.coq())
			}
			name := "call_" + strings.TrimPrefix(v.ty.name, "T_")
			x.addParam(name, strings.Join(append(tys, rt.coq()), " -> "), "calling a function value of type "+v.ty.name, 1)
			return "(" + name + " " + strings.Join(args, " ") + ")", rt, nil
		}
		if x.lookup(f.Name) == nil {
			switch f.Name {
			case "len":
				a, ty, err := x.expr(c.Args[0], nil)
				if err != nil {
					return "", nil, err
				}
				if ty.k != "bytes" && ty.k != "list" {
					return "", nil, errf("len of %s is outside the subset (`%s`)", ty.coq(), exprStr(c))
				}
				return "(len " + a + ")", tZ, nil
			case "append":
				a, ty, err := x.expr(c.Args[0], want)
				if err != nil {
					return "", nil, err
				}
				if ty.k != "bytes" && ty.k != "list" {
					return "", nil, errf("append to %s is outside the subset", ty.coq())
				}
				code := a
				for i, arg := range c.Args[1:] {
					if c.Ellipsis != token.NoPos && i == len(c.Args)-2 {
						b, _, err := x.expr(arg, ty)
						if err != nil {
							return "", nil, err
						}
						code = app(code, b)
						continue
					}
					if ty.k == "bytes" {
						b, err := x.exprZ(arg)
						if err != nil {
							return "", nil, err
						}
						code = app(code, "[Z.to_N "+b+"]")
					} else {
						b, _, err := x.expr(arg, ty.elem)
						if err != nil {
							return "", nil, err
						}
						code = app(code, "["+b+"]")
					}
				}
				return code, ty, nil
			case "string":
				a, ty, err := x.expr(c.Args[0], tBytes)
				if err != nil {
					return "", nil, err
				}
				if ty.k != "bytes" {
					return "", nil, errf("conversion `%s` is outside the subset", exprStr(c))
				}
				return a, tBytes, nil
			case "make":
				if len(c.Args) == 3 {
					if lit, ok := c.Args[1].(*ast.BasicLit); ok && lit.Value == "0" {
						// make([]T, 0, n): an empty slice (capacity is not modelled)
						if ty, err := x.goType(c.Args[0]); err == nil && (ty.k == "list" || ty.k == "bytes") {
							z, _ := ty.zero()
							return z, ty, nil
						}
					}
				}
				if len(c.Args) == 2 && exprStr(c.Args[0]) == "[]byte" {
					if lit, ok := c.Args[1].(*ast.BasicLit); ok && lit.Kind == token.INT {
						return "(repeat 0%N " + lit.Value + "%nat)", tBytes, nil
					}
				}
			case "min", "max":
				if len(c.Args) == 2 {
					a, err := x.exprZ(c.Args[0])
					if err != nil {
						return "", nil, err
					}
					b, err := x.exprZ(c.Args[1])
					if err != nil {
						return "", nil, err
					}
					return "(Z." + f.Name + " " + a + " " + b + ")", tZ, nil
				}
			}
			if convZ[f.Name] && len(c.Args) == 1 {
				a, err := x.exprZ(c.Args[0])
				if err != nil {
					return "", nil, err
				}
				return a, tZ, nil
			}
			// conversion to a named type of the package
			if u, ok := x.p.named[f.Name]; ok && len(c.Args) == 1 {
				ty, err := x.goType(u)
				if err == nil && (ty.k == "Z" || ty.k == "bytes" || ty.k == "bool") {
					return x.expr(c.Args[0], ty)
				}
			}
			// function of the same package, already translated
			if em, ok := translatedFns[x.p.dir+":"+f.Name]; ok && em.simple && !em.wrap {
				var args []string
				for _, p := range em.params {
					if p.kind != 2 {
						x.addParam(p.name, p.ty, p.doc, p.kind)
						args = append(args, p.name)
					}
				}
				for _, gi := range em.goIdx {
					a, _, err := x.expr(c.Args[gi], nil)
					if err != nil {
						return "", nil, err
					}
					args = append(args, a)
				}
				var rt *gty
				if len(em.resTys) == 1 {
					rt = em.resTys[0]
				} else {
					rt = tTuple(em.resTys)
				}
				// opaque result types are type parameters of the callee: same names here
				return "(" + em.coq + " " + strings.Join(args, " ") + ")", rt, nil
			}
		}
	case *ast.ArrayType:
		// []byte(x)
		if id, ok := f.Elt.(*ast.Ident); ok && (id.Name == "byte" || id.Name == "uint8") && len(c.Args) == 1 {
			a, ty, err := x.expr(c.Args[0], tBytes)
			if err != nil {
				return "", nil, err
			}
			if ty.k == "bytes" {
				return a, tBytes, nil
			}
		}
	case *ast.SelectorExpr:
		if f.Sel.Name == "Error" && len(c.Args) == 0 {
			if id, ok := f.X.(*ast.Ident); ok {
				if v := x.lookup(id.Name); v != nil && v.ty.k == "err" {
					return "(err_text " + v.coq + ")", tBytes, nil
				}
			}
		}
		switch ftext {
		case "bytes.Equal":
			a, _, err := x.expr(c.Args[0], tBytes)
			if err != nil {
				return "", nil, err
			}
			b, _, err := x.expr(c.Args[1], tBytes)
			if err != nil {
				return "", nil, err
			}
			return "(bytes_eqb " + a + " " + b + ")", tBool, nil
		case "errors.New", "fmt.Errorf":
			return x.errValue(c)
		}
		if (namedZ[ftext] || namedBytes[ftext]) && len(c.Args) == 1 {
			if namedZ[ftext] {
				a, err := x.exprZ(c.Args[0])
				return a, tZ, err
			}
			a, ty, err := x.expr(c.Args[0], tBytes)
			if err != nil {
				return "", nil, err
			}
			if ty.k == "bytes" {
				return a, tBytes, nil
			}
		}
		// methods of a byte buffer held in a variable
		if id, ok := f.X.(*ast.Ident); ok {
			if v := x.lookup(id.Name); v != nil && v.builder {
				switch f.Sel.Name {
				case "Bytes", "String":
					return v.coq, tBytes, nil
				case "Len":
					return "(len " + v.coq + ")", tZ, nil
				}
			}
		}
		{
			// method of an opaque value (a variable, or the result of an observer): an observer
			var recvCode string
			var recvTy *gty
			if id, ok := f.X.(*ast.Ident); ok {
				if v := x.lookup(id.Name); v != nil && v.ty.k == "opaque" {
					recvCode, recvTy = v.coq, v.ty
				}
			} else if se, isSel := f.X.(*ast.SelectorExpr); isSel && x.spec.fieldObs {
				// a field (of a struct of this package) that holds an opaque value
				if _, _, sname, ok := x.structPath(se.X); ok {
					if ft, err := x.structField(sname, se.Sel.Name); err == nil && ft.k == "opaque" {
						c0, t0, err := x.selector(se, nil)
						if err != nil {
							return "", nil, err
						}
						recvCode, recvTy = c0, t0
					}
				}
			} else if _, isCall := f.X.(*ast.CallExpr); isCall {
				if bt := x.tryType(f.X); bt != nil && bt.k == "opaque" {
					c0, t0, err := x.expr(f.X, nil)
					if err != nil {
						return "", nil, err
					}
					recvCode, recvTy = c0, t0
				}
			}
			if recvTy != nil {
				v := &vinfo{coq: recvCode, ty: recvTy}
				rt := want
				if h, ok := x.hint("." + f.Sel.Name + "()"); ok {
					rt = h
				}
				if h, ok := x.hint(exprStr(c)); ok {
					rt = h
				}
				if rt == nil {
					return "", nil, errf("cannot type the method call `%s` (needs a type hint)", exprStr(c))
				}
				var args, tys []string
				args = append(args, v.coq)
				tys = append(tys, v.ty.name)
				for _, a := range c.Args {
					if isNilIdent(a) {
						x.note("nil arguments of observer methods are dropped (`%s`)", exprStr(c))
						continue
					}
					code, ty, err := x.expr(a, nil)
					if err != nil {
						return "", nil, err
					}
					args = append(args, code)
					tys = append(tys, ty.coq())
				}
				name := "obs_" + strings.TrimPrefix(v.ty.name, "T_") + "_" + f.Sel.Name
				x.addParam(name, strings.Join(append(tys, rt.coq()), " -> "), "method "+f.Sel.Name+" of a "+v.ty.name+" (assumed to be a pure observer)", 1)
				return "(" + name + " " + strings.Join(args, " ") + ")", rt, nil
			}
		}
	}
	return x.atom(c, want)
}
