// Go -> Gallina function translator: types and package information.
//
// Everything here is syntactic (go/parser + go/ast + go/constant): types of locals are
// inferred from declarations, from the right-hand sides of := and from the signatures of
// functions of the same package; what cannot be typed is reported, never guessed.
package main

import (
	"fmt"
	"go/ast"
	"go/constant"
	"go/parser"
	"go/token"
	"os"
	"os/exec"
	"path/filepath"
	"sort"
	"strings"
)

// gty is the Gallina-side type of a translated Go value.
type gty struct {
	k    string // Z bool bytes err list tuple struct opaque unit strs
	elem *gty
	tup  []*gty
	name string // struct: Go type name in the package; opaque: Coq type variable
}

var (
	tZ     = &gty{k: "Z"}
	tBool  = &gty{k: "bool"}
	tBytes = &gty{k: "bytes"}
	tErr   = &gty{k: "err"}
	tUnit  = &gty{k: "unit"}
	tStrs  = &gty{k: "strs"}
)

func tList(e *gty) *gty       { return &gty{k: "list", elem: e} }
func tTuple(ts []*gty) *gty   { return &gty{k: "tuple", tup: ts} }
func tOpaque(n string) *gty   { return &gty{k: "opaque", name: n} }
func tStruct(n string) *gty   { return &gty{k: "struct", name: n} }
func (t *gty) isOpaque() bool { return t != nil && t.k == "opaque" }

func (t *gty) eq(u *gty) bool {
	if t == nil || u == nil {
		return t == u
	}
	if t.k != u.k || t.name != u.name || len(t.tup) != len(u.tup) {
		return false
	}
	if (t.elem == nil) != (u.elem == nil) || (t.elem != nil && !t.elem.eq(u.elem)) {
		return false
	}
	for i := range t.tup {
		if !t.tup[i].eq(u.tup[i]) {
			return false
		}
	}
	return true
}

func (t *gty) coq() string {
	switch t.k {
	case "Z":
		return "Z"
	case "bool":
		return "bool"
	case "bytes":
		return "list N"
	case "err":
		return "option string"
	case "unit":
		return "unit"
	case "strs":
		return "list string"
	case "list":
		return "list (" + t.elem.coq() + ")"
	case "tuple":
		var ps []string
		for _, e := range t.tup {
			ps = append(ps, e.coq())
		}
		return "(" + strings.Join(ps, " * ") + ")"
	case "opaque":
		return t.name
	case "ptr":
		return "option (" + t.elem.coq() + ")"
	case "struct":
		return "(* struct " + t.name + " is only read through its fields *) unit"
	}
	return "?"
}

// zero value of the Go type, when it has a Gallina rendering
func (t *gty) zero() (string, bool) {
	switch t.k {
	case "Z":
		return "0", true
	case "bool":
		return "false", true
	case "bytes", "list", "strs":
		return "([] : " + t.coq() + ")", true
	case "err", "ptr":
		return "(None : " + t.coq() + ")", true
	case "unit":
		return "tt", true
	case "tuple":
		var ps []string
		for _, e := range t.tup {
			z, ok := e.zero()
			if !ok {
				return "", false
			}
			ps = append(ps, z)
		}
		return "(" + strings.Join(ps, ", ") + ")", true
	}
	return "", false
}

// named types of other packages with a fixed reading
var namedZ = map[string]bool{
	"multicodec.Code": true, "time.Duration": true, "selector.RecursionLimit_Mode": true,
}
var namedBytes = map[string]bool{
	"peer.ID": true, "multihash.Multihash": true, "json.RawMessage": true,
}

// ---------------------------------------------------------------------------

type pkgInfo struct {
	prefix      string
	dir         string // relative to repo
	repo        string
	fset        *token.FileSet
	files       map[string]*ast.File
	order       []string
	structs     map[string]*ast.StructType
	named       map[string]ast.Expr
	ifaces      map[string]*ast.InterfaceType
	consts      map[string]constant.Value // package-level constants
	vars        map[string]constant.Value // package-level vars with a literal value (as Gen_Consts lists them)
	funcs       map[string]*ast.FuncDecl  // "Name" or "Recv.Name"
	funcFile    map[string]*ast.File
	inGenConsts bool
}

var pkgCache = map[string]*pkgInfo{}

func inConstPkgs(dir string) (string, bool) {
	for _, p := range constPkgs {
		if p.dir == dir {
			return p.name, true
		}
	}
	return "", false
}

func loadPkg(repo, prefix, dir string) (*pkgInfo, error) {
	key := repo + "|" + dir
	if p, ok := pkgCache[key]; ok {
		return p, nil
	}
	fset, files, err := parseFiles(repo, pkgSpec{prefix, dir, nil})
	if err != nil {
		return nil, err
	}
	p := &pkgInfo{prefix: prefix, dir: dir, repo: repo, fset: fset, files: map[string]*ast.File{},
		structs: map[string]*ast.StructType{}, named: map[string]ast.Expr{}, ifaces: map[string]*ast.InterfaceType{},
		consts: map[string]constant.Value{}, vars: map[string]constant.Value{}, funcs: map[string]*ast.FuncDecl{}, funcFile: map[string]*ast.File{}}
	if n, ok := inConstPkgs(dir); ok {
		p.inGenConsts = true
		p.prefix = n
	}
	for _, f := range files {
		name := filepath.Base(fset.Position(f.Pos()).Filename)
		p.files[name] = f
		p.order = append(p.order, name)
		for _, d := range f.Decls {
			switch dd := d.(type) {
			case *ast.FuncDecl:
				p.funcs[funcKey(dd)] = dd
				p.funcFile[funcKey(dd)] = f
			case *ast.GenDecl:
				switch dd.Tok {
				case token.TYPE:
					for _, s := range dd.Specs {
						ts := s.(*ast.TypeSpec)
						switch tt := ts.Type.(type) {
						case *ast.StructType:
							p.structs[ts.Name.Name] = tt
						case *ast.InterfaceType:
							p.ifaces[ts.Name.Name] = tt
						default:
							p.named[ts.Name.Name] = ts.Type
						}
					}
				case token.CONST, token.VAR:
					var lastVals []ast.Expr
					for iota, sp := range dd.Specs {
						vs := sp.(*ast.ValueSpec)
						vals := vs.Values
						if len(vals) == 0 && dd.Tok == token.CONST {
							vals = lastVals
						} else {
							lastVals = vals
						}
						for i, n := range vs.Names {
							if i >= len(vals) {
								continue
							}
							v := evalConst(vals[i], p.consts, int64(iota))
							if v == nil || v.Kind() == constant.Unknown {
								continue
							}
							if dd.Tok == token.CONST {
								p.consts[n.Name] = v
							} else if _, isLit := vals[i].(*ast.BasicLit); isLit {
								p.vars[n.Name] = v
							} else if c, ok := vals[i].(*ast.CallExpr); ok && len(c.Args) == 1 {
								// var x = []byte("...") and the like: what genConsts also emits
								p.vars[n.Name] = v
							}
						}
					}
				}
			}
		}
	}
	pkgCache[key] = p
	return p, nil
}

func funcKey(fd *ast.FuncDecl) string {
	if fd.Recv != nil && len(fd.Recv.List) == 1 {
		t := exprStr(fd.Recv.List[0].Type)
		t = strings.TrimPrefix(t, "*")
		if i := strings.Index(t, "["); i >= 0 {
			t = t[:i]
		}
		return t + "." + fd.Name.Name
	}
	return fd.Name.Name
}

// imports of a file: local name -> import path (the default name is resolved lazily)
func fileImports(f *ast.File) map[string]string {
	m := map[string]string{}
	for _, im := range f.Imports {
		path := strings.Trim(im.Path.Value, `"`)
		if im.Name != nil {
			if im.Name.Name != "_" && im.Name.Name != "." {
				m[im.Name.Name] = path
			}
			continue
		}
		m["?"+path] = path
	}
	return m
}

// ---------------------------------------------------------------------------
// constants of other packages, read from the pinned module source / GOROOT

type extPkg struct {
	name   string
	consts map[string]constant.Value
}

var extPkgCache = map[string]*extPkg{}

func goroot() string {
	if g := os.Getenv("GOROOT"); g != "" {
		return g
	}
	// the toolchain that built astgen
	cands := []string{}
	if mc := modCache(); mc != "" {
		ents, _ := filepath.Glob(filepath.Join(mc, "golang.org", "toolchain@*"))
		sort.Strings(ents)
		for i := len(ents) - 1; i >= 0; i-- {
			cands = append(cands, ents[i])
		}
	}
	if out, err := exec.Command("go", "env", "GOROOT").Output(); err == nil {
		cands = append(cands, strings.TrimSpace(string(out)))
	}
	cands = append(cands, "/usr/local/go", "/usr/lib/go")
	for _, c := range cands {
		if st, err := os.Stat(filepath.Join(c, "src", "net", "http")); err == nil && st.IsDir() {
			return c
		}
	}
	return ""
}

func modCache() string {
	if g := os.Getenv("GOMODCACHE"); g != "" {
		return g
	}
	home := os.Getenv("GOPATH")
	if home == "" {
		home = filepath.Join(os.Getenv("HOME"), "go")
	}
	return filepath.Join(home, "pkg", "mod")
}

func modEscape(p string) string {
	var b strings.Builder
	for _, r := range p {
		if r >= 'A' && r <= 'Z' {
			b.WriteByte('!')
			b.WriteRune(r + 32)
		} else {
			b.WriteRune(r)
		}
	}
	return b.String()
}

func extPkgDir(repo, importPath string) (string, error) {
	if !strings.Contains(strings.SplitN(importPath, "/", 2)[0], ".") {
		g := goroot()
		if g == "" {
			return "", fmt.Errorf("GOROOT not found")
		}
		return filepath.Join(g, "src", importPath), nil
	}
	gomod, err := os.ReadFile(filepath.Join(repo, "go.mod"))
	if err != nil {
		return "", err
	}
	best, bestVer := "", ""
	for _, l := range strings.Split(string(gomod), "\n") {
		f := strings.Fields(l)
		if len(f) >= 2 && f[0] == "require" {
			f = f[1:]
		}
		if len(f) >= 2 && strings.HasPrefix(f[1], "v") && (importPath == f[0] || strings.HasPrefix(importPath, f[0]+"/")) && len(f[0]) > len(best) {
			best, bestVer = f[0], f[1]
		}
	}
	if best == "" {
		return "", fmt.Errorf("module of %s not found in go.mod", importPath)
	}
	return filepath.Join(modCache(), modEscape(best)+"@"+bestVer, strings.TrimPrefix(strings.TrimPrefix(importPath, best), "/")), nil
}

func loadExtPkg(repo, importPath string) (*extPkg, error) {
	if p, ok := extPkgCache[importPath]; ok {
		return p, nil
	}
	dir, err := extPkgDir(repo, importPath)
	if err != nil {
		return nil, err
	}
	ents, err := os.ReadDir(dir)
	if err != nil {
		return nil, err
	}
	ep := &extPkg{consts: map[string]constant.Value{}}
	fset := token.NewFileSet()
	var names []string
	for _, e := range ents {
		n := e.Name()
		if strings.HasSuffix(n, ".go") && !strings.HasSuffix(n, "_test.go") {
			names = append(names, n)
		}
	}
	sort.Strings(names)
	type pending struct {
		name string
		val  ast.Expr
		iota int64
	}
	var todo []pending
	for _, n := range names {
		f, err := parser.ParseFile(fset, filepath.Join(dir, n), nil, parser.SkipObjectResolution)
		if err != nil {
			continue // files for other platforms may use newer syntax; constants come from the rest
		}
		if ep.name == "" {
			ep.name = f.Name.Name
		}
		for _, d := range f.Decls {
			gd, ok := d.(*ast.GenDecl)
			if !ok || gd.Tok != token.CONST {
				continue
			}
			var lastVals []ast.Expr
			for iota, sp := range gd.Specs {
				vs := sp.(*ast.ValueSpec)
				vals := vs.Values
				if len(vals) == 0 {
					vals = lastVals
				} else {
					lastVals = vals
				}
				for i, nm := range vs.Names {
					if i < len(vals) {
						todo = append(todo, pending{nm.Name, vals[i], int64(iota)})
					}
				}
			}
		}
	}
	// constants may refer to constants declared later or in another file: iterate
	for round := 0; round < 4; round++ {
		for _, t := range todo {
			if _, done := ep.consts[t.name]; done {
				continue
			}
			v := evalConst(t.val, ep.consts, t.iota)
			if v != nil && v.Kind() != constant.Unknown {
				ep.consts[t.name] = v
			}
		}
	}
	extPkgCache[importPath] = ep
	return ep, nil
}

// resolveImport finds the import path a selector's package identifier denotes in file f.
func resolveImport(repo string, f *ast.File, ident string) (string, bool) {
	im := fileImports(f)
	if p, ok := im[ident]; ok {
		return p, true
	}
	for k, p := range im {
		if !strings.HasPrefix(k, "?") {
			continue
		}
		last := p[strings.LastIndex(p, "/")+1:]
		if last == ident || strings.TrimPrefix(last, "go-") == ident {
			return p, true
		}
		// versioned path .../v2
		if len(last) >= 2 && last[0] == 'v' && last[1] >= '0' && last[1] <= '9' {
			q := strings.TrimSuffix(p, "/"+last)
			l2 := q[strings.LastIndex(q, "/")+1:]
			if l2 == ident || strings.TrimPrefix(l2, "go-") == ident {
				return p, true
			}
		}
	}
	// last resort: the declared package name
	for k, p := range im {
		if !strings.HasPrefix(k, "?") {
			continue
		}
		if ep, err := loadExtPkg(repo, p); err == nil && ep.name == ident {
			return p, true
		}
	}
	return "", false
}
