package main

// The real thing behind "so a sync client contacts exactly the endpoint a publisher
// advertised": a real ipnisync publisher handler mounted under an arbitrary base path on
// loopback servers that log every request, the publisher advertised as
// maurl.FromURL(baseURL), and a real ipnisync client (NewSync / NewSyncer / GetHead / Sync)
// pointed at that multiaddr.

import (
	"bytes"
	"context"
	"fmt"
	"net"
	"net/http"
	"net/http/httptest"
	"net/url"
	"path"
	"strconv"
	"strings"
	"sync"
	"time"

	"github.com/ipfs/go-cid"
	"github.com/ipld/go-ipld-prime"
	cidlink "github.com/ipld/go-ipld-prime/linking/cid"
	"github.com/ipld/go-ipld-prime/node/basicnode"
	"github.com/ipld/go-ipld-prime/storage/memstore"
	selectorparse "github.com/ipld/go-ipld-prime/traversal/selector/parse"
	"github.com/ipni/go-libipni/dagsync/ipnisync"
	"github.com/ipni/go-libipni/ingest/schema"
	"github.com/ipni/go-libipni/maurl"
	ic "github.com/libp2p/go-libp2p/core/crypto"
	"github.com/libp2p/go-libp2p/core/peer"
	"github.com/multiformats/go-multiaddr"

	"verif/harness/vlib"
)

type reqLog struct {
	Host, Path, RawPath, RequestURI string
}

type syncWorld struct {
	key     ic.PrivKey
	pid     peer.ID
	pubLsys ipld.LinkSystem
	root    cid.Cid
	servers map[string]*httptest.Server // hkind -> server
	hosts   map[string]string           // hkind -> host text (no brackets)
	ports   map[string]int

	mu    sync.Mutex
	log   []reqLog
	pub   *ipnisync.Publisher
	route func(*http.Request) *ipnisync.Publisher // when set, picks the publisher by request
}

func (w *syncWorld) ServeHTTP(rw http.ResponseWriter, r *http.Request) {
	w.mu.Lock()
	w.log = append(w.log, reqLog{r.Host, r.URL.Path, r.URL.RawPath, r.RequestURI})
	pub := w.pub
	if w.route != nil {
		pub = w.route(r)
	}
	w.mu.Unlock()
	if strings.Contains(r.URL.Path, "/.well-known/") {
		http.NotFound(rw, r) // not a libp2phttp server: the client falls back to plain HTTP
		return
	}
	if pub == nil {
		http.NotFound(rw, r)
		return
	}
	pub.ServeHTTP(rw, r)
}

func newSyncWorld() *syncWorld {
	w := &syncWorld{servers: map[string]*httptest.Server{}, hosts: map[string]string{}, ports: map[string]int{}}
	var err error
	w.key, _, err = ic.GenerateEd25519Key(bytes.NewReader(bytes.Repeat([]byte{7}, 64)))
	if err != nil {
		panic(err)
	}
	w.pid, _ = peer.IDFromPrivateKey(w.key)
	w.pubLsys = cidlink.DefaultLinkSystem()
	st := &memstore.Store{}
	w.pubLsys.SetReadStorage(st)
	w.pubLsys.SetWriteStorage(st)
	lnk, err := w.pubLsys.Store(ipld.LinkContext{}, schema.Linkproto, basicnode.NewString("c20 root block"))
	if err != nil {
		panic(err)
	}
	w.root = lnk.(cidlink.Link).Cid
	for kind, addr := range map[string]string{"ip4": "127.0.0.1:0", "ip6": "[::1]:0"} {
		l, err := net.Listen("tcp", addr)
		if err != nil {
			continue // no such loopback here
		}
		ts := httptest.NewUnstartedServer(w)
		ts.Listener.Close()
		ts.Listener = l
		ts.Start()
		ta := l.Addr().(*net.TCPAddr)
		w.servers[kind], w.hosts[kind], w.ports[kind] = ts, ta.IP.String(), ta.Port
	}
	if len(w.servers) == 0 {
		panic("harness: no loopback listener")
	}
	return w
}

func (w *syncWorld) close() {
	for _, s := range w.servers {
		s.Close()
	}
}

type syncObs struct {
	fromErr, syncerErr, headErr, syncErr error
	head                                 cid.Cid
	reqs                                 []reqLog
	ma                                   multiaddr.Multiaddr
	panicked                             string
}

// runSync advertises u and lets a real client fetch the head and the root block.  The
// publisher's handler is mounted under the base path the way the publisher itself does it
// (path.Join, i.e. cleaned): its prefix check works on the cleaned path.
func (w *syncWorld) runSync(u *url.URL, handlerPath string) (o syncObs) {
	defer func() {
		if r := recover(); r != nil {
			o.panicked = fmt.Sprint(r)
		}
	}()
	pub, err := ipnisync.NewPublisher(w.pubLsys, w.key, ipnisync.WithHTTPListenAddrs(u.Host), ipnisync.WithHandlerPath(strings.TrimLeft(path.Clean("/"+handlerPath), "/")), ipnisync.WithStartServer(false))
	if err != nil {
		panic("harness: NewPublisher: " + err.Error())
	}
	pub.SetRoot(w.root)
	w.mu.Lock()
	w.pub, w.log = pub, nil
	w.mu.Unlock()
	o.ma, o.fromErr = maurl.FromURL(u)
	if o.fromErr != nil {
		return
	}
	clientLsys := cidlink.DefaultLinkSystem()
	cst := &memstore.Store{}
	clientLsys.SetReadStorage(cst)
	clientLsys.SetWriteStorage(cst)
	snc := ipnisync.NewSync(clientLsys, nil, ipnisync.ClientHTTPTimeout(10*time.Second))
	defer snc.Close()
	syncer, err := snc.NewSyncer(peer.AddrInfo{ID: w.pid, Addrs: []multiaddr.Multiaddr{o.ma}})
	if err != nil {
		o.syncerErr = err
		return
	}
	ctx, cancel := context.WithTimeout(context.Background(), 20*time.Second)
	defer cancel()
	o.head, o.headErr = syncer.GetHead(ctx)
	if o.headErr == nil {
		o.syncErr = syncer.Sync(ctx, o.head, selectorparse.CommonSelector_MatchPoint)
	}
	w.mu.Lock()
	o.reqs = append([]reqLog{}, w.log...)
	w.mu.Unlock()
	return
}

// removeDotSegments: RFC 3986 5.2.4 on a rooted path; empty segments are KEPT
func removeDotSegments(p string) string {
	segs := strings.Split(p, "/")
	var out []string
	for i, s := range segs {
		switch s {
		case ".":
			if i == len(segs)-1 {
				out = append(out, "")
			}
		case "..":
			if len(out) > 1 {
				out = out[:len(out)-1]
			}
			if i == len(segs)-1 {
				out = append(out, "")
			}
		default:
			out = append(out, s)
		}
	}
	return strings.Join(out, "/")
}

// expectedPath: the advertised base path followed by /ipni/v1/ad/<resource>
func expectedPath(base, rsrc string) string {
	return strings.TrimRight(base, "/") + ipnisync.IPNIPath + "/" + rsrc
}

func collapseSlashes(p string) string {
	for strings.Contains(p, "//") {
		p = strings.ReplaceAll(p, "//", "/")
	}
	return p
}

// syncOracle: "" or (class, message).  rawKnown = the advertised URL text has a shape covered by
// the known finding on RawPath (escaped slash in a segment): only decoded paths are compared.
func (w *syncWorld) syncOracle(u *url.URL, o syncObs, rawKnown bool) (string, string) {
	if o.panicked != "" {
		return "panic", "panicked: " + o.panicked
	}
	if o.fromErr != nil {
		return "from-err", "FromURL: " + o.fromErr.Error()
	}
	if o.syncerErr != nil {
		return "syncer-err", "NewSyncer: " + o.syncerErr.Error()
	}
	nIPNI := 0
	for _, r := range o.reqs {
		if strings.Contains(r.Path, "/.well-known/") {
			continue // libp2phttp discovery probe, answered 404
		}
		nIPNI++
		if r.Host != u.Host {
			return "host", fmt.Sprintf("request Host %q, advertised %q", r.Host, u.Host)
		}
		rsrc := path.Base(r.Path)
		want := expectedPath(u.Path, rsrc)
		if removeDotSegments(r.Path) != removeDotSegments(want) {
			if collapseSlashes(removeDotSegments(r.Path)) == collapseSlashes(removeDotSegments(want)) {
				return "repeated-slashes-collapsed", fmt.Sprintf("advertised base path %q: the client requested %q, the advertised endpoint is %q", u.Path, r.Path, want)
			}
			return "path", fmt.Sprintf("advertised base path %q: the client requested %q, the advertised endpoint is %q", u.Path, r.Path, want)
		}
		if !rawKnown && r.Path == want {
			if wantURI := (&url.URL{Path: want}).EscapedPath(); r.RequestURI != wantURI {
				return "request-uri", fmt.Sprintf("request line %q, expected %q", r.RequestURI, wantURI)
			}
		}
	}
	if o.headErr != nil {
		return "head-err", "GetHead: " + o.headErr.Error()
	}
	if o.head != w.root {
		return "head", "GetHead returned another CID"
	}
	if o.syncErr != nil {
		return "sync-err", "Sync: " + o.syncErr.Error()
	}
	if nIPNI < 2 {
		return "requests", fmt.Sprintf("%d IPNI requests seen, expected head and block", nIPNI)
	}
	return "", ""
}

func (w *syncWorld) buildURL(hkind string, base []byte) *url.URL {
	host := w.hosts[hkind]
	if hkind == "ip6" {
		host = "[" + host + "]"
	}
	raw := "http://" + host + ":" + strconv.Itoa(w.ports[hkind]) + (&url.URL{Path: string(base)}).EscapedPath()
	u, err := url.Parse(raw)
	if err != nil || u.Path != string(base) {
		panic(fmt.Sprintf("harness: %q does not parse to path %q: %v", raw, base, err))
	}
	return u
}

func doSync(c *vlib.Ctx, w *syncWorld, hkind string, base []byte, verbose bool) {
	if _, ok := w.servers[hkind]; !ok {
		c.Count("sync:skipped-no-" + hkind)
		return
	}
	u := w.buildURL(hkind, base)
	o := w.runSync(u, string(base))
	c.Eval()
	c.Count("sync:" + hkind)
	rp := replay{Kind: "sync", HKind: hkind, Path: hx(base), Port: -1}
	if verbose {
		fmt.Printf("sync %s base=%q ma=%v head=%v/%v sync=%v\n", u.Host, base, o.ma, o.head, o.headErr, o.syncErr)
		for _, r := range o.reqs {
			fmt.Printf("  request Host=%q Path=%q RawPath=%q RequestURI=%q\n", r.Host, r.Path, r.RawPath, r.RequestURI)
		}
	}
	uc := urlCase{Scheme: "http", HKind: hkind, Host: w.hosts[hkind], Port: w.ports[hkind], Path: base}
	for _, r := range o.reqs {
		if strings.Contains(r.Path, "/.well-known/") {
			c.Count("sync:well-known-probe")
			continue
		}
		c.Count("sync:request")
		c.Case("sync", fmt.Sprintf("(%s, %s, %s, %s)", uc.coq(), vlib.CoqBytes([]byte(path.Base(r.Path))), vlib.CoqBytes([]byte(r.Host)), vlib.CoqBytes([]byte(r.Path))), rp)
	}
	if len(base) > 1 {
		c.Nontrivial("sync:" + hkind + hx(base))
	}
	sample(c, "sync", bytes.IndexByte(base, ' ') >= 0 && len(o.reqs) > 0, map[string]string{"host": u.Host, "base": string(base)}, fmt.Sprint(o.reqs))
	if cls, msg := w.syncOracle(u, o, false); cls != "" {
		if cls == "repeated-slashes-collapsed" {
			c.Fail("sync:request-path:repeated-slashes-collapsed", msg+" (url.URL.JoinPath cleans the path: repeated slashes of an advertised base path are not preserved)",
				replay{Kind: "sync", HKind: "ip4", Path: hx([]byte("//a")), Port: -1})
		} else {
			min := shrinkBytes(base, func(b []byte) bool {
				if len(b) > 0 && b[0] != '/' {
					return false
				}
				u2 := w.buildURL(hkind, b)
				k, _ := w.syncOracle(u2, w.runSync(u2, string(b)), false)
				return k == cls
			})
			c.Fail("sync:"+cls+":"+hkind+":"+strconv.QuoteToASCII(string(min)), msg, replay{Kind: "sync", HKind: hkind, Path: hx(min), Port: -1})
		}
		if verbose {
			fmt.Println("ORACLE-FAIL:", cls, msg)
		}
	}
}

// doSyncRaw: advertised URL given as text with escapes url.Parse keeps in RawPath (known-finding shapes)
func doSyncRaw(c *vlib.Ctx, w *syncWorld, hkind, rawPath string) {
	if _, ok := w.servers[hkind]; !ok {
		return
	}
	host := w.hosts[hkind]
	if hkind == "ip6" {
		host = "[" + host + "]"
	}
	u, err := url.Parse("http://" + host + ":" + strconv.Itoa(w.ports[hkind]) + rawPath)
	if err != nil {
		return
	}
	o := w.runSync(u, u.Path)
	c.Eval()
	c.Count("sync:raw")
	if cls, msg := w.syncOracle(u, o, true); cls != "" && cls != "repeated-slashes-collapsed" {
		c.Fail("sync:raw:"+cls+":"+rawPath, msg, replay{Kind: "rawurl", Raw: u.String()})
	}
}

func runSyncCases(c *vlib.Ctx) {
	w := newSyncWorld()
	defer w.close()
	bases := []string{"", "/", "/a", "/a/b", "/a b", "/a+b", "/a%b", "/a%2Fb", "/a%20b", "/é/世界", "/a/", "/a//", "//a", "/a//b", "///", "//a//b//",
		"/a/./b", "/a/../b", "/..", "/../a", "/a/..", "/a;b,c", "/a?b#c", "/a:b@c$d&e=f", "/~x._-", "/A B/c+d/%41", "/ipni/v1/ad", "/x/ipni/v1/ad/", "/\x01\x7f", "/\xff\xfe", "/%", "/+", "/ ", "/a/b/c/d/e/f/g/h"}
	for _, b := range bases {
		for _, h := range []string{"ip4", "ip6"} {
			doSync(c, w, h, []byte(b), false)
		}
	}
	for i, x := range special {
		doSync(c, w, []string{"ip4", "ip6"}[i%2], []byte{'/', x}, false)
		doSync(c, w, []string{"ip6", "ip4"}[i%2], []byte{'/', 'p', x, 'q', '/', 'r'}, false)
	}
	rng := c.Rng.Fork("syncpaths")
	for i := 0; i < c.Pick(120, 1500); i++ {
		n := 1 + rng.Intn(24)
		p := []byte{'/'}
		for j := 0; j < n; j++ {
			switch rng.Intn(6) {
			case 0:
				p = append(p, special[rng.Intn(len(special))])
			case 1:
				p = append(p, '/')
			case 2:
				p = append(p, byte(1+rng.Intn(255)))
			default:
				p = append(p, "abcxyzABC0189-_.~"[rng.Intn(17)])
			}
		}
		doSync(c, w, []string{"ip4", "ip6"}[rng.Intn(2)], p, false)
	}
	for _, raw := range []string{"/a%2Fb", "/a%2fb/c", "/%41", "/a%2Bb", "/a!b", "/a%3Bb"} {
		doSyncRaw(c, w, "ip4", raw)
	}
	runAddrChange(c, w)
	runSameAddrs(c, w)
}
