package main

import (
	"bytes"
	"fmt"
	"sort"
	"strings"

	"github.com/ipni/go-libipni/mautil"
	"github.com/libp2p/go-libp2p/core/peer"
	"github.com/multiformats/go-multiaddr"
	manet "github.com/multiformats/go-multiaddr/net"

	"verif/harness/vlib"
)

// An address of the pool with what it is BY CONSTRUCTION (the class decides the flags
// the Coq model is given; manet is not asked).
type paddr struct {
	name  string // multiaddr text, "<nil>" or "<empty>"
	class string
	ma    multiaddr.Multiaddr
	id    int // rank of Bytes() under bytes.Compare in the pool
}

var poolSpec = []struct{ class, text string }{
	{"KNil", "<nil>"},
	{"KEmpty", "<empty>"},
	{"KLoopback", "/ip4/127.0.0.1/tcp/80/http"},
	{"KLoopback", "/ip4/127.255.0.3/tcp/1"},
	{"KLoopback", "/ip6/::1/tcp/443/https"},
	{"KPrivate", "/ip4/10.0.0.1/tcp/80/http"},
	{"KPrivate", "/ip4/192.168.1.1/tcp/8080/tls/http"},
	{"KPrivate", "/ip4/172.16.5.4/udp/1/quic-v1"},
	{"KPrivate", "/ip4/100.64.0.1/tcp/1"},
	{"KPrivate", "/ip4/169.254.1.1/tcp/1/https"},
	{"KPrivate", "/ip6/fc00::1/tcp/1/http"},
	{"KPrivate", "/ip6/fe80::1/tcp/1"},
	{"KPrivate", "/ip6zone/eth0/ip6/fe80::1/tcp/80/http"},
	{"KUnspecified", "/ip4/0.0.0.0/tcp/80/http"},
	{"KUnspecified", "/ip6/::/tcp/80/https"},
	{"KUnspecified", "/ip4/0.0.0.0"},
	{"KLocalhost", "/dns/localhost/tcp/80/http"},
	{"KLocalhost", "/dns4/localhost/tcp/1"},
	{"KLocalhost", "/dns6/localhost/https"},
	{"KLocalhost", "/dnsaddr/localhost"},
	{"KPublicIP", "/ip4/8.8.8.8/tcp/80/http"},
	{"KPublicIP", "/ip4/1.1.1.1/tcp/443/https"},
	{"KPublicIP", "/ip4/11.0.0.0/tcp/80"},
	{"KPublicIP", "/ip6/2a00:1450:400e:80d::200e/tcp/443/https"},
	{"KPublicIP", "/ip6/2606:4700::1111/tcp/80/http/http-path/ipni"},
	{"KPublicIP", "/ip6/64:ff9b::808:808/tcp/80"},
	{"KPublicIP", "/ip6zone/eth0/ip6/2a00::1/tcp/1/tls/http"},
	{"KPublicName", "/dns/example.com/tcp/443/https"},
	{"KPublicName", "/dns4/ipni.io/tcp/80/http/http-path/x"},
	{"KPublicName", "/dnsaddr/bootstrap.libp2p.io"},
	{"KPublicName", "/dns6/example.org/tcp/1/tls/http"},
	{"KPublicName", "/dns/example.net/tcp/1234"},
	{"KUnroutableIP", "/ip4/192.0.2.1/tcp/80/http"},
	{"KUnroutableIP", "/ip4/224.0.0.1/tcp/1"},
	{"KUnroutableIP", "/ip4/255.255.255.255/tcp/1/https"},
	{"KUnroutableIP", "/ip6/2001:db8::1/tcp/80/http"},
	{"KUnroutableIP", "/ip6/ff02::1/tcp/1"},
	{"KUnroutableIP", "/ip6/fe00::/tcp/8080/https"},
	{"KUnroutableIP", "/ipcidr/24"},
	{"KSpecialName", "/dns/foo.localhost/tcp/80/http"},
	{"KSpecialName", "/dns/printer.local/tcp/80/https"},
	{"KSpecialName", "/dns/LOCALHOST/tcp/80"},
	{"KNonIP", "/tcp/80/http"},
	{"KNonIP", "/p2p/12D3KooWCryG7Mon9orvQxcS1rYZjotPgpwoJNHHKcLLfE4Hf5mV"},
	{"KNonIP", "/tls/http"},
	{"KNonIP", "/https"},
	{"KNonIP", "/unix/tmp/sock"},
}

var pool []*paddr
var poolByName = map[string]*paddr{}

func (p *paddr) flags() (public, unspec, localhost bool) {
	switch p.class {
	case "KPublicIP", "KPublicName":
		public = true
	case "KUnspecified":
		unspec = true
	case "KLocalhost":
		localhost = true
	}
	return
}

func initPool() {
	var keys [][]byte
	spec := append([]struct{ class, text string }{}, poolSpec...)
	for _, g := range genPoolSpec() { // generated shapes x IP classes (fpgen.go)
		dup := false
		for _, s := range spec {
			if s.text == g.text {
				dup = true
			}
		}
		if !dup {
			spec = append(spec, g)
		}
	}
	for _, s := range spec {
		p := &paddr{name: s.text, class: s.class}
		switch s.text {
		case "<nil>":
		case "<empty>":
			p.ma = multiaddr.Multiaddr{}
		default:
			m, err := multiaddr.NewMultiaddr(s.text)
			if err != nil {
				panic("harness pool: " + s.text + ": " + err.Error())
			}
			p.ma = m
		}
		pool = append(pool, p)
		poolByName[p.name] = p
		keys = append(keys, p.ma.Bytes())
	}
	sort.Slice(keys, func(i, j int) bool { return bytes.Compare(keys[i], keys[j]) < 0 })
	var uniq [][]byte
	for _, k := range keys {
		if len(uniq) == 0 || !bytes.Equal(uniq[len(uniq)-1], k) {
			uniq = append(uniq, k)
		}
	}
	for _, p := range pool {
		p.id = sort.Search(len(uniq), func(i int) bool { return bytes.Compare(uniq[i], p.ma.Bytes()) >= 0 })
	}
	// self-check of the class table against go-multiaddr/net for IP-first addresses: the
	// table is the harness' statement of what the classes mean
	for _, p := range pool {
		if p.ma == nil || len(p.ma) == 0 {
			continue
		}
		switch p.ma[0].Protocol().Code {
		case multiaddr.P_IP4, multiaddr.P_IP6, multiaddr.P_IP6ZONE:
			pub, unspec, _ := p.flags()
			if manet.IsPublicAddr(p.ma) != pub || manet.IsIPUnspecified(p.ma) != unspec {
				panic(fmt.Sprintf("harness pool: %s classed %s but manet says public=%v unspecified=%v", p.name, p.class, manet.IsPublicAddr(p.ma), manet.IsIPUnspecified(p.ma)))
			}
		}
	}
}

func fromNames(names []string) []*paddr {
	var out []*paddr
	for _, n := range names {
		p, ok := poolByName[n]
		if !ok {
			m, err := multiaddr.NewMultiaddr(n)
			if err != nil {
				panic("replay: unknown address " + n)
			}
			p = &paddr{name: n, class: "KNonIP", ma: m, id: 1000 + len(poolByName)}
			poolByName[n] = p
		}
		out = append(out, p)
	}
	return out
}

func names(l []*paddr) []string {
	out := make([]string, len(l))
	for i, p := range l {
		out[i] = p.name
	}
	return out
}

func (p *paddr) coq() string {
	var codes []uint64
	for _, pr := range p.ma.Protocols() {
		codes = append(codes, uint64(pr.Code))
	}
	pub, unspec, lh := p.flags()
	return fmt.Sprintf("(Build_addr %d %s %s %s %s %s %s)", p.id, vlib.CoqBool(p.ma == nil), vlib.CoqListN(codes), vlib.CoqBool(pub), vlib.CoqBool(unspec), vlib.CoqBool(lh), p.class)
}

func coqAddrs(l []*paddr) string {
	it := make([]string, len(l))
	for i, p := range l {
		it[i] = p.coq()
	}
	return vlib.CoqList(it)
}

func mas(l []*paddr) []multiaddr.Multiaddr {
	out := make([]multiaddr.Multiaddr, len(l))
	for i, p := range l {
		out[i] = p.ma
	}
	return out
}

// identify maps an output entry back to the pool (by nil-ness, then bytes)
func idsOf(out []multiaddr.Multiaddr) []uint64 {
	ids := make([]uint64, len(out))
	for i, m := range out {
		found := false
		for _, p := range pool {
			if (m == nil) == (p.ma == nil) && bytes.Equal(m.Bytes(), p.ma.Bytes()) {
				ids[i] = uint64(p.id)
				found = true
				break
			}
		}
		if !found {
			for _, p := range poolByName {
				if bytes.Equal(m.Bytes(), p.ma.Bytes()) {
					ids[i] = uint64(p.id)
					found = true
				}
			}
		}
		if !found {
			ids[i] = 999999 // an address that was not in the input
		}
	}
	return ids
}

func key(m multiaddr.Multiaddr) string {
	if m == nil {
		return "<nil>"
	}
	return "ma:" + string(m.Bytes())
}

func isSubsequence(out, in []multiaddr.Multiaddr) bool {
	j := 0
	for _, o := range out {
		for j < len(in) && key(in[j]) != key(o) {
			j++
		}
		if j == len(in) {
			return false
		}
		j++
	}
	return true
}

func hasHTTPByText(p *paddr) bool {
	if p.ma == nil {
		return false
	}
	for _, part := range strings.Split(p.name, "/") {
		if part == "http" || part == "https" {
			return true
		}
	}
	return false
}

func listOracle(fn string, in []*paddr, out []multiaddr.Multiaddr) string {
	inMa := mas(in)
	count := func(l []multiaddr.Multiaddr) map[string]int {
		m := map[string]int{}
		for _, a := range l {
			m[key(a)]++
		}
		return m
	}
	cout := count(out)
	switch fn {
	case "fp":
		if !isSubsequence(out, inMa) {
			return "output is not an order-preserving selection of the input"
		}
		for _, p := range in {
			// judged from the address text with net/netip, independent of go-multiaddr/net
			if why := textDrop(p.name); why != "" && cout[key(p.ma)] > 0 {
				return "returns:" + why + ":" + p.name
			}
		}
		for _, p := range in {
			switch p.class {
			case "KLoopback", "KPrivate", "KUnspecified", "KLocalhost":
				if cout[key(p.ma)] > 0 {
					return "returns:" + p.class + ":" + p.name
				}
			case "KPublicIP", "KPublicName":
				if cout[key(p.ma)] != count(inMa)[key(p.ma)] {
					return "drops:" + p.class + ":" + p.name
				}
			}
		}
	case "fh":
		var want []multiaddr.Multiaddr
		for _, p := range in {
			if hasHTTPByText(p) {
				want = append(want, p.ma)
			}
		}
		if len(want) != len(out) {
			return fmt.Sprintf("selects %d addresses, %d contain http/https", len(out), len(want))
		}
		for i := range want {
			if key(want[i]) != key(out[i]) {
				return fmt.Sprintf("entry %d is %s, want %s", i, out[i], want[i])
			}
		}
	case "clean":
		var nonnil []multiaddr.Multiaddr
		for _, p := range in {
			if p.ma != nil {
				nonnil = append(nonnil, p.ma)
			}
		}
		cw := count(nonnil)
		if len(out) != len(nonnil) {
			return fmt.Sprintf("%d entries left, input has %d non-nil", len(out), len(nonnil))
		}
		for k, n := range cw {
			if cout[k] != n {
				return "multiset of non-nil entries changed"
			}
		}
	}
	return ""
}

func callList(fn string, in []multiaddr.Multiaddr) (out []multiaddr.Multiaddr, panicked string) {
	defer func() {
		if r := recover(); r != nil {
			panicked = fmt.Sprint(r)
		}
	}()
	switch fn {
	case "fp":
		out = mautil.FilterPublic(in)
	case "fh":
		out = mautil.FindHTTPAddrs(in)
	case "clean":
		out = mautil.CleanPeerAddrInfo(peer.AddrInfo{Addrs: in}).Addrs
	}
	return
}

// sameSlice: the caller's slice holds the same entries in the same order as before
func sameSlice(after []multiaddr.Multiaddr, before []*paddr) bool {
	if len(after) != len(before) {
		return false
	}
	for i := range after {
		if key(after[i]) != key(before[i].ma) {
			return false
		}
	}
	return true
}

func doList(c *vlib.Ctx, fn string, in []*paddr, verbose bool) {
	arg := mas(in) // a fresh slice: clean mutates it
	out, panicked := callList(fn, arg)
	// FilterPublic and FindHTTPAddrs return a selection: the list they were given is the caller's
	// (the advertised address list) and must be left as it was -- elements and order
	if (fn == "fp" || fn == "fh") && panicked == "" && !sameSlice(arg, in) {
		cur := in
		for changed := true; changed; {
			changed = false
			for i := range cur {
				cand := append(append([]*paddr{}, cur[:i]...), cur[i+1:]...)
				a2 := mas(cand)
				if _, p2 := callList(fn, a2); p2 == "" && !sameSlice(a2, cand) {
					cur, changed = cand, true
					break
				}
			}
		}
		a2 := mas(cur)
		callList(fn, a2)
		if verbose {
			fmt.Printf("ORACLE-FAIL: %s overwrote its input: the caller now holds %v\n", fn, a2)
		}
		c.Fail("list:"+fn+":mutates-input:"+strings.Join(names(cur), ","), fmt.Sprintf("%s(%v) overwrote the list it was given: the caller now holds %v", fn, names(cur), a2), replay{Kind: "list", Fn: fn, A: names(cur)})
	}
	c.Eval()
	c.Count("list:" + fn)
	rp := replay{Kind: "list", Fn: fn, A: names(in)}
	if verbose {
		fmt.Printf("%s %v -> %v panic=%q\n", fn, names(in), out, panicked)
	}
	if panicked != "" {
		c.Fail("list:"+fn+":panic:"+strings.Join(names(in), ","), "panicked: "+panicked, rp)
		c.Case(fn, fmt.Sprintf("(%s, [999998])", coqAddrs(in)), rp)
		return
	}
	c.Case(fn, fmt.Sprintf("(%s, %s)", coqAddrs(in), vlib.CoqListN(idsOf(out))), rp)
	sample(c, fn, len(in) >= 5, names(in), fmt.Sprint(out))
	if msg := listOracle(fn, in, out); msg != "" {
		// shrink the list
		cur := in
		for changed := true; changed; {
			changed = false
			for i := range cur {
				cand := append(append([]*paddr{}, cur[:i]...), cur[i+1:]...)
				o2, p2 := callList(fn, mas(cand))
				if p2 == "" && listOracle(fn, cand, o2) != "" {
					cur, changed = cand, true
					break
				}
			}
		}
		o2, _ := callList(fn, mas(cur))
		m2 := listOracle(fn, cur, o2)
		c.Fail("list:"+fn+":"+strings.Join(names(cur), ",")+":"+m2, fmt.Sprintf("%s(%v) = %v: %s", fn, names(cur), o2, m2), replay{Kind: "list", Fn: fn, A: names(cur)})
		if verbose {
			fmt.Println("ORACLE-FAIL:", msg)
		}
	}
}

func doEq(c *vlib.Ctx, a, b []*paddr, verbose bool) {
	ma1, ma2 := mas(a), mas(b)
	var got bool
	panicked := ""
	func() {
		defer func() {
			if r := recover(); r != nil {
				panicked = fmt.Sprint(r)
			}
		}()
		got = mautil.MultiaddrsEqual(ma1, ma2)
	}()
	c.Eval()
	c.Count("list:eq")
	rp := replay{Kind: "eq", A: names(a), B: names(b)}
	if verbose {
		fmt.Printf("eq %v %v -> %v panic=%q; after: %v %v\n", names(a), names(b), got, panicked, ma1, ma2)
	}
	if panicked != "" {
		c.Fail("list:eq:panic:"+strings.Join(names(a), ",")+"|"+strings.Join(names(b), ","), "MultiaddrsEqual panicked: "+panicked, rp)
		return
	}
	idl := func(l []*paddr) []uint64 {
		out := make([]uint64, len(l))
		for i, p := range l {
			out[i] = uint64(p.id)
		}
		return out
	}
	c.Case("eq", fmt.Sprintf("(%s, %s, %s, %s, %s)", vlib.CoqListN(idl(a)), vlib.CoqListN(idl(b)), vlib.CoqBool(got), vlib.CoqListN(idsOf(ma1)), vlib.CoqListN(idsOf(ma2))), rp)
	sample(c, "eq", len(a) >= 4 && got, [][]string{names(a), names(b)}, fmt.Sprint(got))
	// independent multiset comparison on the byte form (a nil and an empty multiaddr are Equal)
	cnt := map[string]int{}
	for _, p := range a {
		cnt[string(p.ma.Bytes())]++
	}
	for _, p := range b {
		cnt[string(p.ma.Bytes())]--
	}
	want := len(a) == len(b)
	for _, n := range cnt {
		if n != 0 {
			want = false
		}
	}
	if got != want {
		c.Fail("list:eq:"+strings.Join(names(a), ",")+"|"+strings.Join(names(b), ","), fmt.Sprintf("MultiaddrsEqual = %v, the lists are %sequal as multisets", got, map[bool]string{true: "", false: "not "}[want]), rp)
	}
	// the in-place sort must not lose or invent entries
	for _, pr := range [][2][]multiaddr.Multiaddr{{mas(a), ma1}, {mas(b), ma2}} {
		k1, k2 := map[string]int{}, map[string]int{}
		for _, m := range pr[0] {
			k1[string(m.Bytes())]++
		}
		for _, m := range pr[1] {
			k2[string(m.Bytes())]++
		}
		if fmt.Sprint(k1) != fmt.Sprint(k2) {
			c.Fail("list:eq:mutates:"+strings.Join(names(a), ",")+"|"+strings.Join(names(b), ","), "MultiaddrsEqual changed the contents of an argument", rp)
		}
	}
}

// doSeq: the helpers applied one after the other to the SAME slice (as a caller that keeps
// the advertised list does) give what they give on fresh copies, and the list still equals
// the advertised one
func doSeq(c *vlib.Ctx, in []*paddr) {
	keys := func(l []multiaddr.Multiaddr) string {
		ks := make([]string, len(l))
		for i, m := range l {
			ks[i] = key(m)
		}
		return strings.Join(ks, "|")
	}
	var msg string
	panicked := ""
	func() {
		defer func() {
			if r := recover(); r != nil {
				panicked = fmt.Sprint(r)
			}
		}()
		shared := mas(in)
		fp1 := keys(mautil.FilterPublic(shared))
		fh1 := keys(mautil.FindHTTPAddrs(shared))
		fp2 := keys(mautil.FilterPublic(shared))
		eq := mautil.MultiaddrsEqual(append([]multiaddr.Multiaddr{}, shared...), mas(in)) // (MultiaddrsEqual sorts its arguments: give it copies)
		cl := keys(mautil.CleanPeerAddrInfo(peer.AddrInfo{Addrs: shared}).Addrs)          // last: it reuses the backing array
		wantFP, wantFH := keys(mautil.FilterPublic(mas(in))), keys(mautil.FindHTTPAddrs(mas(in)))
		wantCL := keys(mautil.CleanPeerAddrInfo(peer.AddrInfo{Addrs: mas(in)}).Addrs)
		switch {
		case fp1 != wantFP:
			msg = "first FilterPublic differs from FilterPublic on a fresh copy"
		case fh1 != wantFH:
			msg = "FindHTTPAddrs after FilterPublic on the same list differs from FindHTTPAddrs on a fresh copy"
		case fp2 != wantFP:
			msg = "a second FilterPublic on the same list differs from the first"
		case !eq:
			msg = "after FilterPublic and FindHTTPAddrs the list is no longer MultiaddrsEqual to the advertised one"
		case cl != wantCL:
			msg = "CleanPeerAddrInfo after the filters differs from CleanPeerAddrInfo on a fresh copy"
		}
	}()
	c.Eval()
	c.Count("list:seq")
	rp := replay{Kind: "list", Fn: "seq", A: names(in)}
	if panicked != "" {
		c.Fail("list:seq:panic:"+strings.Join(names(in), ","), "helper sequence panicked: "+panicked, rp)
	} else if msg != "" {
		c.Fail("list:seq:"+strings.Join(names(in), ",")+":"+msg, fmt.Sprintf("on %v: %s", names(in), msg), rp)
	}
}

func runLists(c *vlib.Ctx) {
	byName := func(ns ...string) []*paddr { return fromNames(ns) }
	var lists [][]*paddr
	lists = append(lists, nil)
	for _, p := range pool {
		lists = append(lists, []*paddr{p})
	}
	reps := byName("<nil>", "<empty>", "/ip4/127.0.0.1/tcp/80/http", "/ip4/10.0.0.1/tcp/80/http", "/ip6/::/tcp/80/https", "/dns/localhost/tcp/80/http",
		"/ip4/8.8.8.8/tcp/80/http", "/ip6/2a00:1450:400e:80d::200e/tcp/443/https", "/dns/example.com/tcp/443/https", "/ip6/2001:db8::1/tcp/80/http", "/dns/foo.localhost/tcp/80/http", "/tcp/80/http")
	for _, x := range reps {
		for _, y := range reps {
			lists = append(lists, []*paddr{x, y})
		}
	}
	r5 := byName("<nil>", "/ip4/8.8.8.8/tcp/80/http", "/ip4/127.0.0.1/tcp/80/http", "/dns/example.net/tcp/1234", "/dns/localhost/tcp/80/http")
	for _, x := range r5 {
		for _, y := range r5 {
			for _, z := range r5 {
				lists = append(lists, []*paddr{x, y, z})
			}
		}
	}
	rng := c.Rng.Fork("lists")
	for i := 0; i < c.Pick(300, 6000); i++ {
		n := rng.Intn(10)
		l := make([]*paddr, n)
		for j := range l {
			switch {
			case rng.Intn(5) == 0:
				l[j] = pool[0] // nil
			case j > 0 && rng.Intn(4) == 0:
				l[j] = l[rng.Intn(j)] // duplicate
			default:
				l[j] = pool[rng.Intn(len(pool))]
			}
		}
		lists = append(lists, l)
	}
	for _, l := range lists {
		classes := map[string]bool{}
		seen := map[string]bool{}
		nt := false
		for _, p := range l {
			classes[p.class] = true
			if seen[p.name] || p.ma == nil {
				nt = true
			}
			seen[p.name] = true
		}
		if nt || len(classes) >= 2 {
			c.Nontrivial("list:" + strings.Join(names(l), ","))
		}
		for _, fn := range []string{"fp", "fh", "clean"} {
			doList(c, fn, l, false)
		}
		doSeq(c, l)
	}
	// equality: exhaustive over short lists on {a, b, nil}
	abn := byName("/ip4/8.8.8.8/tcp/80/http", "/dns/example.com/tcp/443/https", "<nil>")
	var short [][]*paddr
	var rec func(cur []*paddr)
	rec = func(cur []*paddr) {
		short = append(short, append([]*paddr{}, cur...))
		if len(cur) == 3 {
			return
		}
		for _, x := range abn {
			rec(append(cur, x))
		}
	}
	rec(nil)
	for _, a := range short {
		for _, b := range short {
			doEq(c, a, b, false)
		}
	}
	// nil vs empty
	doEq(c, byName("<nil>"), byName("<empty>"), false)
	doEq(c, byName("<nil>", "/tcp/80/http"), byName("/tcp/80/http", "<empty>"), false)
	// seeded: permutations, one-element replacements, duplicate-count swaps
	erng := c.Rng.Fork("eq")
	for i := 0; i < c.Pick(400, 8000); i++ {
		n := 1 + erng.Intn(8)
		a := make([]*paddr, n)
		for j := range a {
			if j > 0 && erng.Intn(3) == 0 {
				a[j] = a[erng.Intn(j)]
			} else {
				a[j] = pool[erng.Intn(len(pool))]
			}
		}
		b := append([]*paddr{}, a...)
		for j := len(b) - 1; j > 0; j-- { // shuffle
			k := erng.Intn(j + 1)
			b[j], b[k] = b[k], b[j]
		}
		switch erng.Intn(4) {
		case 0: // permutation only
		case 1: // replace one element by another pool entry
			b[erng.Intn(n)] = pool[erng.Intn(len(pool))]
		case 2: // change duplicate counts: overwrite one entry by a copy of another
			if n >= 2 {
				x, y := erng.Intn(n), erng.Intn(n)
				b[x] = b[y]
			}
		case 3: // drop or add one
			if erng.Bool() {
				b = b[1:]
			} else {
				b = append(b, pool[erng.Intn(len(pool))])
			}
		}
		c.Nontrivial("eq:" + strings.Join(names(a), ",") + "|" + strings.Join(names(b), ","))
		doEq(c, a, b, false)
	}
}
