package main

import (
	"fmt"
	"net/url"

	"github.com/multiformats/go-multiaddr"

	"verif/harness/vlib"
)

// bytes on which the escaping modes differ or that matter to URL syntax
var special = []byte{'%', '+', ' ', '/', '?', '#', ';', ',', '&', '=', ':', '@', '$', '~', '.', '-', '_', '!', '*', '\'', '(', ')', '"', '<', '[', 'a', 'Z', '2', '0', 'F', 'f', 'g', 0x00, 0x7f, 0x80, 0xff}
var core = []byte{'%', '+', ' ', '/', '2', '0', 'a', 'B'}

func coqResBytes(s string, err error) string {
	if err != nil {
		return "(Err 0)"
	}
	return "(Ok " + vlib.CoqBytes([]byte(s)) + ")"
}

func doEsc(c *vlib.Ctx, s []byte, verbose bool) {
	pe := url.PathEscape(string(s))
	qe := url.QueryEscape(string(s))
	c.Eval()
	c.Count("esc")
	r := replay{Kind: "esc", S: hx(s)}
	c.Case("esc", fmt.Sprintf("(%s, %s, %s)", vlib.CoqBytes(s), vlib.CoqBytes([]byte(pe)), vlib.CoqBytes([]byte(qe))), r)
	// direct oracles: the round-trip laws on the real functions
	if b, err := url.PathUnescape(pe); err != nil || b != string(s) {
		c.Fail("neturl:PathUnescape(PathEscape):"+hx(shrinkBytes(s, func(t []byte) bool {
			b, err := url.PathUnescape(url.PathEscape(string(t)))
			return err != nil || b != string(t)
		})), "PathUnescape(PathEscape(s)) != s", r)
	}
	if b, err := url.QueryUnescape(qe); err != nil || b != string(s) {
		c.Fail("neturl:QueryUnescape(QueryEscape):"+hx(shrinkBytes(s, func(t []byte) bool {
			b, err := url.QueryUnescape(url.QueryEscape(string(t)))
			return err != nil || b != string(t)
		})), "QueryUnescape(QueryEscape(s)) != s", r)
	}
	if verbose {
		fmt.Printf("esc %q: PathEscape=%q QueryEscape=%q\n", s, pe, qe)
	}
}

func doUnesc(c *vlib.Ctx, s []byte, verbose bool) {
	pu, perr := url.PathUnescape(string(s))
	qu, qerr := url.QueryUnescape(string(s))
	c.Eval()
	if perr != nil {
		c.Count("unesc:err")
	} else {
		c.Count("unesc:ok")
	}
	sample(c, "unesc", len(s) > 6 && perr == nil && pu != qu, string(s), fmt.Sprintf("PathUnescape %q QueryUnescape %q", pu, qu))
	c.Case("unesc", fmt.Sprintf("(%s, %s, %s)", vlib.CoqBytes(s), coqResBytes(pu, perr), coqResBytes(qu, qerr)), replay{Kind: "esc", S: hx(s)})
	if verbose {
		fmt.Printf("unesc %q: PathUnescape=%q,%v QueryUnescape=%q,%v\n", s, pu, perr, qu, qerr)
	}
}

func shrinkBytes(s []byte, fails func([]byte) bool) []byte {
	cur := append([]byte{}, s...)
	for changed := true; changed; {
		changed = false
		for i := 0; i < len(cur); i++ {
			cand := append(append([]byte{}, cur[:i]...), cur[i+1:]...)
			if fails(cand) {
				cur = cand
				changed = true
				break
			}
		}
	}
	return cur
}

func escStrings(c *vlib.Ctx, label string) [][]byte {
	var out [][]byte
	out = append(out, []byte{})
	for b := 0; b < 256; b++ {
		out = append(out, []byte{byte(b)})
	}
	for _, x := range special {
		for _, y := range special {
			out = append(out, []byte{x, y})
		}
	}
	for _, x := range core {
		for _, y := range core {
			for _, z := range core {
				out = append(out, []byte{x, y, z})
			}
		}
	}
	rng := c.Rng.Fork(label)
	for i := 0; i < c.Pick(300, 6000); i++ {
		n := 1 + rng.Intn(30)
		s := make([]byte, n)
		for j := range s {
			switch rng.Intn(4) {
			case 0:
				s[j] = special[rng.Intn(len(special))]
			case 1:
				s[j] = core[rng.Intn(len(core))]
			default:
				s[j] = byte(rng.Intn(256))
			}
		}
		out = append(out, s)
	}
	return out
}

func unescStrings(c *vlib.Ctx) [][]byte {
	out := escStrings(c, "unesc")
	hexish := []byte{'0', '9', 'a', 'f', 'A', 'F', 'g', 'G', '/', ':', '@', '`', ' ', '%', '+'}
	for _, x := range hexish {
		for _, y := range hexish {
			out = append(out, []byte{'%', x, y}, []byte{'a', '%', x, y, 'b'}, []byte{'%', x, y, '%'})
		}
	}
	for b := 0; b < 256; b++ {
		out = append(out, []byte(fmt.Sprintf("%%%02X", b)), []byte(fmt.Sprintf("x%%%02xy", b)))
	}
	out = append(out, []byte("%"), []byte("a%"), []byte("a%4"), []byte("%4"), []byte("%%41"), []byte("%41%"), []byte("+%2B+%20"), []byte("%2"))
	return out
}

func runEscape(c *vlib.Ctx) {
	for _, s := range escStrings(c, "esc") {
		doEsc(c, s, false)
	}
	for _, s := range unescStrings(c) {
		doUnesc(c, s, false)
	}
}

// http-path transcoder through the public API
func doHP(c *vlib.Ctx, s []byte, verbose bool) {
	var term string
	func() {
		defer func() {
			if r := recover(); r != nil {
				term = "(Panic 0)"
				c.Fail("hp:panic:"+hx(s), fmt.Sprintf("NewComponent(http-path, %q) panicked: %v", s, r), replay{Kind: "esc", S: hx(s)})
			}
		}()
		comp, err := multiaddr.NewComponent("http-path", string(s))
		if err != nil {
			term = "(Err 0)"
			c.Count("hp:err")
			return
		}
		c.Count("hp:ok")
		term = fmt.Sprintf("(Ok (%s, %s))", vlib.CoqBytes(comp.RawValue()), vlib.CoqBytes([]byte(comp.Value())))
		if verbose {
			fmt.Printf("hp %q: raw=%q value=%q\n", s, comp.RawValue(), comp.Value())
		}
	}()
	c.Eval()
	c.Case("hp", fmt.Sprintf("(%s, %s)", vlib.CoqBytes(s), term), replay{Kind: "esc", S: hx(s)})
}

func runHP(c *vlib.Ctx) {
	for _, s := range unescStrings(c) {
		if len(s) > 12 && !c.Thorough() {
			continue
		}
		doHP(c, s, false)
	}
}
