package main

// The string-level helpers of mautil (StringsToMultiaddrs, ParsePeers,
// MultiaddrStringToNetAddr), the legacy httpath validator of maurl, and FromURL's
// unsupported-scheme exit: cases against the small models plus direct oracles.

import (
	"bytes"
	"fmt"
	"net/url"
	"sort"
	"strconv"
	"strings"

	"github.com/ipni/go-libipni/maurl"
	"github.com/ipni/go-libipni/mautil"
	ic "github.com/libp2p/go-libp2p/core/crypto"
	"github.com/libp2p/go-libp2p/core/peer"
	"github.com/multiformats/go-multiaddr"

	"verif/harness/vlib"
)

var junkStrings = []string{"junk", "", "/", "//", "/ip4", "/ip4/999.1.1.1", "/ip4/1.2.3.4/tcp", "/ip4/1.2.3.4/tcp/70000", "ip4/1.2.3.4", "/nosuchproto/1", "/ip6/zz", "/p2p/notapeer",
	"/dns/", "/http-path/", "/http-path/%zz", " /ip4/1.2.3.4", "/ip4/1.2.3.4\x00", "/\xff", "/ip4/1.2.3.4/tcp/-1", "/ip6zone//ip6/::1"}

// item of a string list: a pool address (optionally with a /p2p/<peer> suffix) or junk
type strItem struct {
	text  string
	p     *paddr // nil for junk
	peerI int    // -1 = no /p2p component
}

func parseTransports() []*paddr {
	var out []*paddr
	for _, p := range pool {
		if p.ma == nil || len(p.ma) == 0 || strings.Contains(p.name, "/p2p/") || strings.HasPrefix(p.name, "/unix") {
			continue
		}
		out = append(out, p)
	}
	return out
}

func runParse(c *vlib.Ctx) {
	// a few peers
	var peers []peer.ID
	for i := 0; i < 4; i++ {
		k, _, err := ic.GenerateEd25519Key(bytes.NewReader(bytes.Repeat([]byte{byte(40 + i)}, 64)))
		if err != nil {
			panic(err)
		}
		id, _ := peer.IDFromPrivateKey(k)
		peers = append(peers, id)
	}
	sort.Slice(peers, func(i, j int) bool { return peers[i] < peers[j] }) // index order = id order
	for _, j := range junkStrings {                                       // the junk list is the harness' statement of what does not parse
		if _, err := multiaddr.NewMultiaddr(j); err == nil {
			panic("harness: junk string parses: " + strconv.Quote(j))
		}
	}
	trans := parseTransports()
	rng := c.Rng.Fork("parse")
	mk := func(withPeers bool, junkPct int) []strItem {
		n := rng.Intn(7)
		l := make([]strItem, n)
		for i := range l {
			switch {
			case rng.Intn(100) < junkPct:
				l[i] = strItem{text: junkStrings[rng.Intn(len(junkStrings))], peerI: -1}
			default:
				p := trans[rng.Intn(len(trans))]
				it := strItem{text: p.name, p: p, peerI: -1}
				if withPeers && rng.Intn(10) != 0 {
					it.peerI = rng.Intn(len(peers))
					if rng.Intn(8) == 0 {
						it.p, it.text = nil, "/p2p/"+peers[it.peerI].String() // bare peer: no transport
					} else {
						it.text += "/p2p/" + peers[it.peerI].String()
					}
				}
				l[i] = it
			}
		}
		return l
	}

	// ---- StringsToMultiaddrs
	doStrs := func(l []strItem) {
		ss := make([]string, len(l))
		var terms []string
		var want []multiaddr.Multiaddr
		anyBad := false
		for i, it := range l {
			ss[i] = it.text
			if it.p != nil && it.peerI < 0 {
				terms = append(terms, fmt.Sprintf("(Some %d)", it.p.id))
				want = append(want, it.p.ma)
			} else {
				terms = append(terms, "(@None N)")
				anyBad = true
			}
		}
		var out []multiaddr.Multiaddr
		var err error
		panicked := ""
		func() {
			defer func() {
				if r := recover(); r != nil {
					panicked = fmt.Sprint(r)
				}
			}()
			out, err = mautil.StringsToMultiaddrs(ss)
		}()
		c.Eval()
		c.Count("parse:strs")
		rp := replay{Kind: "strs", A: ss, Port: -1}
		if panicked != "" {
			c.Fail("strs:panic:"+strconv.Quote(strings.Join(ss, ",")), "StringsToMultiaddrs panicked: "+panicked, rp)
			return
		}
		c.Case("strs", fmt.Sprintf("(%s, %s, %s)", vlib.CoqList(terms), vlib.CoqListN(idsOf(out)), vlib.CoqBool(err != nil)), rp)
		// direct oracle: the valid strings come back as their multiaddrs, in order; an error iff some string is junk
		ok := len(out) == len(want) && (err != nil) == anyBad
		for i := range want {
			ok = ok && i < len(out) && out[i].Equal(want[i]) && out[i].String() == want[i].String()
		}
		if len(ss) == 0 && (out != nil || err != nil) {
			ok = false
		}
		if !ok {
			c.Fail("strs:"+strconv.Quote(strings.Join(ss, ",")), fmt.Sprintf("StringsToMultiaddrs(%q) = %v, %v; the parsable ones are %v", ss, out, err, want), rp)
		}
	}
	// every pool address alone, then seeded lists
	for _, p := range trans {
		doStrs([]strItem{{text: p.name, p: p, peerI: -1}})
	}
	for _, j := range junkStrings {
		doStrs([]strItem{{text: j, peerI: -1}})
	}
	doStrs(nil)
	for i := 0; i < c.Pick(200, 3000); i++ {
		doStrs(mk(false, 25))
	}

	// ---- ParsePeers
	doPeers := func(l []strItem) {
		ss := make([]string, len(l))
		var terms []string
		bad := false
		for i, it := range l {
			ss[i] = it.text
			switch {
			case it.p == nil && it.peerI < 0:
				terms = append(terms, "(@None (option N * option N))")
				bad = true
			case it.peerI < 0:
				terms = append(terms, fmt.Sprintf("(Some (@None N, Some %d))", it.p.id))
				bad = true
			case it.p == nil:
				terms = append(terms, fmt.Sprintf("(Some (Some %d, @None N))", it.peerI))
			default:
				terms = append(terms, fmt.Sprintf("(Some (Some %d, Some %d))", it.peerI, it.p.id))
			}
		}
		var out []peer.AddrInfo
		var err error
		panicked := ""
		func() {
			defer func() {
				if r := recover(); r != nil {
					panicked = fmt.Sprint(r)
				}
			}()
			out, err = mautil.ParsePeers(ss)
		}()
		c.Eval()
		c.Count("parse:peers")
		rp := replay{Kind: "peers", A: ss, Port: -1}
		if panicked != "" {
			c.Fail("peers:panic:"+strconv.Quote(strings.Join(ss, ",")), "ParsePeers panicked: "+panicked, rp)
			return
		}
		obs := "(@None (list (N * list N)))"
		if err == nil {
			sort.Slice(out, func(i, j int) bool { return out[i].ID < out[j].ID })
			var it []string
			for _, ai := range out {
				idx := -1
				for k, id := range peers {
					if id == ai.ID {
						idx = k
					}
				}
				it = append(it, fmt.Sprintf("(%d, %s)", idx, vlib.CoqListN(idsOf(ai.Addrs))))
			}
			obs = "(Some " + vlib.CoqList(it) + ")"
		}
		c.Case("peers", fmt.Sprintf("(%s, %s)", vlib.CoqList(terms), obs), rp)
		// direct oracle: error iff some string is junk or lacks a peer; otherwise every peer named
		// appears once with exactly its transports (as a multiset)
		if (err != nil) != bad {
			c.Fail("peers:"+strconv.Quote(strings.Join(ss, ",")), fmt.Sprintf("ParsePeers(%q) err=%v, expected error: %v", ss, err, bad), rp)
			return
		}
		if err == nil {
			want := map[peer.ID]map[string]int{}
			for _, it := range l {
				id := peers[it.peerI]
				if want[id] == nil {
					want[id] = map[string]int{}
				}
				if it.p != nil {
					want[id][string(it.p.ma.Bytes())]++
				}
			}
			good := len(out) == len(want)
			for _, ai := range out {
				got := map[string]int{}
				for _, a := range ai.Addrs {
					got[string(a.Bytes())]++
				}
				if fmt.Sprint(got) != fmt.Sprint(want[ai.ID]) {
					good = false
				}
			}
			if !good {
				c.Fail("peers:"+strconv.Quote(strings.Join(ss, ",")), fmt.Sprintf("ParsePeers(%q) = %v", ss, out), rp)
			}
		}
	}
	doPeers(nil)
	for i := 0; i < c.Pick(250, 4000); i++ {
		doPeers(mk(true, []int{0, 0, 15}[i%3]))
	}

	// ---- MultiaddrStringToNetAddr (no dns*: manet would ask a resolver)
	ip := func(k, v string) comp { return comp{Kind: k, Val: []byte(v)} }
	hostForms := [][]comp{{ip("ip4", "1.2.3.4")}, {ip("ip4", "0.0.0.0")}, {ip("ip6", "::1")}, {ip("ip6", "2001:db8::1")}, {ip("ip6zone", "eth0"), ip("ip6", "fe80::1")}, {ip("ip6zone", "eth0"), ip("ip4", "1.2.3.4")},
		{ip("ip6zone", "a"), ip("ip6zone", "b"), ip("ip6", "fe80::1")}, {}}
	portForms := [][]comp{{}, {{Kind: "tcp", Port: 80}}, {{Kind: "tcp", Port: 0}}, {{Kind: "udp", Port: 65535}}}
	tails := [][]comp{{}, {{Kind: "http"}}, {{Kind: "tls"}, {Kind: "http"}}, {{Kind: "other", Val: []byte("quic-v1")}}, {{Kind: "tcp", Port: 1}}, {{Kind: "https"}, {Kind: "http-path", Val: []byte("/x"), Str: "%2Fx"}},
		{{Kind: "http"}, {Kind: "tcp", Port: 9}}, {{Kind: "other", Val: []byte("quic-v1")}, {Kind: "udp", Port: 7}}, {ip("ip4", "5.6.7.8")}, {{Kind: "tls"}, ip("ip6", "::2")}}
	for _, h := range hostForms {
		for _, p := range portForms {
			for _, t := range tails {
				cs := append(append(append([]comp{}, h...), p...), t...)
				if len(cs) == 0 {
					continue
				}
				var sb strings.Builder
				var terms []string
				for _, k := range cs {
					sb.WriteString(k.text())
					terms = append(terms, k.coq())
				}
				s := sb.String()
				ma, perr := multiaddr.NewMultiaddr(s)
				if perr != nil {
					continue // e.g. two tcp components are fine, but keep to what parses
				}
				var got string
				var err error
				panicked := ""
				func() {
					defer func() {
						if r := recover(); r != nil {
							panicked = fmt.Sprint(r)
						}
					}()
					a, e := mautil.MultiaddrStringToNetAddr(s)
					err = e
					if e == nil {
						got = a.String()
					}
				}()
				c.Eval()
				c.Count("parse:netaddr")
				rp := replay{Kind: "netaddr", A: []string{s}, Port: -1}
				if panicked != "" {
					c.Fail("netaddr:panic:"+s, "MultiaddrStringToNetAddr panicked: "+panicked, rp)
					continue
				}
				obs := "(Err 0)"
				if err == nil {
					obs = "(Ok " + vlib.CoqBytes([]byte(got)) + ")"
					// direct oracle: the same endpoint as maurl.ToURL's host:port (a bare IPv6 is bracketed in a URL)
					if u, uerr := maurl.ToURL(ma); uerr != nil || (u.Host != got && u.Host != "["+got+"]") {
						c.Fail("netaddr:differs-from-tourl:"+s, fmt.Sprintf("MultiaddrStringToNetAddr(%s) = %s, maurl.ToURL gives host %v (%v)", s, got, u, uerr), rp)
					}
				}
				c.Case("netaddr", fmt.Sprintf("(%s, %s)", vlib.CoqList(terms), obs), rp)
			}
		}
	}
	for _, j := range junkStrings {
		func() {
			defer func() {
				if r := recover(); r != nil {
					c.Fail("netaddr:panic:"+strconv.Quote(j), fmt.Sprint("MultiaddrStringToNetAddr panicked: ", r), replay{Kind: "netaddr", A: []string{j}, Port: -1})
				}
			}()
			if a, err := mautil.MultiaddrStringToNetAddr(j); err == nil {
				c.Fail("netaddr:accepts-junk:"+strconv.Quote(j), fmt.Sprintf("MultiaddrStringToNetAddr(%q) = %v", j, a), replay{Kind: "netaddr", A: []string{j}, Port: -1})
			}
			c.Eval()
			c.Count("parse:netaddr-junk")
		}()
	}

	// ---- legacy httpath given in binary form: a value with a slash is refused (pathVal), never a panic;
	// an accepted one converts to its path-unescaped value
	for _, v := range []string{"a", "a/b", "/", "a%2Fb", "", "x/"} {
		raw := append(append(multiaddr.CodeToVarint(0x300200), multiaddr.CodeToVarint(len(v))...), v...)
		blk := append(mustBytes("/dns/example.com/http"), raw...)
		var ma multiaddr.Multiaddr
		var err error
		panicked := ""
		func() {
			defer func() {
				if r := recover(); r != nil {
					panicked = fmt.Sprint(r)
				}
			}()
			ma, err = multiaddr.NewMultiaddrBytes(blk)
		}()
		c.Eval()
		c.Count("parse:httpath-bytes")
		switch {
		case panicked != "":
			c.Fail("httpath-bytes:panic:"+strconv.Quote(v), "NewMultiaddrBytes panicked: "+panicked, nil)
		case strings.Contains(v, "/") && err == nil:
			c.Fail("httpath-bytes:accepts-slash:"+strconv.Quote(v), "an httpath value containing a slash was accepted", nil)
		case !strings.Contains(v, "/") && v != "" && err != nil:
			c.Fail("httpath-bytes:rejects:"+strconv.Quote(v), "a slash-free httpath value was rejected: "+err.Error(), nil)
		case err == nil:
			want, uerr := url.PathUnescape(v)
			if uerr != nil {
				want = ""
			}
			if u, e := maurl.ToURL(ma); e != nil || u.Path != want {
				c.Fail("httpath-bytes:path:"+strconv.Quote(v), fmt.Sprintf("ToURL of httpath %q gives %v (%v), want path %q", v, u, e, want), nil)
			}
		}
	}

	// ---- FromURL with a scheme that has no multiaddr protocol: an error, never a panic
	for _, sch := range []string{"ftp", "", "HTTP", "http+unix", "p2p", "tcp"} {
		u := &url.URL{Scheme: sch, Host: "example.com:80", Path: "/x"}
		panicked := ""
		var err error
		func() {
			defer func() {
				if r := recover(); r != nil {
					panicked = fmt.Sprint(r)
				}
			}()
			_, err = maurl.FromURL(u)
		}()
		c.Eval()
		c.Count("parse:fromurl-scheme")
		if panicked != "" {
			c.Fail("fromurl:scheme:panic:"+sch, "FromURL panicked: "+panicked, nil)
		} else if err == nil && sch != "http" && sch != "https" && sch != "ws" && sch != "wss" && sch != "tcp" && sch != "p2p" {
			c.Fail("fromurl:scheme:accepted:"+sch, "FromURL accepted scheme "+strconv.Quote(sch), nil)
		}
	}
}

func mustBytes(s string) []byte {
	m, err := multiaddr.NewMultiaddr(s)
	if err != nil {
		panic(err)
	}
	return m.Bytes()
}
