package main

// Generated addresses for FilterPublic and an oracle computed from the address TEXT with
// net/netip (independent of go-multiaddr/net): shapes {ip4, ip6, ip6zone+ip6, dns*} x
// {nothing, /tcp, /udp, /http, /https, /tls/http, /tcp/http, /tcp/https, /http/http-path}
// x IP classes.  An IP followed directly by http / https / tls is exactly what
// maurl.FromURL builds for a URL without an explicit port.  Plus the composed chain
// URL -> maurl.FromURL -> mautil.FilterPublic.

import (
	"fmt"
	"net/netip"
	"net/url"
	"strings"

	"github.com/ipni/go-libipni/maurl"
	"github.com/ipni/go-libipni/mautil"
	"github.com/multiformats/go-multiaddr"

	"verif/harness/vlib"
)

var genSuffixes = []string{"", "/tcp/8080", "/udp/4001", "/http", "/https", "/tls/http", "/tcp/8080/http", "/tcp/8080/https", "/http/http-path/%2Fipni"}

var genIP4 = []string{"8.8.8.8", "1.1.1.1", "127.0.0.1", "127.9.9.9", "10.1.2.3", "172.16.0.1", "192.168.7.7", "169.254.10.10", "0.0.0.0", "100.64.1.1", "224.0.0.251", "255.255.255.255"}
var genIP6 = []string{"2a00:1450:400e:80d::200e", "2606:4700::1111", "::1", "fc00::1", "fd12:3456::1", "fe80::1", "::", "ff02::1", "2001:db8::1"}
var genZoned = []string{"fe80::1", "2a00::1", "::1", "::"}
var genNames = []string{"localhost", "example.com"}

var cgnat = netip.MustParsePrefix("100.64.0.0/10")

// textClass: the class of an IP by net/netip alone
func textClass(ip netip.Addr) string {
	ip = ip.Unmap()
	switch {
	case ip.IsUnspecified():
		return "unspecified"
	case ip.IsLoopback():
		return "loopback"
	case ip.IsPrivate():
		return "private"
	case ip.IsLinkLocalUnicast():
		return "link-local"
	case cgnat.Contains(ip):
		return "cgnat"
	case ip.IsMulticast() || ip.IsLinkLocalMulticast() || ip.IsInterfaceLocalMulticast():
		return "multicast"
	}
	return "other"
}

// textDrop: must FilterPublic drop the address, judged from its text alone?  ("" = no claim)
// loopback, private, unspecified and localhost are named by the property; link-local and
// carrier-grade-NAT space are private address space too (go-multiaddr lists them as such).
func textDrop(text string) string {
	if !strings.HasPrefix(text, "/") {
		return ""
	}
	parts := strings.Split(text[1:], "/")
	if len(parts) >= 4 && parts[0] == "ip6zone" {
		parts = parts[2:]
	}
	if len(parts) < 2 {
		return ""
	}
	switch parts[0] {
	case "ip4", "ip6":
		ip, err := netip.ParseAddr(parts[1])
		if err != nil {
			return ""
		}
		switch k := textClass(ip); k {
		case "unspecified", "loopback", "private", "link-local", "cgnat":
			return k
		}
	case "dns", "dns4", "dns6", "dnsaddr":
		if parts[1] == "localhost" {
			return "localhost"
		}
	}
	return ""
}

func classOfIP(s string) string {
	switch textClass(netip.MustParseAddr(s)) {
	case "unspecified":
		return "KUnspecified"
	case "loopback":
		return "KLoopback"
	case "private", "link-local", "cgnat":
		return "KPrivate"
	case "multicast":
		return "KUnroutableIP"
	}
	switch s {
	case "255.255.255.255", "2001:db8::1":
		return "KUnroutableIP"
	}
	return "KPublicIP"
}

// genPoolSpec: the generated addresses, classed by construction
func genPoolSpec() []struct{ class, text string } {
	var out []struct{ class, text string }
	add := func(class, text string) { out = append(out, struct{ class, text string }{class, text}) }
	for _, suf := range genSuffixes {
		for _, ip := range genIP4 {
			add(classOfIP(ip), "/ip4/"+ip+suf)
		}
		for _, ip := range genIP6 {
			add(classOfIP(ip), "/ip6/"+ip+suf)
		}
		for _, ip := range genZoned {
			add(classOfIP(ip), "/ip6zone/eth0/ip6/"+ip+suf)
		}
		for _, proto := range []string{"dns", "dns4", "dns6", "dnsaddr"} {
			for _, n := range genNames {
				cl := "KPublicName"
				if n == "localhost" {
					cl = "KLocalhost"
				}
				add(cl, "/"+proto+"/"+n+suf)
			}
		}
	}
	return out
}

// runChain: a publisher URL whose host is a non-public IP (or localhost), converted by
// maurl.FromURL, never survives mautil.FilterPublic; one with a public host does.
func runChain(c *vlib.Ctx) {
	type host struct{ text, url string }
	var hosts []host
	for _, ip := range genIP4 {
		hosts = append(hosts, host{ip, ip})
	}
	for _, ip := range genIP6 {
		hosts = append(hosts, host{ip, "[" + ip + "]"})
	}
	for _, n := range genNames {
		hosts = append(hosts, host{n, n})
	}
	for _, h := range hosts {
		for _, port := range []string{"", ":8080"} {
			for _, scheme := range []string{"http", "https"} {
				for _, path := range []string{"", "/ipni"} {
					u := &url.URL{Scheme: scheme, Host: h.url + port, Path: path}
					var out []multiaddr.Multiaddr
					var ma multiaddr.Multiaddr
					g := func() (msg string) {
						defer func() {
							if r := recover(); r != nil {
								msg = fmt.Sprint("panic: ", r)
							}
						}()
						var err error
						ma, err = maurl.FromURL(u)
						if err != nil {
							return "FromURL: " + err.Error()
						}
						out = mautil.FilterPublic([]multiaddr.Multiaddr{ma})
						return ""
					}()
					c.Eval()
					c.Count("chain:fp")
					rp := replay{Kind: "list", Fn: "fp", Port: -1}
					if ma != nil {
						rp.A = []string{ma.String()}
					}
					if g != "" {
						c.Fail("chain:fp:error:"+u.String(), g, rp)
						continue
					}
					why := ""
					if ip, err := netip.ParseAddr(h.text); err == nil {
						switch k := textClass(ip); k {
						case "unspecified", "loopback", "private", "link-local", "cgnat":
							why = k
						}
					} else if h.text == "localhost" {
						why = "localhost"
					}
					public := h.text == "example.com" || (why == "" && classOfIPSafe(h.text) == "KPublicIP")
					switch {
					case why != "" && len(out) != 0:
						c.Fail("chain:fp:returns:"+why+":"+u.String(), fmt.Sprintf("publisher URL %s has a %s host; maurl.FromURL gives %s and mautil.FilterPublic returns it as public", u, why, ma), rp)
					case public && len(out) != 1:
						c.Fail("chain:fp:drops:public:"+u.String(), fmt.Sprintf("publisher URL %s has a public host; maurl.FromURL gives %s and mautil.FilterPublic drops it", u, ma), rp)
					}
					if why != "" {
						c.Nontrivial("chain:" + u.String())
					}
				}
			}
		}
	}
}

func classOfIPSafe(s string) string {
	if _, err := netip.ParseAddr(s); err != nil {
		return ""
	}
	return classOfIP(s)
}
