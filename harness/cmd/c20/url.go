package main

import (
	"bytes"
	"encoding/hex"
	"fmt"
	"net"
	"net/url"
	"strconv"
	"strings"

	"github.com/ipni/go-libipni/maurl"
	"github.com/multiformats/go-multiaddr"

	"verif/harness/vlib"
)

type urlCase struct {
	Scheme string
	HKind  string // ip4 | ip6 | dns
	Host   string // no brackets
	Port   int    // -1 absent
	Path   []byte // u.Path (decoded)
	Via    string // direct | parse
}

func (u urlCase) replay() replay {
	return replay{Kind: "url", Scheme: u.Scheme, HKind: u.HKind, Host: u.Host, Port: u.Port, Path: hx(u.Path), Via: u.Via}
}

func (u urlCase) hostString() string {
	h := u.Host
	if u.HKind == "ip6" {
		h = "[" + h + "]"
	}
	if u.Port >= 0 {
		h += ":" + strconv.Itoa(u.Port)
	}
	return h
}

func coqScheme(s string) string {
	switch s {
	case "http":
		return "SHttp"
	case "https":
		return "SHttps"
	case "ws":
		return "SWs"
	case "wss":
		return "SWss"
	}
	panic("scheme " + s)
}

func (u urlCase) coq() string {
	hk := map[string]string{"ip4": "HIp4", "ip6": "HIp6", "dns": "HDns"}[u.HKind]
	port := "None"
	if u.Port >= 0 {
		port = fmt.Sprintf("(Some %d)", u.Port)
	}
	return fmt.Sprintf("(Build_url %s %s %s %s %s)", coqScheme(u.Scheme), hk, vlib.CoqBytes([]byte(u.Host)), port, vlib.CoqBytes(u.Path))
}

func coqURLOut(u *url.URL) string {
	return fmt.Sprintf("(Build_urlout %s %s %s)", coqScheme(u.Scheme), vlib.CoqBytes([]byte(u.Host)), vlib.CoqBytes([]byte(u.Path)))
}

// build returns the *url.URL the way a caller would have it
func (u urlCase) build() *url.URL {
	if u.Via == "parse" {
		raw := u.Scheme + "://" + u.hostString() + (&url.URL{Path: string(u.Path)}).EscapedPath()
		pu, err := url.Parse(raw)
		if err != nil {
			panic(fmt.Sprintf("harness: cannot parse %q: %v", raw, err))
		}
		if pu.Path != string(u.Path) || pu.Host != u.hostString() {
			panic(fmt.Sprintf("harness: %q parsed to host %q path %q, wanted %q %q", raw, pu.Host, pu.Path, u.hostString(), u.Path))
		}
		return pu
	}
	return &url.URL{Scheme: u.Scheme, Host: u.hostString(), Path: string(u.Path)}
}

type convObs struct {
	panicked string
	fromErr  error
	ma       multiaddr.Multiaddr
	toErr    error
	back     *url.URL
}

func convert(u *url.URL) (o convObs) {
	defer func() {
		if r := recover(); r != nil {
			o.panicked = fmt.Sprint(r)
		}
	}()
	o.ma, o.fromErr = maurl.FromURL(u)
	if o.fromErr != nil {
		return
	}
	o.back, o.toErr = maurl.ToURL(o.ma)
	return
}

// httpPathRaw returns the raw bytes of the first http-path component
func httpPathRaw(ma multiaddr.Multiaddr) ([]byte, bool) {
	for _, comp := range ma {
		if comp.Protocol().Code == multiaddr.P_HTTP_PATH {
			return comp.RawValue(), true
		}
	}
	return nil, false
}

// urlOracle: what the property demands of ToURL(FromURL(u)), independent of the model.
// Returns (class, message); class "" = fine.
func urlOracle(uc urlCase, u *url.URL, o convObs) (string, string) {
	if o.panicked != "" {
		return "panic", "FromURL/ToURL panicked: " + o.panicked
	}
	valid := uc.Port <= 65535 && !(uc.HKind == "dns" && (uc.Host == "" || strings.Contains(uc.Host, "/")))
	if !valid {
		if o.fromErr == nil {
			return "accepts-invalid", "FromURL accepted a URL with an unrepresentable host or port"
		}
		return "", ""
	}
	if o.fromErr != nil {
		return "from-err", "FromURL rejects a valid URL: " + o.fromErr.Error()
	}
	if o.toErr != nil {
		return "to-err", "ToURL rejects the multiaddr FromURL made: " + o.toErr.Error()
	}
	b := o.back
	if b.Scheme != u.Scheme {
		return "scheme", fmt.Sprintf("scheme %q came back as %q", u.Scheme, b.Scheme)
	}
	if b.Host != u.Host || b.Hostname() != u.Hostname() || b.Port() != u.Port() {
		return "host", fmt.Sprintf("host %q came back as %q", u.Host, b.Host)
	}
	if b.Path != u.Path {
		return "path", fmt.Sprintf("path %q came back as %q (multiaddr %s)", u.Path, b.Path, o.ma)
	}
	// the multiaddr itself must denote the advertised path: other consumers read http-path
	raw, ok := httpPathRaw(o.ma)
	if u.Path == "" {
		if ok {
			return "ma-path", "multiaddr carries an http-path for an empty path"
		}
	} else if !ok || !bytes.Equal(raw, []byte(u.Path)) {
		return "ma-path", fmt.Sprintf("http-path component of %s holds %q, the URL path is %q", o.ma, raw, u.Path)
	}
	// string form is stable
	if m2, err := multiaddr.NewMultiaddr(o.ma.String()); err != nil || !m2.Equal(o.ma) {
		return "ma-string", fmt.Sprintf("multiaddr %s does not re-parse to itself (%v)", o.ma, err)
	}
	return "", ""
}

func doURL(c *vlib.Ctx, uc urlCase, verbose bool) {
	u := uc.build()
	o := convert(u)
	c.Eval()
	c.Count("url:host:" + uc.HKind)
	if uc.Port < 0 {
		c.Count("url:port:absent")
	} else {
		c.Count("url:port:present")
	}
	c.Count("url:via:" + uc.Via)
	nontrivial := uc.HKind == "ip6" || uc.Port >= 0
	for _, b := range uc.Path {
		if url.PathEscape(string([]byte{b})) != string([]byte{b}) || url.QueryEscape(string([]byte{b})) != string([]byte{b}) {
			nontrivial = true
		}
	}
	if nontrivial {
		c.Nontrivial("url:" + uc.Scheme + uc.hostString() + hx(uc.Path))
	}
	var maT, backT string
	switch {
	case o.panicked != "":
		maT, backT = "(Panic 0)", "(Panic 0)"
	case o.fromErr != nil:
		maT, backT = "(Err 0)", "(Err 0)"
		c.Count("url:from-err")
	default:
		maT = "(Ok " + vlib.CoqBytes([]byte(o.ma.String())) + ")"
		if o.toErr != nil {
			backT = "(Err 0)"
		} else {
			backT = "(Ok " + coqURLOut(o.back) + ")"
		}
		c.Count("url:ok")
	}
	c.Case("url", fmt.Sprintf("(%s, %s, %s)", uc.coq(), maT, backT), uc.replay())
	sample(c, "url", uc.HKind == "ip6" && uc.Port >= 0 && bytes.IndexByte(uc.Path, ' ') >= 0 && o.fromErr == nil && o.panicked == "", uc.replay(), fmt.Sprintf("multiaddr %v, back %v", o.ma, o.back))
	if verbose {
		fmt.Printf("url %s host=%q path=%q -> ma=%v err=%v -> back=%v err=%v panic=%q\n", u.Scheme, u.Host, u.Path, o.ma, o.fromErr, o.back, o.toErr, o.panicked)
	}
	if cls, msg := urlOracle(uc, u, o); cls != "" {
		// shrink the path, then simplify host/port, keeping the same failure class
		fails := func(x urlCase) bool {
			if x.Via == "parse" && len(x.Path) > 0 && x.Path[0] != '/' {
				x.Via = "direct"
			}
			xu := x.build()
			k, _ := urlOracle(x, xu, convert(xu))
			return k == cls
		}
		min := uc
		min.Via = "direct"
		if !fails(min) {
			min = uc
		}
		min.Path = shrinkBytes(min.Path, func(p []byte) bool { t := min; t.Path = p; return fails(t) })
		if t := min; true {
			t.HKind, t.Host = "dns", "example.com"
			if fails(t) {
				min = t
			}
		}
		if t := min; t.Port >= 0 {
			t.Port = -1
			if fails(t) {
				min = t
			}
		}
		if t := min; t.Scheme != "http" {
			t.Scheme = "http"
			if fails(t) {
				min = t
			}
		}
		mu := min.build()
		_, mmsg := urlOracle(min, mu, convert(mu))
		if mmsg == "" {
			mmsg = msg
		}
		sig := fmt.Sprintf("url:%s:%s://%s path=%s", cls, min.Scheme, min.hostString(), strconv.QuoteToASCII(string(min.Path)))
		c.Fail(sig, mmsg, min.replay())
		if verbose {
			fmt.Println("ORACLE-FAIL:", sig, "::", mmsg)
		}
	}
}

// segments: the path structure a server sees: split the escaped path on raw '/', then decode each segment
func segments(escaped string) []string {
	parts := strings.Split(escaped, "/")
	for i, p := range parts {
		if d, err := url.PathUnescape(p); err == nil {
			parts[i] = d
		}
	}
	return parts
}

// doRawURL: a URL given as text (may carry escapes that url.Parse keeps in RawPath)
func doRawURL(c *vlib.Ctx, raw string, verbose bool) {
	u, err := url.Parse(raw)
	if err != nil {
		c.Count("rawurl:parse-err")
		return
	}
	o := convert(u)
	c.Eval()
	c.Count("rawurl")
	if verbose {
		fmt.Printf("rawurl %q: Path=%q RawPath=%q -> ma=%v err=%v -> back=%v err=%v panic=%q\n", raw, u.Path, u.RawPath, o.ma, o.fromErr, o.back, o.toErr, o.panicked)
	}
	if o.panicked != "" {
		c.Fail("rawurl:panic:"+raw, "panic: "+o.panicked, replay{Kind: "rawurl", Raw: raw})
		return
	}
	if o.fromErr != nil || o.toErr != nil {
		c.Fail("rawurl:err:"+raw, fmt.Sprintf("conversion failed: %v %v", o.fromErr, o.toErr), replay{Kind: "rawurl", Raw: raw})
		return
	}
	if o.back.Path != u.Path {
		// reported by the url family with a shrunk signature; here only the structure oracle
		return
	}
	want, got := segments(u.EscapedPath()), segments(o.back.EscapedPath())
	if strings.Join(want, "\x00/") != strings.Join(got, "\x00/") {
		// one signature for the whole class: an escaped slash inside a segment cannot be
		// represented (url.URL.RawPath is not carried by the multiaddr)
		c.Fail("rawurl:encoded-slash-in-segment", fmt.Sprintf("%q asks for segments %q; after FromURL/ToURL the client requests %q = segments %q", raw, want[1:], o.back.EscapedPath(), got[1:]),
			replay{Kind: "rawurl", Raw: "http://example.com/a%2Fb"})
		if verbose {
			fmt.Println("ORACLE-FAIL: rawurl:encoded-slash-in-segment")
		}
	}
}

var (
	hosts4   = []string{"1.2.3.4", "127.0.0.1", "0.0.0.0", "255.255.255.255", "192.168.0.1"}
	hosts6   = []string{"::1", "2001:db8::1", "::", "2a00:1450:400e:80d::200e", "fe80::1", "1:2:3:4:5:6:7:8", "2001:db8:0:1::", "64:ff9b::102:304"}
	hostsDNS = []string{"example.com", "localhost", "a", "xn--bcher-kva.example", "a-b_c.example.", "EXAMPLE.com", "sub.domain.example.org"}
	ports    = []int{-1, 0, 80, 443, 8080, 65535, 65536, 99999}
)

func checkCanonicalHosts() {
	for _, h := range append(append([]string{}, hosts4...), hosts6...) {
		ip := net.ParseIP(h)
		if ip == nil || ip.String() != h {
			panic("harness: host " + h + " is not canonical IP text")
		}
	}
	for _, h := range hosts6 {
		if net.ParseIP(h).To4() != nil {
			panic("harness: " + h + " is IPv4-mapped")
		}
	}
	for _, h := range hostsDNS {
		if net.ParseIP(h) != nil {
			panic("harness: dns host parses as IP: " + h)
		}
	}
}

func runURL(c *vlib.Ctx) {
	checkCanonicalHosts()
	type hk struct{ kind, host string }
	var hs []hk
	for _, h := range hosts4 {
		hs = append(hs, hk{"ip4", h})
	}
	for _, h := range hosts6 {
		hs = append(hs, hk{"ip6", h})
	}
	for _, h := range hostsDNS {
		hs = append(hs, hk{"dns", h})
	}
	via := func(p []byte) string {
		if len(p) == 0 || p[0] == '/' {
			return "parse"
		}
		return "direct"
	}
	// 1. cross product on representative paths
	repPaths := []string{"", "/", "/a/b", "/a b", "/a+b", "/ipni/v1/ad/head", "//x//", "/%2F%41", "/\u00e9t\u00e9/\xff"}
	for _, h := range hs {
		for _, p := range ports {
			for _, s := range []string{"http", "https"} {
				for _, path := range repPaths {
					doURL(c, urlCase{Scheme: s, HKind: h.kind, Host: h.host, Port: p, Path: []byte(path), Via: via([]byte(path))}, false)
				}
			}
		}
	}
	for _, s := range []string{"ws", "wss"} {
		for _, h := range []hk{{"ip4", "1.2.3.4"}, {"ip6", "::1"}, {"dns", "example.com"}} {
			for _, p := range []int{-1, 443} {
				doURL(c, urlCase{Scheme: s, HKind: h.kind, Host: h.host, Port: p, Path: []byte("/x y"), Via: "parse"}, false)
			}
		}
	}
	// invalid hosts
	doURL(c, urlCase{Scheme: "http", HKind: "dns", Host: "", Port: -1, Path: []byte("/x"), Via: "direct"}, false)
	doURL(c, urlCase{Scheme: "http", HKind: "dns", Host: "a/b", Port: -1, Path: []byte("/x"), Via: "direct"}, false)
	// 2. every one-byte segment, with and without the leading slash, as a URL (parse) and directly
	bases := []urlCase{{Scheme: "http", HKind: "dns", Host: "example.com", Port: -1}, {Scheme: "https", HKind: "ip6", Host: "2001:db8::1", Port: 8080}}
	for _, base := range bases {
		for b := 0; b < 256; b++ {
			for _, p := range [][]byte{{'/', byte(b)}, {byte(b)}, {'/', 'a', byte(b), 'b'}} {
				u := base
				u.Path, u.Via = p, via(p)
				doURL(c, u, false)
				if u.Via == "parse" && base.Port < 0 {
					u.Via = "direct"
					doURL(c, u, false)
				}
			}
		}
	}
	// 3. pairs and triples around the special characters
	base := bases[0]
	for _, x := range special {
		for _, y := range special {
			u := base
			u.Path, u.Via = []byte{'/', x, y}, "parse"
			doURL(c, u, false)
		}
	}
	for _, x := range core {
		for _, y := range core {
			for _, z := range core {
				u := base
				u.Path, u.Via = []byte{'/', x, y, z}, "parse"
				doURL(c, u, false)
			}
		}
	}
	// 4. seeded longer paths over all hosts
	rng := c.Rng.Fork("urlpaths")
	for i := 0; i < c.Pick(700, 15000); i++ {
		n := 1 + rng.Intn(40)
		p := make([]byte, 0, n+1)
		if rng.Intn(8) != 0 {
			p = append(p, '/')
		}
		for j := 0; j < n; j++ {
			switch rng.Intn(6) {
			case 0:
				p = append(p, special[rng.Intn(len(special))])
			case 1:
				p = append(p, '/')
			case 2:
				p = append(p, byte(rng.Intn(256)))
			case 3:
				p = append(p, []byte(fmt.Sprintf("%%%02X", rng.Intn(256)))...)
			default:
				p = append(p, "abcxyzABC0189-_.~"[rng.Intn(17)])
			}
		}
		h := hs[rng.Intn(len(hs))]
		u := urlCase{Scheme: []string{"http", "https"}[rng.Intn(2)], HKind: h.kind, Host: h.host, Port: ports[rng.Intn(6)], Path: p, Via: via(p)}
		if rng.Intn(4) == 0 {
			u.Port = rng.Intn(65536)
		}
		doURL(c, u, false)
	}
	// 5. URLs as text whose escapes url.Parse keeps in RawPath
	for _, raw := range []string{
		"http://example.com/a%2Fb", "http://example.com/a%2fb/c", "https://[2001:db8::1]:8080/%2F", "http://example.com/x/%2F%2F/y",
		"http://example.com/%41", "http://example.com/a%2Bb", "http://example.com/a%3Bb", "http://example.com/a%2Cb", "http://example.com/%7Euser",
		"http://example.com/a!b", "http://example.com/a%21b", "http://example.com/a%20b", "http://example.com/a+b", "http://example.com/%ff%FE",
		"http://example.com/a%3Fb%23c", "http://example.com/a%25b", "http://example.com/a%252Fb", "http://example.com/a;p=1/b,c", "http://example.com/a:b@c$d&e=f",
		"http://example.com/a/./b/../c", "http://example.com//", "http://1.2.3.4:080/x", "http://example.com:/x", "http://user:pw@example.com/x", "http://example.com/x?q=1#f",
	} {
		doRawURL(c, raw, false)
	}
}

// ---------------------------------------------------------------------------
// ToURL on parsed multiaddrs

type comp struct {
	Kind string // ip4 ip6 ip6zone dns dns4 dns6 tcp udp http https tls ws wss http-path httpath other
	Val  []byte // text value (ip/dns/zone), raw bytes (http-path), string value (httpath), string without leading slash (other)
	Port int
	Str  string // how it is written in the multiaddr string (http-path: the escaped form used)
}

type compJ struct {
	Kind string `json:"kind"`
	Val  string `json:"val_hex,omitempty"`
	Port int    `json:"port,omitempty"`
	Str  string `json:"str,omitempty"`
}

func (k comp) json() compJ               { return compJ{k.Kind, hx(k.Val), k.Port, k.Str} }
func (j compJ) comp() comp               { v, _ := hexDecode(j.Val); return comp{j.Kind, v, j.Port, j.Str} }
func hexDecode(s string) ([]byte, error) { return hex.DecodeString(s) }

func (k comp) text() string {
	switch k.Kind {
	case "ip4", "ip6", "ip6zone", "dns", "dns4", "dns6":
		return "/" + k.Kind + "/" + string(k.Val)
	case "tcp", "udp":
		return "/" + k.Kind + "/" + strconv.Itoa(k.Port)
	case "http", "https", "tls", "ws", "wss":
		return "/" + k.Kind
	case "http-path":
		return "/http-path/" + k.Str
	case "httpath":
		return "/httpath/" + string(k.Val)
	case "other":
		return "/" + string(k.Val)
	}
	panic("comp kind " + k.Kind)
}

func (k comp) coq() string {
	switch k.Kind {
	case "ip4":
		return "(CIp4 " + vlib.CoqBytes(k.Val) + ")"
	case "ip6":
		return "(CIp6 " + vlib.CoqBytes(k.Val) + ")"
	case "ip6zone":
		return "(CIp6Zone " + vlib.CoqBytes(k.Val) + ")"
	case "dns":
		return "(CDns " + vlib.CoqBytes(k.Val) + ")"
	case "dns4":
		return "(CDns4 " + vlib.CoqBytes(k.Val) + ")"
	case "dns6":
		return "(CDns6 " + vlib.CoqBytes(k.Val) + ")"
	case "tcp":
		return fmt.Sprintf("(CTcp %d)", k.Port)
	case "udp":
		return fmt.Sprintf("(CUdp %d)", k.Port)
	case "http":
		return "CHttp"
	case "https":
		return "CHttps"
	case "tls":
		return "CTls"
	case "ws":
		return "CWs"
	case "wss":
		return "CWss"
	case "http-path":
		return "(CHttpPath " + vlib.CoqBytes(k.Val) + ")"
	case "httpath":
		return "(CHttpath " + vlib.CoqBytes(k.Val) + ")"
	case "other":
		return "(COther " + vlib.CoqBytes(k.Val) + ")"
	}
	panic("comp kind " + k.Kind)
}

func hasKind(cs []comp, k string) bool {
	for _, x := range cs {
		if x.Kind == k {
			return true
		}
	}
	return false
}

func doToURL(c *vlib.Ctx, cs []comp, verbose bool) {
	var sb strings.Builder
	var terms []string
	var js []compJ
	for _, k := range cs {
		sb.WriteString(k.text())
		terms = append(terms, k.coq())
		js = append(js, k.json())
	}
	rp := replay{Kind: "tourl", Comps: js}
	var ma multiaddr.Multiaddr
	if len(cs) > 0 {
		var err error
		ma, err = multiaddr.NewMultiaddr(sb.String())
		if err != nil {
			panic(fmt.Sprintf("harness: multiaddr %q does not parse: %v", sb.String(), err))
		}
		// the harness' component list must be what go-multiaddr parsed (http-path raw bytes in particular)
		if len(ma) != len(cs) {
			panic(fmt.Sprintf("harness: %q parsed into %d components, wanted %d", sb.String(), len(ma), len(cs)))
		}
		for i, k := range cs {
			if k.Kind == "http-path" && !bytes.Equal(ma[i].RawValue(), k.Val) {
				c.Fail("tourl:http-path-parse:"+k.Str, fmt.Sprintf("/http-path/%s parsed to raw %q, the harness meant %q", k.Str, ma[i].RawValue(), k.Val), rp)
			}
		}
	}
	var back *url.URL
	var err error
	panicked := ""
	func() {
		defer func() {
			if r := recover(); r != nil {
				panicked = fmt.Sprint(r)
			}
		}()
		back, err = maurl.ToURL(ma)
	}()
	c.Eval()
	obs := ""
	switch {
	case panicked != "":
		obs = "(Panic 0)"
		c.Fail("tourl:panic:"+sb.String(), "ToURL panicked: "+panicked, rp)
	case err != nil:
		obs = "(Err 0)"
		c.Count("tourl:err")
	default:
		obs = "(Ok " + coqURLOut(back) + ")"
		c.Count("tourl:ok")
		// direct oracle: /tls/http and /https both are https
		wantHTTPS := hasKind(cs, "https") || (hasKind(cs, "http") && hasKind(cs, "tls"))
		if wantHTTPS && back.Scheme != "https" {
			c.Fail("tourl:tls-http-not-https:"+sb.String(), fmt.Sprintf("%s converts to scheme %q", sb.String(), back.Scheme), rp)
		}
		if !wantHTTPS && hasKind(cs, "http") && back.Scheme != "http" {
			c.Fail("tourl:plain-http-not-http:"+sb.String(), fmt.Sprintf("%s converts to scheme %q", sb.String(), back.Scheme), rp)
		}
		// the path is the bytes of the first http-path component
		for _, k := range cs {
			if k.Kind == "http-path" {
				if back.Path != string(k.Val) {
					min := shrinkBytes(k.Val, func(p []byte) bool {
						if len(p) == 0 {
							return false
						}
						m, e := multiaddr.NewMultiaddr("/dns/example.com/http/http-path/" + url.QueryEscape(string(p)))
						if e != nil {
							return false
						}
						u, e := maurl.ToURL(m)
						return e == nil && u.Path != string(p)
					})
					c.Fail("tourl:http-path:"+strconv.QuoteToASCII(string(min)), fmt.Sprintf("%s: http-path holds %q, ToURL gives path %q", sb.String(), k.Val, back.Path),
						replay{Kind: "tourl", Comps: []compJ{comp{Kind: "dns", Val: []byte("example.com")}.json(), comp{Kind: "http"}.json(), comp{Kind: "http-path", Val: min, Str: url.QueryEscape(string(min))}.json()}})
				}
				break
			}
		}
	}
	if hasKind(cs, "tls") || hasKind(cs, "https") || hasKind(cs, "http-path") || hasKind(cs, "httpath") {
		c.Nontrivial("tourl:" + sb.String())
	}
	c.Case("tourl", fmt.Sprintf("(%s, %s, %s)", vlib.CoqList(terms), vlib.CoqBytes([]byte(ma.String())), obs), rp)
	sample(c, "tourl", hasKind(cs, "tls") && hasKind(cs, "http") && err == nil && panicked == "", sb.String(), fmt.Sprint(back))
	if verbose {
		fmt.Printf("tourl %s -> %v err=%v panic=%q\n", sb.String(), back, err, panicked)
	}
}

// alternative spellings of the same http-path bytes in a multiaddr string
func hpSpellings(raw []byte) []string {
	q := url.QueryEscape(string(raw))
	all := ""
	lower := ""
	for _, b := range raw {
		all += fmt.Sprintf("%%%02X", b)
		lower += fmt.Sprintf("%%%02x", b)
	}
	out := []string{q, all}
	if lower != all {
		out = append(out, lower)
	}
	if p := strings.ReplaceAll(q, "+", "%20"); p != q {
		out = append(out, p)
	}
	return out
}

func runToURL(c *vlib.Ctx) {
	ip := func(k, v string) comp { return comp{Kind: k, Val: []byte(v)} }
	hostForms := [][]comp{
		{ip("ip4", "1.2.3.4")}, {ip("ip6", "::1")}, {ip("ip6", "2001:db8::1")}, {ip("dns", "example.com")}, {ip("dns4", "example.com")}, {ip("dns6", "example.com")},
		{ip("ip6zone", "eth0"), ip("ip6", "fe80::1")},
	}
	portForms := [][]comp{{}, {{Kind: "tcp", Port: 443}}, {{Kind: "tcp", Port: 0}}, {{Kind: "udp", Port: 65535}}}
	tails := [][]comp{{}}
	names := []string{"tls", "http", "https", "ws", "wss"}
	var rec func(cur []comp, used int)
	rec = func(cur []comp, used int) {
		if len(cur) > 0 {
			tails = append(tails, append([]comp{}, cur...))
		}
		if len(cur) == 3 {
			return
		}
		for i, n := range names {
			if used&(1<<i) == 0 {
				rec(append(cur, comp{Kind: n}), used|1<<i)
			}
		}
	}
	rec(nil, 0)
	join := func(parts ...[]comp) []comp {
		var out []comp
		for _, p := range parts {
			out = append(out, p...)
		}
		return out
	}
	for hi, h := range hostForms {
		for pi, p := range portForms {
			if pi >= 2 && hi%3 != 0 {
				continue
			}
			for _, t := range tails {
				doToURL(c, join(h, p, t), false)
			}
		}
	}
	// path components
	raws := [][]byte{[]byte("/"), []byte("/a"), []byte("a"), []byte("/a b"), []byte("/a+b"), []byte("/a%b"), []byte("/a%20b"), []byte("/a%2Bb"), []byte("//a//"), []byte("/\x00\xff"), []byte("/a/b?c#d;e,f"), []byte(" "), []byte("+"), []byte("%"), []byte("%zz")}
	for b := 0; b < 256; b++ {
		raws = append(raws, []byte{'/', byte(b)})
	}
	rng := c.Rng.Fork("tourlpaths")
	for i := 0; i < c.Pick(150, 3000); i++ {
		n := 1 + rng.Intn(20)
		p := make([]byte, n)
		for j := range p {
			if rng.Bool() {
				p[j] = special[rng.Intn(len(special))]
			} else {
				p[j] = byte(rng.Intn(256))
			}
		}
		raws = append(raws, p)
	}
	for i, raw := range raws {
		h := hostForms[i%len(hostForms)]
		p := portForms[i%2]
		sc := []comp{{Kind: []string{"http", "https"}[i%2]}}
		for si, sp := range hpSpellings(raw) {
			if si > 0 && i >= 15 && i%7 != 0 {
				continue
			}
			doToURL(c, join(h, p, sc, []comp{{Kind: "http-path", Val: raw, Str: sp}}), false)
		}
	}
	// legacy httpath: string value, path-escaped by the old publishers
	legacy := []string{"a", "a%2Fb", "ipni%2Fv1", "a+b", "a%20b", "a%2Bb", "a%zz", "a%", "%41", "a%2fb%3F", "x;y,z", "a%25b"}
	for _, v := range legacy {
		doToURL(c, join(hostForms[3], portForms[1], []comp{{Kind: "https"}, {Kind: "httpath", Val: []byte(v)}}), false)
		doToURL(c, join(hostForms[0], []comp{{Kind: "http"}, {Kind: "httpath", Val: []byte(v)}}), false)
	}
	hp := func(raw string) comp { return comp{Kind: "http-path", Val: []byte(raw), Str: url.QueryEscape(raw)} }
	// both kinds, duplicates, odd orders, other components
	doToURL(c, join(hostForms[3], []comp{{Kind: "http"}, {Kind: "httpath", Val: []byte("old")}, hp("/new x")}), false)
	doToURL(c, join(hostForms[3], []comp{{Kind: "http"}, hp("/new+x"), {Kind: "httpath", Val: []byte("old")}}), false)
	doToURL(c, join(hostForms[0], portForms[1], []comp{{Kind: "http"}, hp("/first one"), hp("/second")}), false)
	doToURL(c, join(hostForms[0], []comp{hp("/before scheme"), {Kind: "tls"}, {Kind: "http"}}), false)
	doToURL(c, join(hostForms[0], []comp{{Kind: "http"}, {Kind: "tcp", Port: 80}}), false)
	doToURL(c, join(hostForms[1], portForms[1], []comp{{Kind: "other", Val: []byte("p2p/12D3KooWCryG7Mon9orvQxcS1rYZjotPgpwoJNHHKcLLfE4Hf5mV")}, {Kind: "http"}, hp("/p q")}), false)
	doToURL(c, join(hostForms[0], []comp{{Kind: "udp", Port: 4001}, {Kind: "other", Val: []byte("quic-v1")}}), false)
	// not dialable
	doToURL(c, nil, false)
	doToURL(c, []comp{{Kind: "tcp", Port: 80}, {Kind: "http"}}, false)
	doToURL(c, []comp{{Kind: "http"}}, false)
	doToURL(c, []comp{{Kind: "other", Val: []byte("dnsaddr/example.com")}, {Kind: "tcp", Port: 80}, {Kind: "http"}}, false)
	doToURL(c, []comp{ip("ip6zone", "a"), ip("ip6zone", "b"), ip("ip6", "fe80::1"), {Kind: "http"}}, false)
	doToURL(c, []comp{ip("ip6zone", "a"), ip("ip4", "1.2.3.4"), {Kind: "http"}}, false)
	doToURL(c, []comp{ip("ip6zone", "a"), {Kind: "tcp", Port: 1}}, false)
	doToURL(c, []comp{ip("ip6zone", "a"), ip("dns", "example.com"), {Kind: "tcp", Port: 1}, {Kind: "http"}}, false)
	doToURL(c, []comp{ip("ip6zone", "a"), ip("ip6", "fe80::1"), {Kind: "http"}}, false)
}
