package main

// ipnisync.Syncer.SameAddrs (the library's only caller of mautil.MultiaddrsEqual) against the
// model's multiset equality, and the history it exists for: one subscriber syncing the same
// publisher identity twice, the advertised HTTP address changed in between -- the second sync
// must contact the newly advertised endpoint.

import (
	"bytes"
	"context"
	"fmt"
	"net/http"
	"net/url"
	"sort"
	"strconv"
	"strings"
	"time"

	"github.com/ipfs/go-cid"
	"github.com/ipld/go-ipld-prime"
	cidlink "github.com/ipld/go-ipld-prime/linking/cid"
	"github.com/ipld/go-ipld-prime/storage/memstore"
	"github.com/ipni/go-libipni/dagsync"
	"github.com/ipni/go-libipni/dagsync/ipnisync"
	"github.com/ipni/go-libipni/ingest/schema"
	"github.com/ipni/go-libipni/maurl"
	"github.com/libp2p/go-libp2p/core/peer"
	"github.com/multiformats/go-multiaddr"

	"verif/harness/vlib"
)

func newClientLsys() ipld.LinkSystem {
	l := cidlink.DefaultLinkSystem()
	st := &memstore.Store{}
	l.SetReadStorage(st)
	l.SetWriteStorage(st)
	return l
}

func (w *syncWorld) maddrFor(hkind, base string) multiaddr.Multiaddr {
	host := w.hosts[hkind]
	if hkind == "ip6" {
		host = "[" + host + "]"
	}
	u, err := url.Parse("http://" + host + ":" + strconv.Itoa(w.ports[hkind]) + base)
	if err != nil {
		panic(err)
	}
	m, err := maurl.FromURL(u)
	if err != nil {
		panic(err)
	}
	return m
}

func runSameAddrs(c *vlib.Ctx, w *syncWorld) {
	hk := "ip4"
	if _, ok := w.servers[hk]; !ok {
		hk = "ip6"
	}
	// a universe of four addresses, ranked as bytes.Compare ranks them
	uni := []multiaddr.Multiaddr{w.maddrFor(hk, "/a"), w.maddrFor(hk, "/b"), w.maddrFor(hk, "/c d"), w.maddrFor(hk, "")}
	sort.Slice(uni, func(i, j int) bool { return bytes.Compare(uni[i].Bytes(), uni[j].Bytes()) < 0 })
	pick := func(idx []int) []multiaddr.Multiaddr {
		var out []multiaddr.Multiaddr
		for _, i := range idx {
			out = append(out, uni[i])
		}
		return out
	}
	ids := func(idx []int) []uint64 {
		out := make([]uint64, len(idx))
		for i, x := range idx {
			out[i] = uint64(x + 1)
		}
		return out
	}
	snc := ipnisync.NewSync(newClientLsys(), nil, ipnisync.ClientHTTPTimeout(5*time.Second))
	defer snc.Close()
	w.mu.Lock()
	w.pub, _ = ipnisync.NewPublisher(w.pubLsys, w.key, ipnisync.WithStartServer(false))
	w.mu.Unlock()
	own := [][]int{{0}, {0, 1}, {1, 0, 2}, {0, 0, 1}, {2, 1, 1, 3}}
	asks := [][]int{nil, {}, {0}, {1}, {0, 1}, {1, 0}, {0, 0}, {0, 1, 2}, {2, 0, 1}, {0, 1, 1}, {0, 0, 1}, {1, 0, 0}, {0, 1, 0}, {3, 1, 2, 1}, {1, 1, 2, 3}, {0, 1, 2, 3}, {2, 2, 1, 3}}
	for _, o := range own {
		syncer, err := snc.NewSyncer(peer.AddrInfo{ID: w.pid, Addrs: pick(o)})
		if err != nil {
			panic("harness: NewSyncer: " + err.Error())
		}
		for _, a := range asks {
			arg := pick(a)
			var got bool
			panicked := ""
			func() {
				defer func() {
					if r := recover(); r != nil {
						panicked = fmt.Sprint(r)
					}
				}()
				got = syncer.SameAddrs(arg)
			}()
			c.Eval()
			c.Count("same")
			rp := replay{Kind: "same", A: []string{fmt.Sprint(o)}, B: []string{fmt.Sprint(a)}, Port: -1}
			if panicked != "" {
				c.Fail(fmt.Sprintf("same:panic:%v|%v", o, a), "SameAddrs panicked: "+panicked, rp)
				continue
			}
			c.Case("same", fmt.Sprintf("(%s, %s, %s)", vlib.CoqListN(ids(o)), vlib.CoqListN(ids(a)), vlib.CoqBool(got)), rp)
			cnt := map[int]int{}
			for _, x := range o {
				cnt[x]++
			}
			for _, x := range a {
				cnt[x]--
			}
			want := len(o) == len(a)
			for _, n := range cnt {
				if n != 0 {
					want = false
				}
			}
			if got != want {
				c.Fail(fmt.Sprintf("same:%v|%v", o, a), fmt.Sprintf("a syncer made for addresses %v says SameAddrs(%v) = %v; as multisets they are %sequal", pick(o), arg, got, map[bool]string{true: "", false: "not "}[want]), rp)
			}
		}
	}
}

// runAddrChange: the publisher identity is served under /one (head h1) and under /two (head h2);
// the subscriber syncs it advertised at /one, then advertised at /two
func runAddrChange(c *vlib.Ctx, w *syncWorld) {
	mkAd := func(ctx string) cid.Cid {
		ad := schema.Advertisement{Provider: w.pid.String(), Entries: schema.NoEntries, ContextID: []byte(ctx), Metadata: []byte{1}}
		n, err := ad.ToNode()
		if err != nil {
			panic(err)
		}
		l, err := w.pubLsys.Store(ipld.LinkContext{}, schema.Linkproto, n)
		if err != nil {
			panic(err)
		}
		return l.(cidlink.Link).Cid
	}
	h1, h2 := mkAd("one"), mkAd("two")
	pubs := map[string]*ipnisync.Publisher{}
	for base, root := range map[string]cid.Cid{"one": h1, "two": h2} {
		p, err := ipnisync.NewPublisher(w.pubLsys, w.key, ipnisync.WithHandlerPath(base), ipnisync.WithStartServer(false))
		if err != nil {
			panic(err)
		}
		p.SetRoot(root)
		pubs[base] = p
	}
	w.mu.Lock()
	w.route = func(r *http.Request) *ipnisync.Publisher {
		seg := strings.SplitN(strings.TrimPrefix(r.URL.Path, "/"), "/", 2)[0]
		return pubs[seg]
	}
	w.log = nil
	w.mu.Unlock()
	defer func() { w.mu.Lock(); w.route = nil; w.mu.Unlock() }()
	for _, hk := range []string{"ip4", "ip6"} {
		if _, ok := w.servers[hk]; !ok {
			continue
		}
		c.Eval()
		c.Count("sync:addr-change")
		clause, detail := func() (cl, dt string) {
			defer func() {
				if r := recover(); r != nil {
					cl, dt = "panic", fmt.Sprint(r)
				}
			}()
			sub, err := dagsync.NewSubscriber(nil, newClientLsys(), dagsync.HttpTimeout(10*time.Second))
			if err != nil {
				return "new-subscriber", err.Error()
			}
			defer sub.Close()
			ctx, cancel := context.WithTimeout(context.Background(), 40*time.Second)
			defer cancel()
			m1, m2 := w.maddrFor(hk, "/one"), w.maddrFor(hk, "/two")
			got1, err := sub.SyncAdChain(ctx, peer.AddrInfo{ID: w.pid, Addrs: []multiaddr.Multiaddr{m1}})
			if err != nil {
				return "first-sync", err.Error()
			}
			if got1 != h1 {
				return "first-sync-head", fmt.Sprintf("advertised %s, got head %s, the head served there is %s", m1, got1, h1)
			}
			w.mu.Lock()
			w.log = nil
			w.mu.Unlock()
			got2, err := sub.SyncAdChain(ctx, peer.AddrInfo{ID: w.pid, Addrs: []multiaddr.Multiaddr{m2}})
			w.mu.Lock()
			reqs := append([]reqLog{}, w.log...)
			w.mu.Unlock()
			var stale, fresh int
			for _, r := range reqs {
				if strings.HasPrefix(r.Path, "/one/") {
					stale++
				}
				if strings.HasPrefix(r.Path, "/two/") {
					fresh++
				}
			}
			if err != nil {
				return "second-sync", err.Error()
			}
			if got2 != h2 || stale > 0 || fresh == 0 {
				return "second-sync-contacts-stale-endpoint", fmt.Sprintf("the publisher now advertises %s (head %s) but the subscriber made %d request(s) to the endpoint advertised before (%s) and %d to the new one, and returned head %s", m2, h2, stale, m1, fresh, got2)
			}
			return "", ""
		}()
		if clause != "" {
			c.Fail("sync:addr-change:"+clause, "same subscriber, same publisher identity, advertised address changed between two syncs: "+detail, replay{Kind: "addrchange", HKind: hk, Port: -1})
		} else {
			c.Nontrivial("sync:addr-change:" + hk)
		}
	}
}
