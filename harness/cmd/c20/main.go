// c20: publisher addresses convert between URL and multiaddr without changing target;
// the mautil list helpers behave as set operations.
//
// Families of Coq cases (each carries the input AND what the real code returned):
//
//	esc, unesc  net/url PathEscape/QueryEscape/PathUnescape/QueryUnescape  vs lib/Escape.v
//	hp          multiaddr.NewComponent("http-path", s): raw value and string value
//	url         maurl.FromURL(u).String() and maurl.ToURL(maurl.FromURL(u))
//	tourl       maurl.ToURL on parsed multiaddrs (tls/http, https, ws, legacy httpath, ...)
//	fp, fh, clean, eq   mautil.FilterPublic, FindHTTPAddrs, CleanPeerAddrInfo, MultiaddrsEqual
//	sync        requests a real ipnisync client sends to a publisher advertised by URL (sync.go)
//
// Direct oracles (Go only, from the property text) run on every case; see url.go,
// lists.go.
package main

import (
	"encoding/hex"

	"fmt"
	"github.com/ipni/go-libipni/mautil"
	"runtime/debug"

	"verif/harness/vlib"
)

type replay struct {
	Kind string `json:"kind"` // url | rawurl | tourl | list | eq | esc
	// url
	Scheme string `json:"scheme,omitempty"`
	HKind  string `json:"hkind,omitempty"` // ip4 | ip6 | dns
	Host   string `json:"host,omitempty"`
	Port   int    `json:"port"` // -1 = absent (url replays only)
	Path   string `json:"path_hex,omitempty"`
	Via    string `json:"via,omitempty"` // direct | parse
	// rawurl
	Raw string `json:"raw,omitempty"`
	// tourl
	Comps []compJ `json:"comps,omitempty"`
	// list / eq
	Fn string   `json:"fn,omitempty"`
	A  []string `json:"a,omitempty"`
	B  []string `json:"b,omitempty"`
	// esc
	S string `json:"s_hex,omitempty"`
}

func hx(b []byte) string { return hex.EncodeToString(b) }

// at most two samples per family go into the evidence
var sampled = map[string]int{}

func sample(c *vlib.Ctx, fam string, interesting bool, in interface{}, observed string) {
	if interesting && sampled[fam] < 1 {
		sampled[fam]++
		c.Sample(map[string]interface{}{"family": fam, "input": in, "observed": observed})
	}
}

func main() {
	debug.SetMemoryLimit(2 << 30)
	c := vlib.Init("C20")
	defer c.Finish()
	maurlReq := []string{"From Lib Require Import Escape.", "From Model Require Import C20_Maurl."}
	mautilReq := []string{"From Model Require Import C20_Mautil."}
	c.Family("esc", maurlReq, "esc_case_ok", 500)
	c.Family("unesc", maurlReq, "unesc_case_ok", 500)
	c.Family("hp", maurlReq, "hp_case_ok", 500)
	c.Family("url", maurlReq, "url_case_ok", 400)
	c.Family("tourl", maurlReq, "tourl_case_ok", 400)
	c.Family("fp", mautilReq, "fp_case_ok", 400)
	c.Family("fh", mautilReq, "fh_case_ok", 400)
	c.Family("clean", mautilReq, "clean_case_ok", 400)
	c.Family("eq", mautilReq, "eq_case_ok", 500)
	c.Family("sync", maurlReq, "sync_case_ok", 300)
	c.Family("strs", mautilReq, "strs_case_ok", 400)
	c.Family("same", mautilReq, "same_case_ok", 400)
	c.Family("peers", mautilReq, "peers_case_ok", 400)
	c.Family("netaddr", maurlReq, "netaddr_case_ok", 400)
	initPool()

	if c.Replay != "" {
		var r replay
		if err := c.LoadReplay(&r); err != nil {
			panic(err)
		}
		runReplay(c, r)
		return
	}

	c.Res.Exhaustive = true
	c.Res.Rule = "esc/unesc/hp: every single byte, every %XX, all pairs (triples) over the bytes the two escaping schemes treat differently, malformed escapes, seeded strings. " +
		"url: hosts {IPv4, IPv6, DNS} x ports {absent,0,80,443,8080,65535,65536} x schemes x representative paths, plus on one host every one-byte path segment 0x00-0xFF (exhaustive), all pairs and triples around % + space / ? # ;, seeded longer paths, repeated slashes, empty path; each URL built through url.Parse when it can be and directly otherwise. " +
		"tourl: host forms x port forms x every ordered selection of <=3 of {tls,http,https,ws,wss} (exhaustive), http-path / legacy httpath values in several escapings. " +
		"lists: all singletons over the classified address pool, all pairs over 12 representatives, all triples over 5, seeded lists of length <=9 with duplicates and nils; eq: all pairs of lists of length <=3 over {a,b,nil} (exhaustive), permutations, one-element replacements, duplicate-count swaps. " +
		"non-trivial = (url) path contains a byte that some escaping mode rewrites, or host is IPv6, or port present; (lists) list has a duplicate, a nil, or >= 2 classes"
	runEscape(c)
	runHP(c)
	runURL(c)
	runToURL(c)
	runLists(c)
	runChain(c)
	runParse(c)
	runSyncCases(c)
}

func runReplay(c *vlib.Ctx, r replay) {
	fmt.Printf("replay kind=%s\n", r.Kind)
	switch r.Kind {
	case "url":
		p, _ := hex.DecodeString(r.Path)
		uc := urlCase{Scheme: r.Scheme, HKind: r.HKind, Host: r.Host, Port: r.Port, Path: p, Via: r.Via}
		doURL(c, uc, true)
	case "rawurl":
		doRawURL(c, r.Raw, true)
	case "tourl":
		var cs []comp
		for _, j := range r.Comps {
			cs = append(cs, j.comp())
		}
		doToURL(c, cs, true)
	case "list":
		if r.Fn == "seq" {
			doSeq(c, fromNames(r.A))
		} else {
			doList(c, r.Fn, fromNames(r.A), true)
		}
	case "eq":
		doEq(c, fromNames(r.A), fromNames(r.B), true)
	case "strs", "peers", "netaddr":
		fmt.Printf("%s %q\n", r.Kind, r.A)
		switch r.Kind {
		case "strs":
			out, err := mautil.StringsToMultiaddrs(r.A)
			fmt.Println(" ->", out, err)
		case "peers":
			out, err := mautil.ParsePeers(r.A)
			fmt.Println(" ->", out, err)
		default:
			out, err := mautil.MultiaddrStringToNetAddr(r.A[0])
			fmt.Println(" ->", out, err)
		}
	case "same", "addrchange":
		w := newSyncWorld()
		defer w.close()
		runSameAddrs(c, w)
		runAddrChange(c, w)
	case "sync":
		p, _ := hex.DecodeString(r.Path)
		w := newSyncWorld()
		defer w.close()
		doSync(c, w, r.HKind, p, true)
	case "esc":
		s, _ := hex.DecodeString(r.S)
		doEsc(c, s, true)
		doUnesc(c, s, true)
		doHP(c, s, true)
	default:
		panic("unknown replay kind " + r.Kind)
	}
}
