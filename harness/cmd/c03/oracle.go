package main

// One scenario through the three levels of real code, the Coq cases, and the direct
// oracles computed in Go from the property text.

import (
	"bytes"
	"errors"
	"fmt"
	"strings"

	"github.com/ipfs/go-cid"
	"github.com/ipni/go-libipni/dagsync/ipnisync/head"
	ic "github.com/libp2p/go-libp2p/core/crypto"
	"github.com/libp2p/go-libp2p/core/peer"
	"github.com/multiformats/go-multiaddr"

	"verif/harness/keypool"
	"verif/harness/vlib"
)

type scenario struct {
	name    string
	keyType string
	status  int
	body    []byte
	signer  *keypool.Identity // the honest publisher the scenario was derived from
	base    *head.SignedHead  // its honest head (for flips: "rejected, or decodes to this very head")
	expect  string            // verdict demanded when the honest publisher is the one asked for: accept | reject | reject-or-same | ""
	wantCid cid.Cid
	sig     string // failure signature
	noCase  bool   // oracles only: the response is too large for a Coq literal
}

func (sc scenario) replay(kind string, expected peer.ID) *replayT {
	r := &replayT{Kind: kind, Status: sc.status, Body: hx(sc.body), Expected: peerStr(expected), Expect: sc.expect, Sig: sc.sig, Note: sc.name + " (" + sc.keyType + ")"}
	if len(sc.body) < 2000 && isText(sc.body) {
		r.BodyText = string(sc.body)
	}
	return r
}

func isText(b []byte) bool {
	for _, x := range b {
		if x < 0x20 || x > 0x7e {
			return false
		}
	}
	return true
}

// propertyAccepts: the acceptance condition as the property states it, computed from the
// served bytes with the real decoders and the real verifier but none of the code under
// test's decision logic: the response is a 200 whose body decodes to a head carrying a
// signature that verifies, under the public key embedded in it, over exactly the CID
// bytes followed by the topic; signer = the peer ID of that key.
func propertyAccepts(status int, body []byte) (ok bool, c cid.Cid, signer peer.ID, v *view) {
	if status != 200 {
		return false, cid.Undef, "", nil
	}
	v = decodeView(body)
	if v == nil || v.key == nil || len(v.sh.Sig) == 0 {
		return false, cid.Undef, "", v
	}
	if !verifies(v.key, layout(v.cid, v.sh.Topic), v.sh.Sig) {
		return false, cid.Undef, "", v
	}
	id, err := peer.IDFromPublicKey(v.key)
	if err != nil {
		return false, cid.Undef, "", v
	}
	return true, v.cid, id, v
}

func obsTerm(kind string, okTerm string, class int) string {
	switch kind {
	case "ok":
		return "(OOk " + okTerm + ")"
	case "panic":
		return "OPanic"
	}
	return fmt.Sprintf("(OErr %d)", class)
}

func optPeerTerm(id peer.ID) string {
	if id == "" {
		return "None"
	}
	return fmt.Sprintf("(Some %d)", pool.IDIndex(id))
}

var sampled = map[string]bool{}

func sampleOnce(c *vlib.Ctx, key string, s interface{}) {
	if !sampled[key] {
		sampled[key] = true
		c.Sample(s)
	}
}

// ---- level 1: Decode + Validate ----

func doValidate(c *vlib.Ctx, sc scenario) { doValidateOpt(c, sc, !sc.noCase) }

// withCase=false: oracles only (the gethead case of the same response carries the same decoded head)
func doValidateOpt(c *vlib.Ctx, sc scenario, withCase bool) {
	if sc.status != 200 {
		return
	}
	v := decodeView(sc.body)
	c.Eval()
	if v == nil {
		c.Count("validate:undecodable")
		return
	}
	kind, class, signer, errStr := "ok", 0, peer.ID(""), ""
	func() {
		defer func() {
			if x := recover(); x != nil {
				kind, errStr = "panic", fmt.Sprint(x)
			}
		}()
		id, err := v.sh.Validate()
		if err != nil {
			kind, errStr = "err", err.Error()
			switch {
			case errors.Is(err, head.ErrNoSignature):
				class = 60
			case errors.Is(err, head.ErrNoPubkey):
				class = 61
			}
			return
		}
		signer = id
	}()
	c.Count("validate:" + kind)
	rp := sc.replay("validate", "")
	if withCase {
		c.Case("validate", fmt.Sprintf("(ValidateCase %s %s)", v.term(), obsTerm(kind, fmt.Sprint(pool.IDIndex(signer)), class)),
			map[string]interface{}{"scenario": sc.name, "key_type": sc.keyType, "observed": kind, "replay": rp})
	}
	if kind == "panic" {
		c.Fail("validate:panic:"+sc.name, "Validate panicked: "+errStr, rp)
		return
	}
	acc, _, psigner, _ := propertyAccepts(200, sc.body)
	if (kind == "ok") != acc {
		c.Fail("validate:verdict:"+sc.name+":"+sc.keyType, fmt.Sprintf("Validate returned %s %s but the signature %s under the embedded key over cid||topic", kind, errStr, map[bool]string{true: "verifies", false: "does not verify"}[acc]), rp)
	} else if acc && signer != psigner {
		c.Fail("validate:signer:"+sc.name+":"+sc.keyType, fmt.Sprintf("Validate names signer %s, the embedded key is %s", signer, psigner), rp)
	}
}

// ---- level 2: Syncer.GetHead ----

func doGetHead(c *vlib.Ctx, sc scenario, expected peer.ID) callResult {
	srv.set(sc.status, sc.body)
	r := runGetHead(srv, expected)
	c.Eval()
	c.Count("gethead:" + r.kind)
	acc, pc, psigner, v := propertyAccepts(sc.status, sc.body)
	resp := "None"
	if sc.status == 200 {
		resp = optViewTerm(v)
	}
	okTerm := ""
	if r.kind == "ok" {
		okTerm = coqCid(r.cid)
	}
	rp := sc.replay("gethead", expected)
	rp.ClientOpt, rp.AddrShape = curOpt, curAddrShape
	_, usable := shapeAddrs(nil)
	if curOpt != "" {
		c.Count("gethead-option:" + curOpt)
	}
	if !sc.noCase && usable { // without a usable address no head query is made: outside the model
		c.Case("gethead", fmt.Sprintf("(GetHeadCase %s %s %s)", optPeerTerm(expected), resp, obsTerm(r.kind, okTerm, 0)),
			map[string]interface{}{"scenario": sc.name, "key_type": sc.keyType, "expected": peerStr(expected), "client_options": curOpt, "observed": r.kind, "replay": rp})
	}
	if v != nil && strings.HasPrefix(v.sigTerm, "(WSSig") {
		c.Nontrivial(fmt.Sprintf("gethead/%s/%s/%s/%s", curOpt, sc.keyType, sc.name, optPeerTerm(expected)))
	}
	if sc.name == "Honest" || sc.name == "ResignBy:other-type" {
		obsS := r.kind + " " + r.err
		if r.kind == "ok" {
			obsS = "ok " + r.cid.String()
		}
		sampleOnce(c, "gethead-"+r.kind+"-"+sc.name, map[string]interface{}{"level": "GetHead", "scenario": sc.name, "key_type": sc.keyType, "expected": peerStr(expected), "observed": obsS})
	}
	who := "expected=" + peerStr(expected)
	if curOpt != "" {
		who += ", client options " + curOpt
	}
	if r.kind == "panic" {
		c.Fail("gethead"+optTag()+":panic:"+sc.name, "GetHead panicked: "+r.err, rp)
		return r
	}
	// the property, both directions
	want := acc && (expected == "" || psigner == expected)
	if curAddrShape != "" {
		who += ", address list " + curAddrShape
		c.Count("gethead-addr-shape:" + curAddrShape)
	}
	switch {
	case r.kind == "ok" && !acc:
		c.Fail("gethead"+optTag()+":accepted-unverified:"+sc.name+":"+sc.keyType, "GetHead returned a CID for a response that carries no signature verifying under its own key over cid||topic ("+who+")", rp)
	case r.kind == "ok" && !want:
		c.Fail("gethead"+optTag()+":accepted-other-signer:"+sc.name+":"+sc.keyType, fmt.Sprintf("GetHead returned a CID signed by %s, %s", psigner, who), rp)
	case r.kind == "ok" && !r.cid.Equals(pc):
		c.Fail("gethead"+optTag()+":other-cid:"+sc.name+":"+sc.keyType, fmt.Sprintf("GetHead returned %s, the signed CID is %s", r.cid, pc), rp)
	case r.kind != "ok" && want && usable:
		c.Fail("gethead"+optTag()+":rejected-valid:"+sc.name+":"+sc.keyType, "GetHead rejected a head validly signed by the expected publisher: "+r.err+" ("+who+")", rp)
	}
	// the scenario's own expectation (cross-check of the oracle above)
	if sc.signer != nil && expected == sc.signer.ID && (usable || sc.expect != "accept") {
		checkExpectation(c, sc, "gethead", r, rp)
	}
	return r
}

func checkExpectation(c *vlib.Ctx, sc scenario, level string, r callResult, rp *replayT) {
	switch sc.expect {
	case "accept":
		if r.kind != "ok" || !r.cid.Equals(sc.wantCid) {
			c.Fail(level+optTag()+":"+sc.sig, fmt.Sprintf("honest head not accepted: %s %s %s", r.kind, cidStr(r.cid), r.err), rp)
		}
	case "reject":
		if r.kind == "ok" {
			c.Fail(level+optTag()+":"+sc.sig, "accepted: "+sc.name, rp)
		}
	case "reject-or-same":
		if r.kind == "ok" {
			v := decodeView(sc.body)
			if v == nil || sc.base == nil || !sameHead(v.sh, sc.base) {
				c.Fail(level+":"+sc.sig, "accepted an altered encoding that does not decode to the original head: "+sc.name, rp)
			} else {
				c.Count("altered-encoding-decodes-to-same-head")
			}
		}
	}
}

// ---- level 3: Subscriber.SyncAdChain ----

func doSub(c *vlib.Ctx, sc scenario, id peer.ID, addrIDs []peer.ID, latest0 cid.Cid) subResult {
	ai := peer.AddrInfo{ID: id}
	var addrTerms []string
	if len(addrIDs) == 0 {
		ai.Addrs = []multiaddr.Multiaddr{srv.maddr}
		addrTerms = []string{"None"}
	}
	for _, a := range addrIDs {
		if a == "" {
			ai.Addrs = append(ai.Addrs, srv.maddr)
			addrTerms = append(addrTerms, "None")
			continue
		}
		p2p, err := multiaddr.NewComponent("p2p", a.String())
		if err != nil {
			panic(err)
		}
		ai.Addrs = append(ai.Addrs, srv.maddr.Encapsulate(p2p.Multiaddr()))
		addrTerms = append(addrTerms, optPeerTerm(a))
	}
	usable := true
	if curAddrShape != "" {
		switch curAddrShape {
		case "duplicate", "nil-middle":
			addrTerms = append(addrTerms, addrTerms...) // the model sees the non-nil addresses
		case "dead-first":
			addrTerms = append([]string{"None"}, addrTerms...)
		case "only-nil":
			addrTerms = nil
		}
		ai.Addrs, usable = shapeAddrs(ai.Addrs)
		c.Count("sub-addr-shape:" + curAddrShape)
	}
	// the publisher the caller asked to sync, from the property text: the ID given, else
	// the first ID carried by an address
	resolved := id
	for _, a := range addrIDs {
		if resolved == "" {
			resolved = a
		}
	}
	latestFor := resolved
	if latestFor == "" {
		latestFor = pool.Ids[0].ID
	}
	srv.set(sc.status, sc.body)
	r := runSub(srv, ai, latestFor, latest0)
	c.Eval()
	c.Count("sub:" + r.kind)
	acc, pc, psigner, v := propertyAccepts(sc.status, sc.body)
	resp := "None"
	if sc.status == 200 {
		resp = optViewTerm(v)
	}
	okTerm := ""
	if r.kind == "ok" {
		okTerm = coqCid(r.cid)
	}
	bl := make([]string, len(r.blocks))
	for i, b := range r.blocks {
		bl[i] = coqCid(b)
	}
	var ids []string
	for _, a := range addrIDs {
		ids = append(ids, peerStr(a))
	}
	rp := sc.replay("sub", id)
	rp.AddrIDs, rp.AddrShape = ids, curAddrShape
	if latest0 != cid.Undef {
		rp.Latest0 = latest0.String()
	}
	desc := map[string]interface{}{"scenario": sc.name, "key_type": sc.keyType, "observed": r.kind, "err": r.err, "replay": rp}
	c.Case("sub", fmt.Sprintf("(SubCase %s %s %s %s (%s, %s) %s %d %s %s)", optPeerTerm(id), vlib.CoqList(addrTerms), coqOptCid(latest0), resp,
		vlib.CoqList(bl), vlib.CoqBool(r.kind == "ok"), obsTerm(r.kind, okTerm, 0), r.heads, vlib.CoqList(bl), coqOptCid(r.latest)), desc)
	// the same observation against C03's model AND C01's model of the sync that follows
	// (model/Compose_C03_C01.v: both_case_ok), as a one-step history on a fresh Subscriber
	c.Case("both", fmt.Sprintf("(BothCase %s (SubHist %s %s %s [SubStep %s (%s, %s) %s %d %s %s]))", chainTerm(), optPeerTerm(id), vlib.CoqList(addrTerms), coqOptCid(latest0),
		resp, vlib.CoqList(bl), vlib.CoqBool(r.kind == "ok"), obsTerm(r.kind, okTerm, 0), r.heads, vlib.CoqList(bl), coqOptCid(r.latest)), desc)
	if v != nil && strings.HasPrefix(v.sigTerm, "(WSSig") {
		c.Nontrivial(fmt.Sprintf("sub/%s/%s/%s/%v/%s", sc.keyType, sc.name, optPeerTerm(id), ids, cidStr(latest0)))
	}
	if sc.name == "Honest" || sc.name == "ResignBy:same-type" {
		sampleOnce(c, "sub-"+r.kind+"-"+sc.name, map[string]interface{}{"level": "SyncAdChain", "scenario": sc.name, "key_type": sc.keyType, "observed": r.kind,
			"head_requests": r.heads, "block_requests_after_head": len(r.blocks), "latest_before": cidStr(latest0), "latest_after": cidStr(r.latest)})
	}
	if r.kind == "panic" {
		c.Fail("sub"+optTag()+":panic:"+sc.name, "SyncAdChain panicked: "+r.err, rp)
		return r
	}
	if len(r.other) != 0 {
		c.Fail("sub"+optTag()+":unexpected-request:"+sc.name, fmt.Sprintf("requests other than head/blocks: %v", r.other), rp)
	}
	accepted := acc && resolved != "" && psigner == resolved
	if !accepted {
		// a rejected head (or no publisher identity at all): error, no request after the
		// head request, latest-sync untouched
		if r.kind == "ok" {
			sig := "sub" + optTag() + ":accepted-unverified:"
			if acc {
				sig = "sub" + optTag() + ":accepted-other-signer:"
			}
			c.Fail(sig+sc.name+":"+sc.keyType, fmt.Sprintf("SyncAdChain succeeded on a head that must be rejected (signer %s, asked for %s)", psigner, peerStr(resolved)), rp)
		}
		if len(r.blocks) != 0 {
			c.Fail("sub"+optTag()+":requests-after-rejected-head:"+sc.name+":"+sc.keyType, fmt.Sprintf("%d block requests followed a rejected head", len(r.blocks)), rp)
		}
		if !r.latest.Equals(latest0) {
			c.Fail("sub"+optTag()+":latest-changed-after-rejected-head:"+sc.name+":"+sc.keyType, fmt.Sprintf("latest-sync went from %s to %s after a rejected head", cidStr(latest0), cidStr(r.latest)), rp)
		}
		if resolved == "" && r.heads != 0 {
			c.Fail("sub"+optTag()+":head-query-without-peer-id:"+sc.name, "a head query was made although no peer ID was given", rp)
		}
	} else {
		if usable && r.heads != 1 {
			c.Fail("sub"+optTag()+":head-requests:"+sc.name, fmt.Sprintf("%d head requests", r.heads), rp)
		}
		if r.kind == "ok" {
			if !r.cid.Equals(pc) {
				c.Fail("sub"+optTag()+":other-cid:"+sc.name+":"+sc.keyType, fmt.Sprintf("SyncAdChain returned %s, the signed CID is %s", r.cid, pc), rp)
			}
			if !r.latest.Equals(pc) {
				c.Fail("sub"+optTag()+":latest-not-head:"+sc.name+":"+sc.keyType, fmt.Sprintf("latest-sync is %s after syncing head %s", cidStr(r.latest), pc), rp)
			}
		} else if !r.latest.Equals(latest0) {
			c.Fail("sub"+optTag()+":latest-changed-after-failed-sync:"+sc.name+":"+sc.keyType, "latest-sync changed although the sync failed", rp)
		}
		if inChain(pc) && r.kind != "ok" {
			c.Fail("sub"+optTag()+":rejected-valid:"+sc.name+":"+sc.keyType, "SyncAdChain failed on a head validly signed by the publisher asked for, whose blocks the publisher serves: "+r.err, rp)
		}
	}
	if sc.signer != nil && resolved == sc.signer.ID && (sc.expect != "accept" || inChain(sc.wantCid)) {
		checkExpectation(c, sc, "sub", r.callResult, rp)
	}
	return r
}

func inChain(c cid.Cid) bool {
	for _, x := range chain {
		if x.Equals(c) {
			return true
		}
	}
	return false
}

// ---- publisher ----

func doServe(c *vlib.Ctx, id *keypool.Identity, topic string, root cid.Cid) {
	status, body := servedHead(id.Priv, topic, root)
	c.Eval()
	c.Count("serve")
	rp := &replayT{Kind: "serve", KeyPriv: hx(keypool.MarshalPriv(id.Priv)), KeyType: id.Type, Topic: topic, Root: ""}
	if root != cid.Undef {
		rp.Root = root.String()
	}
	var v *view
	if status == 200 {
		v = decodeView(body)
		if v != nil && v.key != nil {
			// name the signature: confirmed by the real verifier over the harness' layout
			recordSig(id.Index, layout(v.cid, v.sh.Topic), v.sh.Sig)
			v = decodeView(body)
		}
	}
	c.Case("serve", fmt.Sprintf("(ServeCase %s %s %d %s)", coqOptCid(root), vlib.CoqBytes([]byte(topic)), id.Index, optViewTerm(v)),
		map[string]interface{}{"key_type": id.Type, "topic": topic, "root": cidStr(root), "status": status, "replay": rp})
	c.Nontrivial(fmt.Sprintf("serve/%d/%s/%s", id.Index, topic, cidStr(root)))
	if root == cid.Undef {
		if status == 200 {
			c.Fail("publisher:head-without-root:"+id.Type, "a publisher without a root served a head", rp)
		}
		return
	}
	acc, pc, psigner, pv := propertyAccepts(status, body)
	switch {
	case !acc:
		c.Fail("publisher:head-not-verifying:"+id.Type, fmt.Sprintf("what the publisher serves for its root (status %d) does not verify", status), rp)
	case psigner != id.ID:
		c.Fail("publisher:head-other-signer:"+id.Type, "the served head is not signed by the publisher's key", rp)
	case !pc.Equals(root):
		c.Fail("publisher:head-other-cid:"+id.Type, fmt.Sprintf("served head is for %s, root is %s", pc, root), rp)
	case (topic == "") != (pv.sh.Topic == nil) || (topic != "" && *pv.sh.Topic != topic):
		c.Fail("publisher:head-other-topic:"+id.Type, "served head carries another topic than the publisher's", rp)
	}
	// and the client accepts it when it asks for this publisher, rejects it when it asks for another
	sc := scenario{name: "Served", keyType: id.Type, status: status, body: body, signer: id, expect: "accept", wantCid: root, sig: "served-head-rejected:" + id.Type}
	doValidate(c, sc)
	doGetHead(c, sc, id.ID)
	doGetHead(c, sc, pool.Ids[(id.Index+1)%len(pool.Ids)].ID)
}

func doServeReplay(c *vlib.Ctx, kb []byte, typ, topic string, root cid.Cid) {
	k, err := ic.UnmarshalPrivateKey(kb)
	if err != nil {
		panic(err)
	}
	var id *keypool.Identity
	for _, it := range pool.Ids {
		if it.Pub.Equals(k.GetPublic()) {
			id = it
		}
	}
	if id == nil {
		id = pool.Add(typ, k)
	}
	doServe(c, id, topic, root)
	status, body := servedHead(id.Priv, topic, root)
	fmt.Printf("  publisher %s topic=%q root=%s serves status %d body %s\n", id.ID, topic, cidStr(root), status, bytes.TrimSpace(body))
}

// chainTerm: the publisher's chain, newest first, as C01's model wants it
func chainTerm() string {
	t := make([]string, len(chain))
	for i := range chain {
		t[i] = coqCid(chain[len(chain)-1-i])
	}
	return vlib.CoqList(t)
}

// optTag marks failure signatures of runs with non-default client options
func optTag() string {
	t := ""
	if curOpt != "" {
		t = "[" + curOpt + "]"
	}
	if curAddrShape != "" {
		t += "{addrs=" + curAddrShape + "}"
	}
	return t
}
