package main

// Histories: several head queries through ONE ipnisync Syncer, and several SyncAdChain
// calls on ONE Subscriber (whose handler keeps one Syncer per publisher).  Every step is
// judged by the property as if it were the first: whatever the client remembers from
// earlier, genuine heads must not make a later response acceptable that carries no
// signature over exactly ITS CID and topic.

import (
	"context"
	"fmt"
	"strings"
	"time"

	"github.com/ipfs/go-cid"
	"github.com/ipfs/go-datastore"
	dssync "github.com/ipfs/go-datastore/sync"
	cidlink "github.com/ipld/go-ipld-prime/linking/cid"
	"github.com/ipni/go-libipni/dagsync"
	"github.com/ipni/go-libipni/dagsync/ipnisync/head"
	"github.com/libp2p/go-libp2p/core/peer"
	"github.com/multiformats/go-multiaddr"

	"verif/harness/keypool"
	"verif/harness/vlib"
)

type replayStep struct {
	Name     string `json:"name,omitempty"`
	Status   int    `json:"status"`
	Body     string `json:"head_hex"`
	BodyText string `json:"head_text,omitempty"`
}

func stepsReplay(steps []scenario) []replayStep {
	out := make([]replayStep, len(steps))
	for i, s := range steps {
		out[i] = replayStep{Name: s.name, Status: s.status, Body: hx(s.body)}
		if len(s.body) < 2000 && isText(s.body) {
			out[i].BodyText = string(s.body)
		}
	}
	return out
}

func names(steps []scenario) string {
	n := make([]string, len(steps))
	for i, s := range steps {
		n[i] = s.name
	}
	return strings.Join(n, ">")
}

// ---- one Syncer ----

func runGetHeadHist(s *server, expected peer.ID, steps []scenario) []callResult {
	out := make([]callResult, 0, len(steps))
	syncer, err := syncFor(curOpt).NewSyncer(peer.AddrInfo{ID: expected, Addrs: []multiaddr.Multiaddr{s.maddr}})
	if err != nil {
		panic(err)
	}
	for _, st := range steps {
		s.set(st.status, st.body)
		out = append(out, func() (r callResult) {
			defer func() {
				if x := recover(); x != nil {
					r = callResult{kind: "panic", err: fmt.Sprint(x)}
				}
			}()
			ctx, cancel := context.WithTimeout(context.Background(), 10*time.Second)
			defer cancel()
			c, err := syncer.GetHead(ctx)
			if err != nil {
				return callResult{kind: "err", err: err.Error()}
			}
			return callResult{kind: "ok", cid: c}
		}())
	}
	return out
}

// judgeGet: the property on one GetHead result; "" when it holds
func judgeGet(sc scenario, expected peer.ID, r callResult) (kind, desc string) {
	acc, pc, psigner, _ := propertyAccepts(sc.status, sc.body)
	want := acc && (expected == "" || psigner == expected)
	switch {
	case r.kind == "panic":
		return "panic", "GetHead panicked: " + r.err
	case r.kind == "ok" && !acc:
		return "accepted-unverified", "GetHead returned " + cidStr(r.cid) + " for a response that carries no signature verifying under its own key over exactly that CID and topic"
	case r.kind == "ok" && !want:
		return "accepted-other-signer", fmt.Sprintf("GetHead returned a CID signed by %s, expected %s", psigner, peerStr(expected))
	case r.kind == "ok" && !r.cid.Equals(pc):
		return "other-cid", fmt.Sprintf("GetHead returned %s, the signed CID is %s", r.cid, pc)
	case r.kind != "ok" && want:
		return "rejected-valid", "GetHead rejected a head validly signed by the expected publisher: " + r.err
	}
	return "", ""
}

func doGetHeadHist(c *vlib.Ctx, keyType string, expected peer.ID, steps []scenario) {
	rs := runGetHeadHist(srv, expected, steps)
	var terms []string
	for i, st := range steps {
		c.Eval()
		c.Count("gethist-step:" + rs[i].kind)
		_, _, _, v := propertyAccepts(st.status, st.body)
		resp := "None"
		if st.status == 200 {
			resp = optViewTerm(v)
		}
		okTerm := ""
		if rs[i].kind == "ok" {
			okTerm = coqCid(rs[i].cid)
		}
		terms = append(terms, fmt.Sprintf("(%s, %s)", resp, obsTerm(rs[i].kind, okTerm, 0)))
	}
	rp := &replayT{Kind: "gethist", Expected: peerStr(expected), Steps: stepsReplay(steps), Note: names(steps) + " (" + keyType + ")", ClientOpt: curOpt}
	c.Case("gethist", fmt.Sprintf("(GetHeadHist %s %s)", optPeerTerm(expected), vlib.CoqList(terms)),
		map[string]interface{}{"history": names(steps), "key_type": keyType, "expected": peerStr(expected), "replay": rp})
	c.Nontrivial("gethist/" + curOpt + "/" + keyType + "/" + names(steps) + "/" + optPeerTerm(expected))
	for i := range steps {
		kind, desc := judgeGet(steps[i], expected, rs[i])
		if kind == "" {
			continue
		}
		// shrink: drop earlier steps while the last one still fails the same way on a fresh Syncer
		min := append([]scenario{}, steps[:i+1]...)
		for j := len(min) - 2; j >= 0; j-- {
			cand := append(append([]scenario{}, min[:j]...), min[j+1:]...)
			r2 := runGetHeadHist(srv, expected, cand)
			if k2, _ := judgeGet(cand[len(cand)-1], expected, r2[len(r2)-1]); k2 == kind {
				min = cand
			}
		}
		c.Fail(fmt.Sprintf("gethist%s:%s:%s:%s", optTag(), kind, names(min), keyType),
			fmt.Sprintf("step %d of a history on one Syncer%s: %s (history %s)", len(min), optTag(), desc, names(min)),
			&replayT{Kind: "gethist", Expected: peerStr(expected), Steps: stepsReplay(min), Note: names(min) + " (" + keyType + ")", ClientOpt: curOpt})
		return
	}
	sampleOnce(c, "gethist", map[string]interface{}{"level": "GetHead history on one Syncer", "history": names(steps), "key_type": keyType,
		"observed": kinds(rs)})
}

func kinds(rs []callResult) string {
	k := make([]string, len(rs))
	for i, r := range rs {
		k[i] = r.kind
	}
	return strings.Join(k, ",")
}

// ---- one Subscriber ----

func runSubHist(s *server, ai peer.AddrInfo, latestFor peer.ID, latest0 cid.Cid, steps []scenario) []subResult {
	ds := dssync.MutexWrap(datastore.NewMapDatastore())
	sub, err := dagsync.NewSubscriber(nil, mkLinkSystem(ds))
	if err != nil {
		panic(err)
	}
	defer sub.Close()
	if latest0 != cid.Undef {
		if err := sub.SetLatestSync(latestFor, latest0); err != nil {
			panic(err)
		}
	}
	var out []subResult
	before := latest0
	for _, st := range steps {
		s.set(st.status, st.body)
		var r subResult
		r.latest0 = before
		func() {
			defer func() {
				if x := recover(); x != nil {
					r.callResult = callResult{kind: "panic", err: fmt.Sprint(x)}
				}
			}()
			ctx, cancel := context.WithTimeout(context.Background(), 15*time.Second)
			defer cancel()
			c, err := sub.SyncAdChain(ctx, ai)
			if err != nil {
				r.callResult = callResult{kind: "err", err: err.Error()}
			} else {
				r.callResult = callResult{kind: "ok", cid: c}
			}
		}()
		r.heads, r.blocks, r.other = s.requests()
		if l := sub.GetLatestSync(latestFor); l != nil {
			r.latest = l.(cidlink.Link).Cid
		}
		before = r.latest
		out = append(out, r)
	}
	return out
}

// judgeSub: the property on one SyncAdChain step (publisher asked for = resolved)
func judgeSub(sc scenario, resolved peer.ID, r subResult) (kind, desc string) {
	acc, pc, psigner, _ := propertyAccepts(sc.status, sc.body)
	accepted := acc && resolved != "" && psigner == resolved
	if r.kind == "panic" {
		return "panic", "SyncAdChain panicked: " + r.err
	}
	if !accepted {
		switch {
		case r.kind == "ok" && !acc:
			return "accepted-unverified", fmt.Sprintf("SyncAdChain returned %s for a head that carries no signature verifying under its own key over exactly that CID and topic (latest-sync %s -> %s, %d block requests)", cidStr(r.cid), cidStr(r.latest0), cidStr(r.latest), len(r.blocks))
		case r.kind == "ok":
			return "accepted-other-signer", fmt.Sprintf("SyncAdChain succeeded on a head signed by %s, asked for %s", psigner, peerStr(resolved))
		case len(r.blocks) != 0:
			return "requests-after-rejected-head", fmt.Sprintf("%d block requests followed a rejected head", len(r.blocks))
		case !r.latest.Equals(r.latest0):
			return "latest-changed-after-rejected-head", fmt.Sprintf("latest-sync went from %s to %s after a rejected head", cidStr(r.latest0), cidStr(r.latest))
		}
		return "", ""
	}
	switch {
	case r.kind == "ok" && !r.cid.Equals(pc):
		return "other-cid", fmt.Sprintf("SyncAdChain returned %s, the signed CID is %s", r.cid, pc)
	case r.kind == "ok" && !r.latest.Equals(pc):
		return "latest-not-head", fmt.Sprintf("latest-sync is %s after syncing head %s", cidStr(r.latest), pc)
	case r.kind != "ok" && inChain(pc):
		return "rejected-valid", "SyncAdChain failed on a head validly signed by the publisher asked for: " + r.err
	case r.kind != "ok" && !r.latest.Equals(r.latest0):
		return "latest-changed-after-failed-sync", "latest-sync changed although the sync failed"
	}
	return "", ""
}

func doSubHist(c *vlib.Ctx, keyType string, id peer.ID, latest0 cid.Cid, steps []scenario) {
	ai := peer.AddrInfo{ID: id, Addrs: []multiaddr.Multiaddr{srv.maddr}}
	rs := runSubHist(srv, ai, id, latest0, steps)
	var terms []string
	for i, st := range steps {
		r := rs[i]
		c.Eval()
		c.Count("subhist-step:" + r.kind)
		_, _, _, v := propertyAccepts(st.status, st.body)
		resp := "None"
		if st.status == 200 {
			resp = optViewTerm(v)
		}
		okTerm := ""
		if r.kind == "ok" {
			okTerm = coqCid(r.cid)
		}
		bl := make([]string, len(r.blocks))
		for j, b := range r.blocks {
			bl[j] = coqCid(b)
		}
		terms = append(terms, fmt.Sprintf("(SubStep %s (%s, %s) %s %d %s %s)", resp, vlib.CoqList(bl), vlib.CoqBool(r.kind == "ok"),
			obsTerm(r.kind, okTerm, 0), r.heads, vlib.CoqList(bl), coqOptCid(r.latest)))
	}
	mkReplay := func(st []scenario) *replayT {
		rp := &replayT{Kind: "subhist", Expected: peerStr(id), Steps: stepsReplay(st), Note: names(st) + " (" + keyType + ")"}
		if latest0 != cid.Undef {
			rp.Latest0 = latest0.String()
		}
		return rp
	}
	c.Case("subhist", fmt.Sprintf("(SubHist %s [None] %s %s)", optPeerTerm(id), coqOptCid(latest0), vlib.CoqList(terms)),
		map[string]interface{}{"history": names(steps), "key_type": keyType, "replay": mkReplay(steps)})
	c.Case("both", fmt.Sprintf("(BothCase %s (SubHist %s [None] %s %s))", chainTerm(), optPeerTerm(id), coqOptCid(latest0), vlib.CoqList(terms)),
		map[string]interface{}{"history": names(steps), "key_type": keyType, "replay": mkReplay(steps)})
	c.Nontrivial("subhist/" + keyType + "/" + names(steps) + "/" + cidStr(latest0))
	for i := range steps {
		kind, desc := judgeSub(steps[i], id, rs[i])
		if kind == "" {
			continue
		}
		min := append([]scenario{}, steps[:i+1]...)
		for j := len(min) - 2; j >= 0; j-- {
			cand := append(append([]scenario{}, min[:j]...), min[j+1:]...)
			r2 := runSubHist(srv, ai, id, latest0, cand)
			if k2, _ := judgeSub(cand[len(cand)-1], id, r2[len(r2)-1]); k2 == kind {
				min = cand
			}
		}
		r2 := runSubHist(srv, ai, id, latest0, min)
		_, desc = judgeSub(min[len(min)-1], id, r2[len(r2)-1])
		c.Fail(fmt.Sprintf("subhist:%s:%s:%s", kind, names(min), keyType),
			fmt.Sprintf("step %d of a history on one Subscriber: %s (history %s)", len(min), desc, names(min)), mkReplay(min))
		return
	}
	last := rs[len(rs)-1]
	sampleOnce(c, "subhist", map[string]interface{}{"level": "SyncAdChain history on one Subscriber", "history": names(steps), "key_type": keyType,
		"observed": func() string {
			k := make([]string, len(rs))
			for i, r := range rs {
				k[i] = r.kind
			}
			return strings.Join(k, ",")
		}(), "latest_after": cidStr(last.latest)})
}

// ---- the histories ----

func genHistories(c *vlib.Ctx) {
	cNew, cMid, cOld := chain[len(chain)-1], chain[2], chain[1]
	topic := mainnetTopic
	for _, typ := range keypool.KeyTypes {
		ids := pool.OfType(typ)
		a, b := ids[0], ids[1]
		mk := func(name string, sh *head.SignedHead) scenario {
			return scenario{name: name, keyType: typ, status: 200, body: encode(sh), signer: a}
		}
		hNew := honest(c, a, cNew, topic)
		hMid := honest(c, a, cMid, topic)
		hOld := honest(c, a, cOld, topic)
		hbOther := honest(c, b, cMid, topic+"x")
		honestNew, honestMid, honestOld := mk("Honest(new)", hNew), mk("Honest(mid)", hMid), mk("Honest(old)", hOld)
		// key and signature of an earlier genuine head on another CID / topic
		newSigOnMid := mk("SetField:cid:=mid(key+sig of Honest(new))", with(hNew, func(s *head.SignedHead) { s.Head = link(cMid) }))
		newSigOnOld := mk("SetField:cid:=old(key+sig of Honest(new))", with(hNew, func(s *head.SignedHead) { s.Head = link(cOld) }))
		oldSigOnNew := mk("SetField:cid:=new(key+sig of Honest(old))", with(hOld, func(s *head.SignedHead) { s.Head = link(cNew) }))
		midSigOnNew := mk("SetField:cid:=new(key+sig of Honest(mid))", with(hMid, func(s *head.SignedHead) { s.Head = link(cNew) }))
		topicExt := mk("SetField:topic:=extended(key+sig of Honest(new))", with(hNew, func(s *head.SignedHead) { s.Topic = sp(topic + "x") }))
		topicAbsent := mk("SetField:topic:=absent(key+sig of Honest(new))", with(hNew, func(s *head.SignedHead) { s.Topic = nil }))
		swap := mk("SwapKeySig:key+sig of Honest(new) on b's head", with(hbOther, func(s *head.SignedHead) { s.Pubkey, s.Sig = hNew.Pubkey, hNew.Sig }))
		resigned := mk("ResignBy:b", honest(c, b, cNew, topic))
		garbage := scenario{name: "Body:{}", keyType: typ, status: 200, body: []byte("{}"), signer: a}
		noContent := scenario{name: "Status:204", keyType: typ, status: 204, body: nil, signer: a}
		hists := [][]scenario{
			{honestNew, newSigOnMid},
			{honestNew, newSigOnOld},
			{honestNew, topicExt},
			{honestNew, topicAbsent},
			{honestNew, swap},
			{honestOld, oldSigOnNew},
			{honestNew, resigned, newSigOnMid},
			{honestNew, garbage, topicExt},
			{honestNew, noContent, swap},
			{honestOld, honestMid, midSigOnNew},
			{honestOld, honestMid, oldSigOnNew},
			{honestNew, newSigOnMid, honestNew},
			{honestNew, honestNew},
			{newSigOnMid, honestNew, newSigOnMid},
			{honestOld, honestMid, honestNew},
			{honestMid, resigned, honestMid, midSigOnNew, honestNew},
		}
		for i, h := range hists {
			c.Count("history")
			doGetHeadHist(c, typ, a.ID, h)
			doSubHist(c, typ, a.ID, cid.Undef, h)
			if i%4 == 0 || c.Thorough() {
				// the same history asked of a Syncer without peer ID / for another publisher
				doGetHeadHist(c, typ, "", h)
				doGetHeadHist(c, typ, b.ID, h)
			}
		}
	}
}
