package main

// Decoded view of served head bytes, naming of keys and signatures for the symbolic
// model, Coq term printers.

import (
	"bytes"
	"fmt"

	"github.com/ipfs/go-cid"
	cidlink "github.com/ipld/go-ipld-prime/linking/cid"
	"github.com/ipni/go-libipni/dagsync/ipnisync/head"
	ic "github.com/libp2p/go-libp2p/core/crypto"
	"github.com/multiformats/go-multihash"

	"verif/harness/vlib"
)

// layout is the harness' own statement of what a signed head's signature covers: the
// binary CID followed by the topic bytes (nothing for an absent topic).  Tied to the real
// Sign/Validate by the "payload" family: a signature the harness makes over layout(..)
// is accepted by the real Validate, and the real Sign's signature verifies over it.
func layout(c cid.Cid, topic *string) []byte {
	b := append([]byte{}, c.Bytes()...)
	if topic != nil {
		b = append(b, *topic...)
	}
	return b
}

func coqCid(c cid.Cid) string {
	dm, err := multihash.Decode(c.Hash())
	if err != nil {
		panic(fmt.Sprintf("cid %s: %v", c, err))
	}
	if c.Version() == 0 {
		return fmt.Sprintf("(CidV0 %s)", vlib.CoqBytes(dm.Digest))
	}
	return fmt.Sprintf("(CidV1 %d %d %s)", c.Type(), dm.Code, vlib.CoqBytes(dm.Digest))
}

func coqOptCid(c cid.Cid) string {
	if c == cid.Undef {
		return "None"
	}
	return "(Some " + coqCid(c) + ")"
}

func coqTopic(t *string) string {
	if t == nil {
		return "None"
	}
	return "(Some " + vlib.CoqBytes([]byte(*t)) + ")"
}

type sigInfo struct {
	k   int
	msg []byte
}

var sigTable = map[string]sigInfo{}

// recordSig notes that sig is pool key k's signature over msg, after the real verifier
// confirmed exactly that.
func recordSig(k int, msg, sig []byte) bool {
	ok, err := pool.Ids[k].Pub.Verify(msg, sig)
	if err != nil || !ok {
		return false
	}
	sigTable[string(sig)] = sigInfo{k, append([]byte{}, msg...)}
	return true
}

// view of a decoded head
type view struct {
	sh      *head.SignedHead
	cid     cid.Cid
	key     ic.PubKey // nil when empty / unparsable
	keyTerm string
	sigTerm string
	equiv   bool // signature bytes were named through the real verifier, not through the table
}

// decodeView decodes served bytes with the real head.Decode (DAG-JSON + bindnode are not
// modelled).  nil = not a usable head.
func decodeView(data []byte) (v *view) {
	defer func() {
		if r := recover(); r != nil {
			v = nil
		}
	}()
	sh, err := head.Decode(bytes.NewReader(data))
	if err != nil || sh == nil {
		return nil
	}
	return viewOf(sh)
}

func viewOf(sh *head.SignedHead) *view {
	lnk, ok := sh.Head.(cidlink.Link)
	if !ok || lnk.Cid == cid.Undef {
		return nil
	}
	v := &view{sh: sh, cid: lnk.Cid}
	keyIdx := -1
	switch {
	case len(sh.Pubkey) == 0:
		v.keyTerm = "WKEmpty"
	default:
		k, err := ic.UnmarshalPublicKey(sh.Pubkey)
		if err != nil {
			v.keyTerm = "WKBad"
		} else {
			v.key = k
			keyIdx = pool.KeyIndex(k)
			v.keyTerm = fmt.Sprintf("(WKKey %d)", keyIdx)
		}
	}
	switch {
	case len(sh.Sig) == 0:
		v.sigTerm = "WSEmpty"
	default:
		if si, ok := sigTable[string(sh.Sig)]; ok {
			v.sigTerm = fmt.Sprintf("(WSSig %d %s)", si.k, vlib.CoqBytes(si.msg))
		} else if keyIdx >= 0 && verifies(v.key, layout(v.cid, sh.Topic), sh.Sig) {
			// other bytes that the verifier takes for the pool key's signature over exactly
			// what Validate checks (a second encoding of one signature)
			v.sigTerm = fmt.Sprintf("(WSSig %d %s)", keyIdx, vlib.CoqBytes(layout(v.cid, sh.Topic)))
			v.equiv = true
		} else {
			v.sigTerm = fmt.Sprintf("(WSJunk %d)", pool.JunkIndex(sh.Sig))
		}
	}
	return v
}

func verifies(k ic.PubKey, msg, sig []byte) (ok bool) {
	defer func() {
		if recover() != nil {
			ok = false
		}
	}()
	ok, err := k.Verify(msg, sig)
	return err == nil && ok
}

func (v *view) term() string {
	return fmt.Sprintf("(WHead %s %s %s %s)", coqCid(v.cid), coqTopic(v.sh.Topic), v.keyTerm, v.sigTerm)
}

func optViewTerm(v *view) string {
	if v == nil {
		return "None"
	}
	return "(Some " + v.term() + ")"
}

// sameHead: two decoded heads are field-wise identical (an altered encoding that decodes
// to the very same head is not an altered head)
func sameHead(a, b *head.SignedHead) bool {
	la, _ := a.Head.(cidlink.Link)
	lb, _ := b.Head.(cidlink.Link)
	if !la.Cid.Equals(lb.Cid) {
		return false
	}
	if (a.Topic == nil) != (b.Topic == nil) || (a.Topic != nil && *a.Topic != *b.Topic) {
		return false
	}
	return bytes.Equal(a.Pubkey, b.Pubkey) && bytes.Equal(a.Sig, b.Sig)
}
