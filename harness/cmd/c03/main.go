// c03: a chain head is accepted only when signed by the expected publisher.
//
// Real code driven: head.NewSignedHead / Encode / Decode / Validate, ipnisync
// Syncer.GetHead and dagsync.Subscriber.SyncAdChain (nil host, HTTP) against an httptest
// server that returns crafted heads and serves real blocks through a real
// ipnisync.Publisher handler, and Publisher.ServeHTTP for "head".  Real keys of all four
// libp2p key types.  The Coq model is symbolic: it gets the decoded head with the key
// named by its pool index and the signature named by (signer, message), never signature
// bytes.
//
// Families of Coq cases:
//
//	payload   Cid.Bytes() ++ topic layout; tied to the real Sign/Validate through the verifier
//	validate  head.Decode(bytes).Validate(): signer or error class
//	gethead   Syncer.GetHead with an expected peer ID (or none)
//	serve     what a Publisher writes for "head" (root set / not set, topic)
//	sub       Subscriber.SyncAdChain: result, requests after the head request, latest-sync
//	gethist   several head queries through ONE Syncer (each step judged as if it were the first)
//	subhist   several SyncAdChain calls on ONE Subscriber (latest-sync threaded through)
//	pubsched  the real Publisher under deterministic SetRoot / head-request interleavings
//	both      every sub / subhist observation against C03's model AND C01's model of the chain
//	          sync that follows (request log, latest-sync, store threaded through a history)
//
// Direct oracles (Go only, from the property text): see oracle.go.
package main

import (
	"bytes"
	"encoding/hex"
	"fmt"
	"net/url"
	"runtime/debug"
	"unicode/utf8"

	"github.com/ipfs/go-cid"
	"github.com/ipfs/go-datastore"
	dssync "github.com/ipfs/go-datastore/sync"
	logging "github.com/ipfs/go-log/v2"
	"github.com/ipni/go-libipni/dagsync/ipnisync"
	ic "github.com/libp2p/go-libp2p/core/crypto"
	"github.com/libp2p/go-libp2p/core/peer"
	"github.com/multiformats/go-multiaddr"

	"verif/harness/keypool"
	"verif/harness/vlib"
)

var (
	pool  *keypool.Pool
	srv   *server
	chain []cid.Cid // real blocks in the publisher's store, oldest first
)

func mustURL(s string) *url.URL {
	u, err := url.Parse(s)
	if err != nil {
		panic(err)
	}
	return u
}

func hx(b []byte) string { return hex.EncodeToString(b) }

type replayT struct {
	Kind     string `json:"kind"` // validate | gethead | sub | serve | gethist | subhist
	Status   int    `json:"status,omitempty"`
	Body     string `json:"head_hex,omitempty"`
	BodyText string `json:"head_text,omitempty"`
	Expected string `json:"expected_peer,omitempty"` // "" = none
	// sub
	AddrIDs []string `json:"addr_p2p_ids,omitempty"`
	Latest0 string   `json:"latest_before,omitempty"`
	// serve
	KeyPriv string `json:"privkey_hex,omitempty"`
	KeyType string `json:"key_type,omitempty"`
	Topic   string `json:"topic,omitempty"`
	// size: topic of this many bytes built by topicOfLen (when too long to spell out)
	TopicLen int `json:"topic_len,omitempty"`
	// size: topic bytes in hex (topics that JSON text cannot carry)
	TopicHex string `json:"topic_hex,omitempty"`
	Root     string `json:"root,omitempty"`
	Expect   string `json:"expect,omitempty"`
	Sig      string `json:"signature,omitempty"`
	Note     string `json:"note,omitempty"`
	// ipnisync.NewSync option set of the client ("" = default)
	ClientOpt string `json:"client_options,omitempty"`
	// shape of the address list given to NewSyncer / SyncAdChain ("" = just the address)
	AddrShape string `json:"address_list,omitempty"`
	// pubsched: the publisher's roots and the schedule of SetRoot / head requests
	Roots    []string `json:"roots,omitempty"`
	Schedule []pstep  `json:"schedule,omitempty"`
	// gethist / subhist: the responses served, in order, to ONE Syncer / ONE Subscriber
	Steps []replayStep `json:"steps,omitempty"`
}

func main() {
	debug.SetMemoryLimit(2 << 30)
	_ = logging.SetLogLevel("*", "fatal")
	c := vlib.Init("C03")
	defer c.Finish()
	req := []string{"From Lib Require Import Cid SymCrypto.", "From Model Require Import C03_SignedHead."}
	c.Family("payload", req, "payload_case_ok", 300)
	c.Family("validate", req, "validate_case_ok", 250)
	c.Family("gethead", req, "gethead_case_ok", 250)
	c.Family("serve", req, "serve_case_ok", 250)
	c.Family("sub", req, "sub_case_ok", 200)
	c.Family("gethist", req, "gethist_case_ok", 60)
	c.Family("subhist", req, "subhist_case_ok", 40)
	c.Family("pubsched", req, "pubsched_case_ok", 40)
	c.Family("both", []string{"From Lib Require Import Cid SymCrypto.", "From Model Require Import C03_SignedHead Compose_C03_C01."}, "both_case_ok", 150)

	pool = keypool.New(c.Rng.Fork("pool"), 3)
	// larger RSA keys (their signed heads exceed 1 KiB); cached on disk, deterministic for the seed
	for _, bits := range []int{3072, 4096} {
		k, err := keypool.BigRSA(c.Rng.Fork("pool"), bits, keyCacheDir())
		if err != nil {
			panic(err)
		}
		pool.Add(fmt.Sprintf("rsa%d", bits), k)
	}
	serverKey, err := keypool.Gen(c.Rng.Fork("server"), "ed25519")
	if err != nil {
		panic(err)
	}
	pubStore := mkLinkSystem(dssync.MutexWrap(datastore.NewMapDatastore()))
	chain = mkChain(pubStore, 4)
	srv = newServer(pubStore, serverKey)
	defer srv.ts.Close()
	sharedSync = ipnisync.NewSync(mkLinkSystem(dssync.MutexWrap(datastore.NewMapDatastore())), nil)
	defer sharedSync.Close()
	deadAddr = deadHTTPAddr()
	defer func() {
		for _, s := range syncs {
			s.Close()
		}
	}()

	if c.Replay != "" {
		var r replayT
		if err := c.LoadReplay(&r); err != nil {
			panic(err)
		}
		runReplay(c, r)
		return
	}

	c.Res.Exhaustive = true
	c.Res.Rule = "keys: 3 identities x {Ed25519, Secp256k1, ECDSA-P256, RSA-2048} from the seeded PRNG. " +
		"roots: CIDv1 dag-json sha2-256 (real chain blocks), CIDv1 raw identity, CIDv0, CIDv1 sha2-512; topics: none, 1 B, the mainnet topic, 64 B, non-ASCII. " +
		"scenarios per (key type, root, topic): Honest k; ResignBy k' (same and other key type); SwapKeySig between two valid heads (other root/topic, same root/topic); " +
		"SetField cid / topic (other, absent<->present, empty, extended, truncated, byte moved between CID and topic) / pubkey (other key, other type, empty, garbage, truncated) / sig (other head's, empty, truncated, garbage, second encodings); " +
		"FlipByte at EVERY byte offset of the DAG-JSON encoding of one head per key type; truncations, malformed JSON, missing / extra / duplicate fields; HTTP 204/404/500. " +
		"Each response goes through Decode+Validate, through Syncer.GetHead with expected = the honest signer / another identity / none, and (a subset) through Subscriber.SyncAdChain with latest-sync unset / an older block / the head itself and the peer ID given directly, only inside the address, or not at all. " +
		"Publisher: every key x topic x root set / unset. " +
		"Sizes: key types Ed25519 / RSA-2048 / RSA-3072 / RSA-4096 x topics of 0, 1, 100, 700, 1024, 4096, 65536 bytes (and JSON-special, NUL, non-ASCII topics): what NewSignedHead+Encode produce and what a real Publisher serves must Decode, Validate and be accepted by GetHead for the publisher and rejected for another identity (encoded heads from 280 B to 66 KB). " +
		"Address lists: the honest / re-signed / planted-signature heads through Sync.NewSyncer + GetHead and through Subscriber.SyncAdChain with the address list given as [nil, a], [a, nil], [a, nil, a], [nil, nil, a], [a, a], [dead, a], [nil]: expected publisher != signer is rejected whatever the list looks like, the honest head accepted whenever an address is usable. " +
		"Kept bytes: Encode, then Encode other heads (other key / root / length): the first bytes are unchanged and still decode and verify; Publisher responses written in two halves with SetRoot and another head request in between. " +
		"Client options: the full scenario table (expected = signer / two other identities / none), unusable responses and two histories through Syncer.GetHead for every non-default ipnisync.NewSync option set (ClientAuthServerPeerID, retrying HTTP client, timeout, combinations). " +
		"Publisher under concurrency: deterministic schedules with a private key whose Sign waits on a latch: head requests in flight (1..3, released in every order) while SetRoot is called once or twice (incl. to no root); every head request started after a SetRoot returned must serve a verifying head for exactly that root. " +
		"Histories on ONE Syncer and on ONE Subscriber (16 per key type): a genuine head, then its key+signature on another CID / topic / another identity's head, with rejected responses and further genuine heads in between; every step judged as if it were the first. " +
		"non-trivial = the response decodes to a head carrying a signature some pool key really made (the verdict depends on who signed what and on who is expected)"
	genPayload(c)
	genServe(c)
	genScenarios(c)
	genFlips(c)
	genMalformed(c)
	genSubscriber(c)
	genHistories(c)
	genOptions(c)
	genPublisherSchedules(c)
	genSizes(c)
	genAddrShapes(c)
	genKeptBytes(c)
}

func peerStr(id peer.ID) string {
	if id == "" {
		return ""
	}
	return id.String()
}

func runReplay(c *vlib.Ctx, r replayT) {
	fmt.Printf("replay kind=%s %s\n", r.Kind, r.Note)
	body, _ := hex.DecodeString(r.Body)
	var exp peer.ID
	if r.Expected != "" {
		var err error
		exp, err = peer.Decode(r.Expected)
		if err != nil {
			panic(err)
		}
	}
	status := r.Status
	if status == 0 {
		status = 200
	}
	sc := scenario{name: "replay", status: status, body: body, expect: r.Expect, sig: r.Sig}
	curOpt, curAddrShape = r.ClientOpt, r.AddrShape
	switch r.Kind {
	case "validate":
		doValidate(c, sc)
	case "gethead":
		res := doGetHead(c, sc, exp)
		fmt.Printf("  GetHead(expected=%q) returned %s %s %s\n", peerStr(exp), res.kind, cidStr(res.cid), res.err)
	case "sub":
		var l0 cid.Cid
		if r.Latest0 != "" {
			l0, _ = cid.Decode(r.Latest0)
		}
		var ids []peer.ID
		for _, s := range r.AddrIDs {
			id, _ := peer.Decode(s)
			ids = append(ids, id)
		}
		res := doSub(c, sc, exp, ids, l0)
		fmt.Printf("  SyncAdChain returned %s %s %s; head requests=%d, block requests after head=%d, latest-sync before=%s after=%s\n",
			res.kind, cidStr(res.cid), res.err, res.heads, len(res.blocks), cidStr(res.latest0), cidStr(res.latest))
	case "gethist", "subhist":
		var steps []scenario
		for _, st := range r.Steps {
			b, _ := hex.DecodeString(st.Body)
			steps = append(steps, scenario{name: st.Name, keyType: "replay", status: st.Status, body: b})
		}
		if r.Kind == "gethist" {
			for i, res := range runGetHeadHist(srv, exp, steps) {
				fmt.Printf("  step %d %-50s GetHead(expected=%q) returned %s %s %s\n", i+1, steps[i].name, peerStr(exp), res.kind, cidStr(res.cid), res.err)
			}
			doGetHeadHist(c, "replay", exp, steps)
		} else {
			var l0 cid.Cid
			if r.Latest0 != "" {
				l0, _ = cid.Decode(r.Latest0)
			}
			ai := peer.AddrInfo{ID: exp, Addrs: []multiaddr.Multiaddr{srv.maddr}}
			for i, res := range runSubHist(srv, ai, exp, l0, steps) {
				fmt.Printf("  step %d %-50s SyncAdChain returned %s %s %s; block requests after head=%d, latest-sync %s -> %s\n", i+1, steps[i].name,
					res.kind, cidStr(res.cid), res.err, len(res.blocks), cidStr(res.latest0), cidStr(res.latest))
			}
			doSubHist(c, "replay", exp, l0, steps)
		}
	case "pubsched":
		kb, _ := hex.DecodeString(r.KeyPriv)
		k, err := ic.UnmarshalPrivateKey(kb)
		if err != nil {
			panic(err)
		}
		var id *keypool.Identity
		for _, it := range pool.Ids {
			if it.Pub.Equals(k.GetPublic()) {
				id = it
			}
		}
		if id == nil {
			id = pool.Add(r.KeyType, k)
		}
		var roots []cid.Cid
		for _, s := range r.Roots {
			rc, _ := cid.Decode(s)
			roots = append(roots, rc)
		}
		fmt.Printf("  publisher %s topic=%q schedule %s\n", id.ID, r.Topic, schedName(r.Schedule))
		doPubSched(c, id, r.Topic, roots, r.Schedule)
	case "keptbytes":
		genKeptBytes(c)
	case "size":
		kb, _ := hex.DecodeString(r.KeyPriv)
		k, err := ic.UnmarshalPrivateKey(kb)
		if err != nil {
			panic(err)
		}
		var id *keypool.Identity
		for _, it := range pool.Ids {
			if it.Pub.Equals(k.GetPublic()) {
				id = it
			}
		}
		if id == nil {
			id = pool.Add(r.KeyType, k)
		}
		topic := r.Topic
		if r.TopicLen > 0 {
			topic = topicOfLen(r.TopicLen)
		}
		if r.TopicHex != "" {
			tb, _ := hex.DecodeString(r.TopicHex)
			topic = string(tb)
		}
		root, _ := cid.Decode(r.Root)
		fmt.Printf("  key %s (%s), topic of %d bytes\n", id.ID, id.Type, len(topic))
		if !utf8.ValidString(topic) {
			doNonUTF8Topic(c, id, topic, root)
			st, body := servedHead(id.Priv, topic, root)
			fmt.Printf("  publisher with topic %q serves status %d: %s\n", topic, st, bytes.TrimSpace(body))
		} else {
			doSize(c, id, topic, root, "replay")
		}
	case "serve":
		kb, _ := hex.DecodeString(r.KeyPriv)
		var root cid.Cid
		if r.Root != "" {
			root, _ = cid.Decode(r.Root)
		}
		doServeReplay(c, kb, r.KeyType, r.Topic, root)
	default:
		panic("unknown replay kind " + r.Kind)
	}
	for _, f := range c.Res.OracleFailures {
		fmt.Printf("  ORACLE FAILURE %s: %s\n", f.Signature, f.Desc)
	}
	if len(c.Res.OracleFailures) == 0 {
		fmt.Println("  no oracle failure")
	}
}

func cidStr(c cid.Cid) string {
	if c == cid.Undef {
		return "-"
	}
	return c.String()
}
