package main

// Scenario language over signed heads and the generators.

import (
	"bytes"
	"crypto/elliptic"
	"crypto/sha256"
	"crypto/sha512"
	"encoding/asn1"
	"encoding/base64"
	"fmt"
	"math/big"
	"net"
	"strings"

	"github.com/ipfs/go-cid"
	"github.com/ipld/go-ipld-prime"
	cidlink "github.com/ipld/go-ipld-prime/linking/cid"
	"github.com/ipni/go-libipni/dagsync/ipnisync/head"
	ic "github.com/libp2p/go-libp2p/core/crypto"
	"github.com/libp2p/go-libp2p/core/peer"
	"github.com/multiformats/go-multiaddr"
	"github.com/multiformats/go-multihash"

	"verif/harness/keypool"
	"verif/harness/vlib"
)

const mainnetTopic = "/indexer/ingest/mainnet"

func sp(s string) *string { return &s }

func otherRoots() []cid.Cid {
	idm, _ := multihash.Encode([]byte("identity-root"), multihash.IDENTITY)
	h := sha256.Sum256([]byte("v0"))
	m0, _ := multihash.Encode(h[:], multihash.SHA2_256)
	h5 := sha512.Sum512([]byte("sha512"))
	m5, _ := multihash.Encode(h5[:], multihash.SHA2_512)
	return []cid.Cid{cid.NewCidV1(cid.Raw, idm), cid.NewCidV0(m0), cid.NewCidV1(cid.DagCBOR, m5)}
}

func topics() []string {
	return []string{"", "t", mainnetTopic, string(rep('T', 64)), "/indexer/ingest/テスト"}
}

func rep(b byte, n int) []byte {
	out := make([]byte, n)
	for i := range out {
		out[i] = b
	}
	return out
}

func link(c cid.Cid) ipld.Link { return cidlink.Link{Cid: c} }

// honest: the real constructor; its signature is recorded (after the real verifier
// confirmed it over the harness' layout)
func honest(c *vlib.Ctx, id *keypool.Identity, root cid.Cid, topic string) *head.SignedHead {
	sh, err := head.NewSignedHead(root, topic, id.Priv)
	if err != nil {
		panic(err)
	}
	if !recordSig(id.Index, layout(root, sh.Topic), sh.Sig) {
		c.Fail("newsignedhead:signature-not-over-cid-topic:"+id.Type, "NewSignedHead's signature does not verify over cid||topic", nil)
	}
	return sh
}

func signRaw(id *keypool.Identity, msg []byte) []byte {
	sig, err := id.Priv.Sign(msg)
	if err != nil {
		panic(err)
	}
	if !recordSig(id.Index, msg, sig) {
		panic("own signature does not verify")
	}
	return sig
}

func marshalPub(k ic.PubKey) []byte {
	b, err := ic.MarshalPublicKey(k)
	if err != nil {
		panic(err)
	}
	return b
}

func encode(sh *head.SignedHead) []byte {
	b, err := sh.Encode()
	if err != nil {
		panic(err)
	}
	return b
}

func with(sh *head.SignedHead, f func(*head.SignedHead)) *head.SignedHead {
	n := *sh
	n.Pubkey = append([]byte{}, sh.Pubkey...)
	n.Sig = append([]byte{}, sh.Sig...)
	f(&n)
	return &n
}

// ---- payload layout ----

func genPayload(c *vlib.Ctx) {
	a := pool.Ids[0]
	roots := append([]cid.Cid{chain[len(chain)-1]}, otherRoots()...)
	for _, root := range roots {
		for _, t := range []*string{nil, sp(""), sp("t"), sp(mainnetTopic), sp(string(rep('x', 200)))} {
			msg := layout(root, t)
			c.Eval()
			c.Count("payload")
			c.Case("payload", fmt.Sprintf("(PayloadCase %s %s %s %s)", coqCid(root), coqTopic(t), vlib.CoqBytes(root.Bytes()), vlib.CoqBytes(msg)),
				map[string]interface{}{"cid": root.String(), "topic": t})
			// a signature the harness makes over the layout is accepted by the real Validate
			sh := &head.SignedHead{Head: link(root), Topic: t, Pubkey: marshalPub(a.Pub), Sig: signRaw(a, msg)}
			if id, err := sh.Validate(); err != nil || id != a.ID {
				c.Fail("payload:layout", fmt.Sprintf("a signature over cid||topic is not accepted by Validate for cid=%s topic=%v: %v", root, t, err), nil)
			}
			// and the real Sign signs exactly that layout
			ts := ""
			if t != nil {
				ts = *t
			}
			h, err := head.NewSignedHead(root, ts, a.Priv)
			if err != nil || !verifies(a.Pub, msg, h.Sig) {
				c.Fail("payload:sign-layout", fmt.Sprintf("NewSignedHead's signature does not verify over cid||topic for cid=%s", root), nil)
			}
		}
	}
}

// ---- publisher ----

func genServe(c *vlib.Ctx) {
	roots := append([]cid.Cid{cid.Undef, chain[len(chain)-1], chain[0]}, otherRoots()...)
	for _, id := range pool.Ids {
		for ti, t := range topics() {
			for ri, root := range roots {
				// every key with every topic on the chain head; the other roots on the first identity of each type
				if ri > 1 && id.Index%3 != 0 {
					continue
				}
				if ri > 2 && ti > 2 && !c.Thorough() {
					continue
				}
				doServe(c, id, t, root)
			}
		}
	}
}

// ---- the scenario table ----

type built struct {
	name   string
	sh     *head.SignedHead
	expect string
}

func scenariosFor(c *vlib.Ctx, a, b, o *keypool.Identity, root cid.Cid, topic string, full bool) []built {
	ha := honest(c, a, root, topic)
	var out []built
	add := func(name string, sh *head.SignedHead, expect string) { out = append(out, built{name, sh, expect}) }
	add("Honest", ha, "accept")
	add("ResignBy:same-type", honest(c, b, root, topic), "reject")
	add("ResignBy:other-type", honest(c, o, root, topic), "reject")
	otherRoot := chain[0]
	if root.Equals(otherRoot) {
		otherRoot = chain[1]
	}
	otherTopic := topic + "x"
	add("SetField:cid:=other", with(ha, func(s *head.SignedHead) { s.Head = link(otherRoot) }), "reject")
	add("SetField:topic:=extended", with(ha, func(s *head.SignedHead) { s.Topic = sp(otherTopic) }), "reject")
	if topic != "" {
		add("SetField:topic:=absent", with(ha, func(s *head.SignedHead) { s.Topic = nil }), "reject")
		add("SetField:topic:=empty", with(ha, func(s *head.SignedHead) { s.Topic = sp("") }), "reject")
		add("SetField:topic:=truncated", with(ha, func(s *head.SignedHead) { s.Topic = sp(topic[:len(topic)-1]) }), "reject")
	} else {
		add("SetField:topic:=present", with(ha, func(s *head.SignedHead) { s.Topic = sp("t") }), "reject")
		// an absent topic and an empty one are the same topic for the signature (both sign the bare CID)
		add("SetField:topic:=empty-for-absent", with(ha, func(s *head.SignedHead) { s.Topic = sp("") }), "accept")
	}
	if !full {
		return out
	}
	hb := honest(c, b, otherRoot, otherTopic)
	ho := honest(c, o, root, topic)
	// key and signature of another valid head
	add("SwapKeySig:other-head-other-identity", with(ha, func(s *head.SignedHead) { s.Pubkey, s.Sig = hb.Pubkey, hb.Sig }), "reject")
	add("SwapKeySig:same-cid-topic-other-type", with(ha, func(s *head.SignedHead) { s.Pubkey, s.Sig = ho.Pubkey, ho.Sig }), "reject")
	add("SwapKeySig:own-key-sig-on-other-head", with(hb, func(s *head.SignedHead) { s.Pubkey, s.Sig = ha.Pubkey, ha.Sig }), "reject")
	// cid
	for i, r := range otherRoots() {
		if !r.Equals(root) {
			add(fmt.Sprintf("SetField:cid:=other-form-%d", i), with(ha, func(s *head.SignedHead) { s.Head = link(r) }), "reject")
		}
	}
	if root.Version() == 1 {
		// same multihash, other codec
		add("SetField:cid:=same-hash-other-codec", with(ha, func(s *head.SignedHead) { s.Head = link(cid.NewCidV1(root.Type()^1, root.Hash())) }), "reject")
	}
	// bytes moved between CID and topic: sign (identity CID over d1||d2, topic T) and present (identity CID over d1, topic d2||T)
	{
		d := []byte("abcdefgh")
		long, _ := multihash.Encode(d, multihash.IDENTITY)
		short, _ := multihash.Encode(d[:4], multihash.IDENTITY)
		cl, cs := cid.NewCidV1(cid.Raw, long), cid.NewCidV1(cid.Raw, short)
		hl := honest(c, a, cl, topic)
		add("Boundary:digest-tail-moved-into-topic", with(hl, func(s *head.SignedHead) { s.Head = link(cs); s.Topic = sp(string(d[4:]) + topic) }), "reject")
		// sign the raw concatenation the other way round
		t2 := string(d[4:]) + topic
		sig := signRaw(a, append(append([]byte{}, cl.Bytes()...), topic...))
		add("Boundary:signed-long-cid-presented-short-cid-plus-topic", &head.SignedHead{Head: link(cs), Topic: &t2, Pubkey: marshalPub(a.Pub), Sig: sig}, "reject")
	}
	// pubkey
	add("SetField:pubkey:=other-identity", with(ha, func(s *head.SignedHead) { s.Pubkey = marshalPub(b.Pub) }), "reject")
	add("SetField:pubkey:=other-type", with(ha, func(s *head.SignedHead) { s.Pubkey = marshalPub(o.Pub) }), "reject")
	add("SetField:pubkey:=empty", with(ha, func(s *head.SignedHead) { s.Pubkey = nil }), "reject")
	add("SetField:pubkey:=garbage", with(ha, func(s *head.SignedHead) { s.Pubkey = []byte{1, 2, 3, 4, 5} }), "reject")
	add("SetField:pubkey:=truncated", with(ha, func(s *head.SignedHead) { s.Pubkey = s.Pubkey[:len(s.Pubkey)-1] }), "reject")
	add("SetField:pubkey:=extended", with(ha, func(s *head.SignedHead) { s.Pubkey = append(s.Pubkey, 0) }), "")
	// sig
	add("SetField:sig:=other-head's", with(ha, func(s *head.SignedHead) { s.Sig = hb.Sig }), "reject")
	add("SetField:sig:=same-payload-other-signer", with(ha, func(s *head.SignedHead) { s.Sig = ho.Sig }), "reject")
	add("SetField:sig:=empty", with(ha, func(s *head.SignedHead) { s.Sig = nil }), "reject")
	add("SetField:sig:=garbage", with(ha, func(s *head.SignedHead) { s.Sig = []byte{9, 8, 7} }), "reject")
	add("SetField:sig:=truncated", with(ha, func(s *head.SignedHead) { s.Sig = s.Sig[:len(s.Sig)-1] }), "reject")
	add("SetField:sig:=signed-other-cid", with(ha, func(s *head.SignedHead) { s.Sig = signRaw(a, layout(otherRoot, s.Topic)) }), "reject")
	add("SetField:sig:=signed-other-topic", with(ha, func(s *head.SignedHead) { s.Sig = signRaw(a, layout(root, &otherTopic)) }), "reject")
	add("SetField:sig:=signed-topic-only", with(ha, func(s *head.SignedHead) { s.Sig = signRaw(a, []byte(topic+"!")) }), "reject")
	// second encodings of the same signature (no verdict demanded: same signer, same message)
	add("SigEncoding:trailing-byte", with(ha, func(s *head.SignedHead) { s.Sig = append(s.Sig, 0) }), "")
	if ns := negateS(a.Type, ha.Sig); ns != nil {
		add("SigEncoding:negated-s", with(ha, func(s *head.SignedHead) { s.Sig = ns }), "")
	}
	return out
}

func genScenarios(c *vlib.Ctx) {
	headCid := chain[len(chain)-1]
	for ti, typ := range keypool.KeyTypes {
		ids := pool.OfType(typ)
		a, b := ids[0], ids[1]
		o := pool.Ids[(a.Index+3)%len(pool.Ids)]
		roots := append([]cid.Cid{headCid}, otherRoots()...)
		for ri, root := range roots {
			for tj, topic := range topics() {
				full := (ri == 0 && (tj == 0 || tj == 2)) || (ri == (ti%3)+1 && tj == 2) || c.Thorough()
				for _, bs := range scenariosFor(c, a, b, o, root, topic, full) {
					sc := scenario{name: bs.name, keyType: typ, status: 200, body: encode(bs.sh), signer: a, expect: bs.expect, wantCid: root,
						sig: bs.name + ":" + typ}
					c.Count("scenario:" + bs.name)
					doValidate(c, sc)
					doGetHead(c, sc, a.ID)
					if full || bs.expect == "accept" || tj == 2 {
						doGetHead(c, sc, b.ID)
						doGetHead(c, sc, "")
					}
					if len(bs.name) > 12 && bs.name[:12] == "SigEncoding:" {
						if r := runGetHead(srv, a.ID); r.kind == "ok" {
							key := "second-signature-encoding-accepted:" + typ + ":" + bs.name[12:]
							if c.Res.Distribution[key] == 0 {
								c.Note("signature scheme " + typ + " accepts a second encoding of a signature (" + bs.name[12:] + "): same signer, same message; named as the same symbolic signature")
							}
							c.Count(key)
						}
					}
				}
			}
		}
	}
}

// ---- every byte of the encoded head ----

func genFlips(c *vlib.Ctx) {
	rng := c.Rng.Fork("flips")
	headCid := chain[len(chain)-1]
	for _, typ := range keypool.KeyTypes {
		a := pool.OfType(typ)[0]
		for _, topic := range []string{mainnetTopic, ""} {
			if topic == "" && typ != "ed25519" && !c.Thorough() {
				continue
			}
			base := honest(c, a, headCid, topic)
			// ECDSA signatures are randomised and their DER length varies (70..72): keep the most
			// common one so that the set of flipped offsets is the same on every run
			for try := 0; typ == "ecdsa" && len(base.Sig) != 71 && try < 200; try++ {
				base = honest(c, a, headCid, topic)
			}
			data := encode(base)
			n := 1
			if c.Thorough() {
				n = 5
			}
			for i := range data {
				seen := map[byte]bool{0: true}
				xs := []byte{1 << uint(rng.Intn(8))} // a random bit ...
				if i%2 == 0 || c.Thorough() {
					xs = append(xs, 0x20) // ... and the ASCII case bit (base32 text and hex digits are case-insensitive)
				}
				for len(xs) < n {
					xs = append(xs, byte(1+rng.Intn(255)))
				}
				for _, x := range xs {
					if seen[x] {
						continue
					}
					seen[x] = true
					alt := append([]byte{}, data...)
					alt[i] ^= x
					sc := scenario{name: "FlipByte", keyType: typ, status: 200, body: alt, signer: a, base: base, expect: "reject-or-same", wantCid: headCid,
						sig: fmt.Sprintf("FlipByte:%s:%s", fieldOfOffset(data, i), typ)}
					c.Count("flip:" + fieldOfOffset(data, i))
					doValidateOpt(c, sc, c.Thorough())
					doGetHead(c, sc, a.ID)
				}
			}
		}
	}
}

// fieldOfOffset: which JSON member of the encoded head byte i belongs to (for the
// distribution and the failure signature)
func fieldOfOffset(data []byte, i int) string {
	best, name := -1, "frame"
	for _, f := range []string{`"head"`, `"topic"`, `"pubkey"`, `"sig"`} {
		for j := 0; j+len(f) <= len(data) && j <= i; j++ {
			if string(data[j:j+len(f)]) == f && j > best {
				best, name = j, f[1:len(f)-1]
			}
		}
	}
	return name
}

// ---- malformed responses ----

func genMalformed(c *vlib.Ctx) {
	rng := c.Rng.Fork("malformed")
	a := pool.Ids[0]
	headCid := chain[len(chain)-1]
	base := honest(c, a, headCid, mainnetTopic)
	data := encode(base)
	run := func(name string, status int, body []byte, expect string) {
		sc := scenario{name: name, keyType: a.Type, status: status, body: body, signer: a, base: base, expect: expect, wantCid: headCid, sig: name + ":" + a.Type}
		c.Count("malformed:" + name)
		doValidate(c, sc)
		doGetHead(c, sc, a.ID)
		doGetHead(c, sc, "")
	}
	for _, st := range []int{204, 404, 403, 500, 301} {
		run(fmt.Sprintf("Status:%d", st), st, data, "reject")
	}
	run("Body:empty", 200, nil, "reject")
	run("Body:null", 200, []byte("null"), "reject")
	run("Body:{}", 200, []byte("{}"), "reject")
	run("Body:[]", 200, []byte("[]"), "reject")
	run("Body:string", 200, []byte(`"head"`), "reject")
	for n := 0; n < len(data); n++ {
		if n%3 != 0 && !c.Thorough() {
			continue
		}
		run("Body:truncated", 200, data[:n], "reject")
	}
	for n := 0; n < c.Pick(40, 1000); n++ {
		run("Body:random", 200, rng.Bytes(1+rng.Intn(120)), "reject")
	}
	run("Body:trailing-garbage", 200, append(append([]byte{}, data...), []byte("x")...), "reject-or-same")
	run("Body:trailing-whitespace", 200, append(append([]byte{}, data...), ' ', '\n'), "reject-or-same")
	run("Body:two-heads", 200, append(append([]byte{}, data...), data...), "reject-or-same")
	// hand-written JSON: missing, extra and duplicated members
	v := decodeView(data)
	cidS, keyB, sigB := v.cid.String(), b64(base.Pubkey), b64(base.Sig)
	other := honest(c, pool.Ids[1], headCid, mainnetTopic)
	js := func(members string) []byte { return []byte("{" + members + "}") }
	mHead := `"head":{"/":"` + cidS + `"}`
	mTopic := `"topic":"` + mainnetTopic + `"`
	mKey := `"pubkey":{"/":{"bytes":"` + keyB + `"}}`
	mSig := `"sig":{"/":{"bytes":"` + sigB + `"}}`
	run("Json:canonical-by-hand", 200, js(mHead+","+mTopic+","+mKey+","+mSig), "reject-or-same")
	run("Json:other-member-order", 200, js(mSig+","+mKey+","+mTopic+","+mHead), "reject-or-same")
	run("Json:no-head", 200, js(mTopic+","+mKey+","+mSig), "reject")
	run("Json:no-topic", 200, js(mHead+","+mKey+","+mSig), "reject")
	run("Json:no-pubkey", 200, js(mHead+","+mTopic+","+mSig), "reject")
	run("Json:no-sig", 200, js(mHead+","+mTopic+","+mKey), "reject")
	run("Json:extra-member", 200, js(mHead+","+mTopic+","+mKey+","+mSig+`,"x":1`), "reject-or-same")
	run("Json:duplicate-sig-other-first", 200, js(mHead+","+mTopic+","+mKey+`,"sig":{"/":{"bytes":"`+b64(other.Sig)+`"}},`+mSig), "reject-or-same")
	run("Json:duplicate-key-other-last", 200, js(mHead+","+mTopic+","+mKey+","+mSig+`,"pubkey":{"/":{"bytes":"`+b64(other.Pubkey)+`"}}`), "reject-or-same")
	run("Json:head-not-a-link", 200, js(`"head":"`+cidS+`",`+mTopic+","+mKey+","+mSig), "reject")
	run("Json:head-bad-cid", 200, js(`"head":{"/":"bafyNOT"},`+mTopic+","+mKey+","+mSig), "reject")
	run("Json:topic-null", 200, js(mHead+`,"topic":null,`+mKey+","+mSig), "reject")
	run("Json:topic-number", 200, js(mHead+`,"topic":7,`+mKey+","+mSig), "reject")
	run("Json:sig-string", 200, js(mHead+","+mTopic+","+mKey+`,"sig":"`+sigB+`"`), "reject")
	run("Json:cid-upper-case", 200, js(`"head":{"/":"`+upperMultibase(cidS)+`"},`+mTopic+","+mKey+","+mSig), "reject-or-same")
}

// ---- subscriber ----

func genSubscriber(c *vlib.Ctx) {
	headCid := chain[len(chain)-1]
	older := chain[1]
	for ti, typ := range keypool.KeyTypes {
		ids := pool.OfType(typ)
		a, b := ids[0], ids[1]
		o := pool.Ids[(a.Index+3)%len(pool.Ids)]
		roots := []cid.Cid{headCid}
		if ti == 0 || c.Thorough() {
			roots = append(roots, chain[2], otherRoots()[0])
		}
		for _, root := range roots {
			for tj, topic := range []string{mainnetTopic, ""} {
				full := root.Equals(headCid) && tj == 0
				for _, bs := range scenariosFor(c, a, b, o, root, topic, full) {
					sc := scenario{name: bs.name, keyType: typ, status: 200, body: encode(bs.sh), signer: a, expect: bs.expect, wantCid: root, sig: bs.name + ":" + typ}
					c.Count("sub-scenario:" + bs.name)
					// the peer ID given directly; latest-sync unset / an older block / the head itself
					doSub(c, sc, a.ID, nil, cid.Undef)
					if full || bs.expect == "accept" {
						doSub(c, sc, a.ID, nil, older)
						doSub(c, sc, a.ID, nil, root)
						// asked for another publisher than the one who signed
						doSub(c, sc, b.ID, nil, older)
						// the peer ID only inside the address
						doSub(c, sc, "", []peer.ID{a.ID}, older)
					}
					if bs.expect == "accept" || bs.name == "ResignBy:same-type" {
						// ID and address disagree: the ID given wins
						doSub(c, sc, a.ID, []peer.ID{b.ID}, cid.Undef)
						doSub(c, sc, b.ID, []peer.ID{a.ID}, cid.Undef)
						// two addresses carrying different IDs, no ID given: the first one counts
						doSub(c, sc, "", []peer.ID{"", a.ID, b.ID}, cid.Undef)
						doSub(c, sc, "", []peer.ID{b.ID, a.ID}, cid.Undef)
						// no peer ID anywhere
						doSub(c, sc, "", nil, older)
					}
				}
			}
		}
		// not a usable response at all
		base := honest(c, a, headCid, mainnetTopic)
		data := encode(base)
		for _, m := range []struct {
			name   string
			status int
			body   []byte
		}{{"Status:204", 204, data}, {"Status:404", 404, data}, {"Status:500", 500, data}, {"Body:empty", 200, nil}, {"Body:truncated", 200, data[:len(data)/2]}, {"Body:{}", 200, []byte("{}")}} {
			sc := scenario{name: m.name, keyType: typ, status: m.status, body: m.body, signer: a, expect: "reject", sig: m.name + ":" + typ}
			doSub(c, sc, a.ID, nil, cid.Undef)
			doSub(c, sc, a.ID, nil, older)
		}
	}
	// flips through the subscriber: a sample of offsets of one encoded head
	rng := c.Rng.Fork("sub-flips")
	a := pool.Ids[0]
	base := honest(c, a, headCid, mainnetTopic)
	data := encode(base)
	for i := range data {
		if i%4 != 0 && !c.Thorough() {
			continue
		}
		alt := append([]byte{}, data...)
		alt[i] ^= 1 << uint(rng.Intn(8))
		sc := scenario{name: "FlipByte", keyType: a.Type, status: 200, body: alt, signer: a, base: base, expect: "reject-or-same", wantCid: headCid,
			sig: fmt.Sprintf("FlipByte:%s:%s", fieldOfOffset(data, i), a.Type)}
		doSub(c, sc, a.ID, nil, older)
	}
}

// ---- helpers ----

var secp256k1N, _ = new(big.Int).SetString("FFFFFFFFFFFFFFFFFFFFFFFFFFFFFFFEBAAEDCE6AF48A03BBFD25E8CD0364141", 16)

func negateS(typ string, sig []byte) []byte {
	var n *big.Int
	switch typ {
	case "ecdsa":
		n = elliptic.P256().Params().N
	case "secp256k1":
		n = secp256k1N
	default:
		return nil
	}
	var rs struct{ R, S *big.Int }
	if _, err := asn1.Unmarshal(sig, &rs); err != nil {
		return nil
	}
	rs.S = new(big.Int).Sub(n, rs.S)
	out, err := asn1.Marshal(rs)
	if err != nil {
		return nil
	}
	return out
}

func b64(b []byte) string { return base64.RawStdEncoding.EncodeToString(b) }

// the same CID in multibase base32upper ("B...") instead of base32 ("b...")
func upperMultibase(s string) string { return strings.ToUpper(s) }

// ---- the option matrix of ipnisync.NewSync ----

// genOptions runs the foreign-signed / forged head scenarios through Syncer.GetHead for
// every non-default client option set: whatever the options, a head whose signer is not the
// publisher asked for is never accepted (and an honest one always is).
func genOptions(c *vlib.Ctx) {
	headCid := chain[len(chain)-1]
	defer func() { curOpt = "" }()
	for oi, opt := range optOrder[1:] {
		if (oi == 2 || oi == 4) && !c.Thorough() {
			continue // quick: the auth option alone, retry alone, and everything together
		}
		curOpt = opt
		for _, typ := range keypool.KeyTypes {
			ids := pool.OfType(typ)
			a, b := ids[0], ids[1]
			o := pool.Ids[(a.Index+3)%len(pool.Ids)]
			for ti, topic := range []string{mainnetTopic, ""} {
				for _, bs := range scenariosFor(c, a, b, o, headCid, topic, ti == 0) {
					sc := scenario{name: bs.name, keyType: typ, status: 200, body: encode(bs.sh), signer: a, expect: bs.expect, wantCid: headCid,
						sig: bs.name + ":" + typ}
					c.Count("option-scenario:" + bs.name)
					doGetHead(c, sc, a.ID)
					doGetHead(c, sc, b.ID)
					if ti == 0 && (oi != 1 || c.Thorough()) {
						doGetHead(c, sc, o.ID)
						doGetHead(c, sc, "")
					}
				}
			}
			// not a usable response
			base := encode(honest(c, a, headCid, mainnetTopic))
			for _, m := range []struct {
				name   string
				status int
				body   []byte
			}{{"Status:204", 204, base}, {"Status:404", 404, base}, {"Status:500", 500, base}, {"Body:empty", 200, nil}, {"Body:{}", 200, []byte("{}")}} {
				doGetHead(c, scenario{name: m.name, keyType: typ, status: m.status, body: m.body, signer: a, expect: "reject", sig: m.name + ":" + typ}, a.ID)
			}
			// two histories on one Syncer of this client
			hNew := honest(c, a, headCid, mainnetTopic)
			mk := func(name string, sh *head.SignedHead) scenario {
				return scenario{name: name, keyType: typ, status: 200, body: encode(sh), signer: a}
			}
			doGetHeadHist(c, typ, a.ID, []scenario{mk("Honest(new)", hNew), mk("ResignBy:b", honest(c, b, headCid, mainnetTopic)),
				mk("SetField:cid:=mid(key+sig of Honest(new))", with(hNew, func(s *head.SignedHead) { s.Head = link(chain[2]) })), mk("Honest(new)", hNew)})
			doGetHeadHist(c, typ, b.ID, []scenario{mk("Honest(new)", hNew), mk("ResignBy:b", honest(c, b, headCid, mainnetTopic))})
		}
	}
}

// ---- the shape of the address list ----

// an HTTP address nobody listens on
func deadHTTPAddr() multiaddr.Multiaddr {
	l, err := net.Listen("tcp", "127.0.0.1:0")
	if err != nil {
		panic(err)
	}
	port := l.Addr().(*net.TCPAddr).Port
	l.Close()
	m, err := multiaddr.NewMultiaddr(fmt.Sprintf("/ip4/127.0.0.1/tcp/%d/http", port))
	if err != nil {
		panic(err)
	}
	return m
}

// genAddrShapes: whatever the address list looks like (nil entries, duplicates, a dead
// address first), a head whose signer is not the publisher asked for is rejected, and the
// publisher's own head is accepted whenever the list holds a usable address.
func genAddrShapes(c *vlib.Ctx) {
	headCid := chain[len(chain)-1]
	older := chain[1]
	defer func() { curAddrShape = "" }()
	for _, shape := range addrShapes {
		curAddrShape = shape
		for ti, typ := range keypool.KeyTypes {
			if ti > 1 && shape != "nil-first" && shape != "nil-last" && !c.Thorough() {
				continue
			}
			ids := pool.OfType(typ)
			a, b := ids[0], ids[1]
			o := pool.Ids[(a.Index+3)%12]
			for _, bs := range scenariosFor(c, a, b, o, headCid, mainnetTopic, false) {
				if !(bs.name == "Honest" || strings.HasPrefix(bs.name, "ResignBy") || bs.name == "SetField:cid:=other" || bs.name == "SetField:topic:=absent") {
					continue
				}
				sc := scenario{name: bs.name, keyType: typ, status: 200, body: encode(bs.sh), signer: a, expect: bs.expect, wantCid: headCid, sig: bs.name + ":" + typ}
				c.Count("addr-shape-scenario:" + bs.name)
				doGetHead(c, sc, a.ID)
				doGetHead(c, sc, b.ID)
				if shape == "only-nil" {
					continue // a nil host Subscriber cannot look addresses up: Syncer level only
				}
				doSub(c, sc, a.ID, nil, cid.Undef)
				doSub(c, sc, b.ID, nil, older)
				if bs.name == "Honest" || bs.name == "ResignBy:same-type" {
					doSub(c, sc, "", []peer.ID{a.ID}, cid.Undef)
					doSub(c, sc, a.ID, []peer.ID{b.ID}, cid.Undef)
				}
			}
		}
	}
}

// ---- bytes kept by a caller ----

// genKeptBytes: what Encode returned stays what it was while other heads are encoded
// (Publisher.ServeHTTP hands the slice to the ResponseWriter; callers keep it).
func genKeptBytes(c *vlib.Ctx) {
	for ti, typ := range keypool.KeyTypes {
		ids := pool.OfType(typ)
		a, b := ids[0], ids[1]
		first := honest(c, a, chain[len(chain)-1], mainnetTopic)
		kept, err := first.Encode()
		if err != nil {
			panic(err)
		}
		snapshot := append([]byte{}, kept...)
		others := []*head.SignedHead{
			honest(c, a, chain[1], mainnetTopic),                 // same length, other root
			honest(c, b, chain[2], mainnetTopic+"/longer-topic"), // longer
			honest(c, pool.Ids[(a.Index+3)%12], chain[0], ""),    // other key type, shorter
			honest(c, a, chain[len(chain)-1], mainnetTopic),      // the same head again
		}
		for i, oh := range others {
			if _, err := oh.Encode(); err != nil {
				panic(err)
			}
			c.Eval()
			c.Count("kept-bytes")
			rp := &replayT{Kind: "keptbytes", KeyType: typ, Note: fmt.Sprintf("Encode(head of key %d), then Encode of %d other head(s)", a.Index, i+1)}
			if !bytes.Equal(kept, snapshot) {
				c.Fail("encode:returned-bytes-overwritten-by-later-encode:"+typ,
					fmt.Sprintf("the bytes Encode returned for one head changed when another head was encoded (after %d later Encode calls): a response still being written, or kept by a caller, is torn", i+1), rp)
				break
			}
		}
		// and they still are the publisher's head for every reader
		sc := scenario{name: "KeptBytes", keyType: typ, status: 200, body: kept, signer: a, expect: "accept", wantCid: chain[len(chain)-1], sig: "kept-bytes-no-longer-verify:" + typ}
		doValidate(c, sc)
		doGetHead(c, sc, a.ID)
		_ = ti
	}
}
