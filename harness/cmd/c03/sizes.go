package main

// Key sizes and topic lengths as generator dimensions: "what a publisher serves as the head
// for the root it was given always verifies", for all topics and all key types -- also when
// the encoded signed head is long (an RSA-4096 head is ~1.6 KB, a 64 KB topic gives a 66 KB
// head).

import (
	"bytes"
	"fmt"
	"os"
	"path/filepath"
	"strings"

	"github.com/ipfs/go-cid"
	"github.com/ipni/go-libipni/dagsync/ipnisync/head"

	"verif/harness/keypool"
	"verif/harness/vlib"
)

func keyCacheDir() string {
	if d := os.Getenv("VERIF_KEYCACHE"); d != "" {
		return d
	}
	exe, err := os.Executable()
	if err != nil {
		return ""
	}
	return filepath.Join(filepath.Dir(exe), "keycache") // next to the harness binary (/verif/.build)
}

func topicOfLen(n int) string {
	if n == 0 {
		return ""
	}
	const unit = "/indexer/ingest/mainnet"
	return (strings.Repeat(unit, n/len(unit)+1))[:n]
}

func sizeIdentities() []*keypool.Identity {
	var out []*keypool.Identity
	out = append(out, pool.OfType("ed25519")[0], pool.OfType("secp256k1")[0], pool.OfType("ecdsa")[0], pool.OfType("rsa")[0])
	out = append(out, pool.OfType("rsa3072")...)
	out = append(out, pool.OfType("rsa4096")...)
	return out
}

// doSize: one (key, topic) through Encode/Decode directly, through a real Publisher, and
// through Syncer.GetHead asking for the publisher and for another identity
func doSize(c *vlib.Ctx, id *keypool.Identity, topic string, root cid.Cid, label string) {
	noCase := len(topic) > 1024 // coqc's string literals overflow its stack on long payloads
	name := "Size:" + label
	// (a) the constructor, Encode, Decode, Validate
	sh, err := head.NewSignedHead(root, topic, id.Priv)
	if err != nil {
		c.Fail("size:new-signed-head:"+label+":"+id.Type, err.Error(), nil)
		return
	}
	recordSig(id.Index, layout(root, sh.Topic), sh.Sig)
	enc, err := sh.Encode()
	c.Eval()
	c.Count("size:encode-decode")
	c.Count(fmt.Sprintf("size:encoded-bytes<=%d", 1<<uint(bitsFor(len(enc)))))
	rp := &replayT{Kind: "size", KeyPriv: hx(keypool.MarshalPriv(id.Priv)), KeyType: id.Type, Topic: topic, Root: root.String(), Note: name}
	if len(topic) > 256 {
		rp.Topic, rp.TopicLen = "", len(topic)
	}
	if err != nil {
		c.Fail("size:encode:"+label+":"+id.Type, "Encode of the signed head failed: "+err.Error(), rp)
		return
	}
	dec, err := head.Decode(bytes.NewReader(enc))
	switch {
	case err != nil:
		c.Fail("size:decode-own-encoding:"+label+":"+id.Type, fmt.Sprintf("Decode rejects what Encode produced (%d bytes): %v", len(enc), err), rp)
	case !sameHead(dec, sh):
		c.Fail("size:decode-changes-head:"+label+":"+id.Type, fmt.Sprintf("Decode(Encode(head)) is another head (%d bytes)", len(enc)), rp)
	default:
		if signer, err := dec.Validate(); err != nil || signer != id.ID {
			c.Fail("size:own-head-not-valid:"+label+":"+id.Type, fmt.Sprintf("the decoded own head does not validate: %v", err), rp)
		}
	}
	// (b) what a real Publisher serves, (c) through GetHead
	status, body := servedHead(id.Priv, topic, root)
	acc, pc, psigner, pv := propertyAccepts(status, body)
	if pv != nil && pv.key != nil {
		recordSig(id.Index, layout(pv.cid, pv.sh.Topic), pv.sh.Sig)
	}
	switch {
	case !acc:
		c.Fail("publisher:head-not-verifying:"+label+":"+id.Type, fmt.Sprintf("what the publisher serves for its root (status %d, %d bytes) does not decode and verify", status, len(body)), rp)
	case psigner != id.ID || !pc.Equals(root):
		c.Fail("publisher:head-other:"+label+":"+id.Type, "the served head is not the publisher's head for its root", rp)
	case (topic == "") != (pv.sh.Topic == nil) || (topic != "" && *pv.sh.Topic != topic):
		c.Fail("publisher:head-other-topic:"+label+":"+id.Type, "the served head carries another topic than the publisher's", rp)
	}
	sc := scenario{name: name, keyType: id.Type, status: status, body: body, signer: id, expect: "accept", wantCid: root,
		sig: "served-head-rejected:" + label + ":" + id.Type, noCase: noCase}
	doValidate(c, sc)
	doGetHead(c, sc, id.ID)
	doGetHead(c, sc, pool.Ids[(id.Index+1)%12].ID)
	if !noCase {
		doSub(c, sc, id.ID, nil, cid.Undef)
	}
}

func bitsFor(n int) int {
	b := 0
	for (1 << uint(b)) < n {
		b++
	}
	return b
}

func genSizes(c *vlib.Ctx) {
	root := chain[len(chain)-1]
	lens := []int{0, 1, 100, 700, 1024, 4096, 65536}
	for _, id := range sizeIdentities() {
		for _, n := range lens {
			if n == 65536 && !(id.Type == "ed25519" || id.Type == "rsa4096") && !c.Thorough() {
				continue
			}
			doSize(c, id, topicOfLen(n), root, fmt.Sprintf("topic-%dB", n))
		}
	}
	// topic text that DAG-JSON has to escape
	for _, id := range []*keypool.Identity{pool.OfType("ed25519")[0], pool.OfType("rsa3072")[0]} {
		for _, lt := range topicTexts {
			doSize(c, id, lt[1], root, "topic-"+lt[0])
		}
	}
	// a topic that is not valid UTF-8 (KNOWN FINDING C03-non-utf8-topic): DAG-JSON is text and
	// carries U+FFFD instead of the signed bytes, so what such a publisher serves does not
	// verify.  One stable signature, shortest topic first.
	for _, t := range []string{"\xff", "a\xffb", "\x80topic"} {
		for _, id := range []*keypool.Identity{pool.Ids[0], pool.OfType("rsa")[0]} {
			doNonUTF8Topic(c, id, t, root)
		}
	}
}

// topic texts that DAG-JSON has to escape
var topicTexts = [][2]string{
	{"quote-backslash", "q\"\\/"},
	{"nul-and-controls", "a\x00b\x01\x1f\x7f"},
	{"non-ascii", "/indexer/ingest/テスト/ \U0001F600"},
	{"looks-like-json", `{"/":{"bytes":"AA"}}`},
}

const nonUTF8Signature = "publisher:head-not-verifying:non-utf8-topic"

// doNonUTF8Topic: the property's oracle on a publisher whose topic string is not valid UTF-8
func doNonUTF8Topic(c *vlib.Ctx, id *keypool.Identity, topic string, root cid.Cid) {
	status, body := servedHead(id.Priv, topic, root)
	acc, pc, psigner, pv := propertyAccepts(status, body)
	c.Eval()
	c.Count("size:non-utf8-topic")
	rp := &replayT{Kind: "size", KeyPriv: hx(keypool.MarshalPriv(id.Priv)), KeyType: id.Type, TopicHex: hx([]byte(topic)), Root: root.String(),
		Note: fmt.Sprintf("publisher topic %q (not valid UTF-8)", topic)}
	ok := acc && psigner == id.ID && pc.Equals(root) && pv.sh.Topic != nil && *pv.sh.Topic == topic
	if !ok {
		got := "no decodable head"
		if pv != nil && pv.sh.Topic != nil {
			got = fmt.Sprintf("topic %q", *pv.sh.Topic)
		}
		c.Fail(nonUTF8Signature, fmt.Sprintf("a publisher whose topic is %q (not valid UTF-8) serves a head (status %d) that does not verify: the DAG-JSON text carries %s, the signature is over the original bytes", topic, status, got), rp)
	}
}
