package main

// The real ipnisync.Publisher under concurrency: SetRoot racing with head requests.  The
// publisher gets a private key whose Sign can be made to wait on a latch, so every schedule
// is deterministic (no sleeps): a request is known to have read the root once it waits in
// Sign, and it answers only when released.
//
// Oracle (property: "what a publisher serves as the head for the root it was given always
// verifies in this way"): a head request STARTED after SetRoot(x) returned, and before the
// next SetRoot, is answered with a head that verifies under the publisher's key over exactly
// x and the publisher's topic (204 when x is no root); a request in flight across SetRoot
// calls may be answered for any root that was current while it was served.

import (
	"bytes"
	"fmt"
	"net/http"
	"net/http/httptest"
	"sync"
	"time"

	"github.com/ipfs/go-cid"
	"github.com/ipfs/go-datastore"
	dssync "github.com/ipfs/go-datastore/sync"
	"github.com/ipni/go-libipni/dagsync/ipnisync"
	ic "github.com/libp2p/go-libp2p/core/crypto"

	"verif/harness/keypool"
	"verif/harness/vlib"
)

type gatedKey struct {
	ic.PrivKey
	mu      sync.Mutex
	armed   int
	entered chan chan struct{} // a Sign that waits announces its latch here
}

func (k *gatedKey) Sign(data []byte) ([]byte, error) {
	k.mu.Lock()
	if k.armed > 0 {
		k.armed--
		latch := make(chan struct{})
		k.mu.Unlock()
		k.entered <- latch
		<-latch
	} else {
		k.mu.Unlock()
	}
	return k.PrivKey.Sign(data)
}

// schedule steps
type pstep struct {
	Op    string `json:"op"`              // set | start | release | query | split
	Root  int    `json:"root,omitempty"`  // set: index into the roots, -1 = no root
	N     int    `json:"n,omitempty"`     // start: requests to put in flight; query: sequential requests
	Which int    `json:"which,omitempty"` // release: index of the in-flight request (in start order)
}

type pubResp struct {
	status int
	body   []byte
}

type inflight struct {
	id      int
	latch   chan struct{} // nil: never waited in Sign
	done    chan pubResp
	allowed map[int]bool // roots current while it is being served
	fin     bool
}

func schedName(steps []pstep) string {
	s := ""
	for i, st := range steps {
		if i > 0 {
			s += ","
		}
		switch st.Op {
		case "set":
			s += fmt.Sprintf("SetRoot(%d)", st.Root)
		case "start":
			s += fmt.Sprintf("Start(%d)", st.N)
		case "release":
			s += fmt.Sprintf("Release(%d)", st.Which)
		case "query":
			s += fmt.Sprintf("Query(%d)", st.N)
		case "split":
			s += fmt.Sprintf("SplitWrite(SetRoot(%d)+Query)", st.Root)
		}
	}
	return s
}

// runPubSched drives one schedule; returns the Coq events and the first oracle failure
func runPubSched(c *vlib.Ctx, id *keypool.Identity, topic string, roots []cid.Cid, steps []pstep) (events []string, failKind, failDesc string) {
	key := &gatedKey{PrivKey: id.Priv, entered: make(chan chan struct{}, 16)}
	pub, err := ipnisync.NewPublisher(mkLinkSystem(dssync.MutexWrap(datastore.NewMapDatastore())), key,
		ipnisync.WithStartServer(false), ipnisync.WithHeadTopic(topic))
	if err != nil {
		panic(err)
	}
	rootOf := func(i int) cid.Cid {
		if i < 0 {
			return cid.Undef
		}
		return roots[i]
	}
	request := func() pubResp {
		rec := httptest.NewRecorder()
		pub.ServeHTTP(rec, httptest.NewRequest("GET", headPath, nil))
		return pubResp{rec.Code, rec.Body.Bytes()}
	}
	fail := func(kind, desc string) {
		if failKind == "" {
			failKind, failDesc = kind, desc
		}
	}
	current := -1
	nextID := 0
	var flying []*inflight
	// judge one response against the roots it may be for
	judge := func(reqID int, r pubResp, allowed map[int]bool, started string) {
		var v *view
		if r.status == 200 {
			v = decodeView(r.body)
			if v != nil && v.key != nil {
				recordSig(id.Index, layout(v.cid, v.sh.Topic), v.sh.Sig)
				v = decodeView(r.body)
			}
		}
		events = append(events, fmt.Sprintf("(OServe %d %s)", reqID, optViewTerm(v)))
		c.Eval()
		if r.status == 204 || r.status == 200 && len(r.body) == 0 {
			if !allowed[-1] {
				fail("no-head-although-root-set", fmt.Sprintf("request %d (%s) got no head although the publisher has a root", reqID, started))
			}
			return
		}
		acc, pc, psigner, pv := propertyAccepts(r.status, r.body)
		switch {
		case !acc:
			fail("head-not-verifying", fmt.Sprintf("request %d (%s): what the publisher serves (status %d) does not verify", reqID, started, r.status))
		case psigner != id.ID:
			fail("head-other-signer", fmt.Sprintf("request %d (%s): served head is not signed by the publisher's key", reqID, started))
		case (topic == "") != (pv.sh.Topic == nil) || (topic != "" && *pv.sh.Topic != topic):
			fail("head-other-topic", fmt.Sprintf("request %d (%s): served head carries another topic", reqID, started))
		default:
			ok := false
			for ri := range allowed {
				if ri >= 0 && roots[ri].Equals(pc) {
					ok = true
				}
			}
			if !ok {
				fail("stale-head-after-setroot", fmt.Sprintf("request %d (%s): the publisher's root is %s but it serves a head signed over %s", reqID, started, cidStr(rootOf(current)), pc))
			}
		}
	}
	for _, st := range steps {
		switch st.Op {
		case "set":
			pub.SetRoot(rootOf(st.Root))
			current = st.Root
			events = append(events, fmt.Sprintf("(OSetRoot %s)", coqOptCid(rootOf(current))))
			for _, f := range flying {
				if !f.fin {
					f.allowed[current] = true
				}
			}
		case "start":
			for n := 0; n < st.N; n++ {
				f := &inflight{id: nextID, done: make(chan pubResp, 1), allowed: map[int]bool{current: true}}
				nextID++
				key.mu.Lock()
				key.armed++
				key.mu.Unlock()
				go func() { f.done <- request() }()
				// the request either waits in Sign (it has read the root) or finishes without
				// signing (no root; or a publisher that does not sign for every request)
				select {
				case f.latch = <-key.entered:
					events = append(events, fmt.Sprintf("(ORead %d)", f.id))
				case r := <-f.done:
					key.mu.Lock()
					if key.armed > 0 {
						key.armed--
					}
					key.mu.Unlock()
					f.fin = true
					events = append(events, fmt.Sprintf("(ORead %d)", f.id))
					judge(f.id, r, f.allowed, "started while root "+fmt.Sprint(current)+" was set, answered without signing")
				case <-time.After(20 * time.Second):
					panic("publisher head request neither signs nor answers")
				}
				flying = append(flying, f)
			}
		case "release":
			f := flying[st.Which]
			if f.fin {
				continue
			}
			close(f.latch)
			r := <-f.done
			f.fin = true
			judge(f.id, r, f.allowed, "in flight across SetRoot")
		case "query":
			for n := 0; n < st.N; n++ {
				rid := nextID
				nextID++
				events = append(events, fmt.Sprintf("(ORead %d)", rid))
				r := request()
				judge(rid, r, map[int]bool{current: true}, fmt.Sprintf("started after SetRoot(%d) returned", current))
			}
		case "split":
			// a head request whose ResponseWriter takes the body in two halves; between the
			// halves SetRoot(st.Root) is called and another head request is served
			rid := nextID
			nextID++
			events = append(events, fmt.Sprintf("(ORead %d)", rid))
			before := current
			w := &splitWriter{hdr: http.Header{}}
			w.between = func() {
				pub.SetRoot(rootOf(st.Root))
				current = st.Root
				events = append(events, fmt.Sprintf("(OSetRoot %s)", coqOptCid(rootOf(current))))
				nid := nextID
				nextID++
				events = append(events, fmt.Sprintf("(ORead %d)", nid))
				judge(nid, request(), map[int]bool{current: true}, fmt.Sprintf("started after SetRoot(%d) returned, while another response was half written", current))
			}
			pub.ServeHTTP(w, httptest.NewRequest("GET", headPath, nil))
			code := w.code
			if code == 0 {
				code = 200
			}
			judge(rid, pubResp{code, w.buf.Bytes()}, map[int]bool{before: true, current: true}, "response written in two halves across SetRoot and another head request")
		}
	}
	// release whatever is still waiting so that no goroutine is left behind
	for _, f := range flying {
		if !f.fin {
			close(f.latch)
			<-f.done
		}
	}
	return events, failKind, failDesc
}

func doPubSched(c *vlib.Ctx, id *keypool.Identity, topic string, roots []cid.Cid, steps []pstep) {
	events, kind, desc := runPubSched(c, id, topic, roots, steps)
	c.Count("publisher-schedule")
	rs := make([]string, len(roots))
	for i, r := range roots {
		rs[i] = r.String()
	}
	rp := &replayT{Kind: "pubsched", KeyPriv: hx(keypool.MarshalPriv(id.Priv)), KeyType: id.Type, Topic: topic, Roots: rs, Schedule: steps,
		Note: schedName(steps)}
	c.Case("pubsched", fmt.Sprintf("(PubSched %s %d %s)", vlib.CoqBytes([]byte(topic)), id.Index, vlib.CoqList(events)),
		map[string]interface{}{"schedule": schedName(steps), "key_type": id.Type, "topic": topic, "replay": rp})
	c.Nontrivial("pubsched/" + id.Type + "/" + topic + "/" + schedName(steps))
	sampleOnce(c, "pubsched", map[string]interface{}{"level": "Publisher under concurrency", "schedule": schedName(steps), "key_type": id.Type, "observed": "every response verifies for an allowed root"})
	if kind != "" {
		c.Fail("publisher:"+kind+":"+schedName(steps)+":"+id.Type, desc+" (schedule "+schedName(steps)+")", rp)
	}
}

func pubSchedules() [][]pstep {
	set := func(r int) pstep { return pstep{Op: "set", Root: r} }
	start := func(n int) pstep { return pstep{Op: "start", N: n} }
	rel := func(i int) pstep { return pstep{Op: "release", Which: i} }
	q := func(n int) pstep { return pstep{Op: "query", N: n} }
	return [][]pstep{
		{set(0), start(1), set(1), rel(0), q(2)},
		{set(0), q(1), start(1), set(1), rel(0), q(2)},
		{set(0), start(2), set(1), rel(0), rel(1), q(2)},
		{set(0), start(2), set(1), rel(1), rel(0), q(2)},
		{set(0), start(1), set(1), set(2), rel(0), q(2)},
		{set(0), start(1), set(1), q(1), rel(0), q(2)},
		{set(0), start(1), set(-1), rel(0), q(1), set(1), q(1)},
		{start(1), set(0), q(1)},
		{set(0), start(3), set(1), rel(2), rel(0), rel(1), q(1)},
		{set(0), start(1), set(1), rel(0), start(1), set(2), rel(1), q(2)},
		{set(0), start(1), set(0), rel(0), q(1)},
		{set(0), start(1), set(1), start(1), set(2), rel(0), q(1), rel(1), q(1)},
		{set(0), q(2), set(1), q(2), set(-1), q(1)},
		{set(0), pstep{Op: "split", Root: 1}, q(1)},
		{set(0), q(1), pstep{Op: "split", Root: 2}, pstep{Op: "split", Root: 0}, q(1)},
	}
}

func genPublisherSchedules(c *vlib.Ctx) {
	roots := []cid.Cid{chain[1], chain[2], chain[3]}
	for _, typ := range keypool.KeyTypes {
		id := pool.OfType(typ)[2]
		for ti, topic := range []string{mainnetTopic, ""} {
			for si, s := range pubSchedules() {
				if ti == 1 && si > 4 && !c.Thorough() {
					continue
				}
				doPubSched(c, id, topic, roots, s)
			}
		}
	}
}

// splitWriter takes the first Write of a response in two halves and runs `between` in the
// middle (a slow client / a chunking transport: the handler's buffer is still being read)
type splitWriter struct {
	hdr     http.Header
	code    int
	buf     bytes.Buffer
	between func()
	done    bool
}

func (w *splitWriter) Header() http.Header { return w.hdr }
func (w *splitWriter) WriteHeader(c int)   { w.code = c }
func (w *splitWriter) Write(p []byte) (int, error) {
	if w.done || len(p) < 2 {
		return w.buf.Write(p)
	}
	w.done = true
	half := len(p) / 2
	w.buf.Write(p[:half])
	w.between()
	w.buf.Write(p[half:])
	return len(p), nil
}
