package main

// The publisher side (an httptest server that returns crafted heads and serves real
// blocks through a real ipnisync.Publisher handler) and the drivers of the real client
// code: Syncer.GetHead and Subscriber.SyncAdChain.

import (
	"bytes"
	"context"
	"fmt"
	"io"
	"net/http"
	"net/http/httptest"
	"path"
	"strings"
	"sync"
	"time"

	"github.com/ipfs/go-cid"
	"github.com/ipfs/go-datastore"
	dssync "github.com/ipfs/go-datastore/sync"
	"github.com/ipld/go-ipld-prime"
	"github.com/ipld/go-ipld-prime/codec/dagjson"
	"github.com/ipld/go-ipld-prime/fluent"
	cidlink "github.com/ipld/go-ipld-prime/linking/cid"
	basicnode "github.com/ipld/go-ipld-prime/node/basic"
	"github.com/ipni/go-libipni/dagsync"
	"github.com/ipni/go-libipni/dagsync/ipnisync"
	"github.com/ipni/go-libipni/maurl"
	ic "github.com/libp2p/go-libp2p/core/crypto"
	"github.com/libp2p/go-libp2p/core/peer"
	"github.com/multiformats/go-multiaddr"
	"github.com/multiformats/go-multicodec"
	"github.com/multiformats/go-multihash"
)

func mkLinkSystem(ds datastore.Batching) ipld.LinkSystem {
	lsys := cidlink.DefaultLinkSystem()
	lsys.StorageReadOpener = func(lctx ipld.LinkContext, lnk ipld.Link) (io.Reader, error) {
		val, err := ds.Get(context.Background(), datastore.NewKey(lnk.String()))
		if err != nil {
			return nil, err
		}
		return bytes.NewBuffer(val), nil
	}
	lsys.StorageWriteOpener = func(lctx ipld.LinkContext) (io.Writer, ipld.BlockWriteCommitter, error) {
		buf := bytes.NewBuffer(nil)
		return buf, func(lnk ipld.Link) error {
			return ds.Put(context.Background(), datastore.NewKey(lnk.String()), buf.Bytes())
		}, nil
	}
	return lsys
}

var chainProto = cidlink.LinkPrototype{Prefix: cid.Prefix{Version: 1, Codec: uint64(multicodec.DagJson), MhType: multihash.SHA2_256, MhLength: 32}}

// mkChain stores n linked nodes {"PreviousID": link, "Seq": i}; returns CIDs oldest first.
func mkChain(lsys ipld.LinkSystem, n int) []cid.Cid {
	var out []cid.Cid
	var prev ipld.Link
	for i := 0; i < n; i++ {
		node := fluent.MustBuildMap(basicnode.Prototype.Map, 2, func(ma fluent.MapAssembler) {
			if prev != nil {
				ma.AssembleEntry("PreviousID").AssignLink(prev)
			}
			ma.AssembleEntry("Seq").AssignInt(int64(i))
		})
		lnk, err := lsys.Store(ipld.LinkContext{}, chainProto, node)
		if err != nil {
			panic(err)
		}
		prev = lnk
		out = append(out, lnk.(cidlink.Link).Cid)
	}
	return out
}

type server struct {
	ts    *httptest.Server
	maddr multiaddr.Multiaddr
	pub   *ipnisync.Publisher

	mu     sync.Mutex
	status int
	body   []byte
	log    []string
}

const headPath = "/ipni/v1/ad/head"

func (s *server) ServeHTTP(w http.ResponseWriter, r *http.Request) {
	p := r.URL.Path
	if strings.HasPrefix(p, "/.well-known/") {
		// not a libp2phttp server: the client falls back to plain HTTP
		http.NotFound(w, r)
		return
	}
	s.mu.Lock()
	s.log = append(s.log, p)
	status, body := s.status, s.body
	s.mu.Unlock()
	if p == headPath {
		w.WriteHeader(status)
		_, _ = w.Write(body)
		return
	}
	s.pub.ServeHTTP(w, r)
}

func (s *server) set(status int, body []byte) {
	s.mu.Lock()
	s.status, s.body, s.log = status, body, nil
	s.mu.Unlock()
}

// requests: number of head requests, and the block CIDs asked for after the first head request
func (s *server) requests() (heads int, blocks []cid.Cid, other []string) {
	s.mu.Lock()
	defer s.mu.Unlock()
	seenHead := false
	for _, p := range s.log {
		if p == headPath {
			heads++
			seenHead = true
			continue
		}
		if path.Base(p) == "head" {
			// the plain-HTTP fallback without the IPNI path after a 404/403 (C04's subject):
			// a second head query, not a block request
			continue
		}
		c, err := cid.Decode(path.Base(p))
		if err != nil || !seenHead {
			other = append(other, p)
			continue
		}
		blocks = append(blocks, c)
	}
	return
}

func newServer(lsys ipld.LinkSystem, key ic.PrivKey) *server {
	pub, err := ipnisync.NewPublisher(lsys, key, ipnisync.WithStartServer(false))
	if err != nil {
		panic(err)
	}
	s := &server{pub: pub, status: 200}
	s.ts = httptest.NewServer(s)
	u := s.ts.URL
	mu, err := maurl.FromURL(mustURL(u))
	if err != nil {
		panic(err)
	}
	s.maddr = mu
	return s
}

// ---- client drivers ----

var sharedSync *ipnisync.Sync

// The option matrix of ipnisync.NewSync.  "" is the default client (what the Subscriber
// builds, apart from timeouts); the others are what a direct user of the package may set.
// curOpt selects the client the GetHead drivers use.
var (
	clientOpts = map[string][]ipnisync.ClientOption{
		"":                    nil,
		"auth-server-peer-id": {ipnisync.ClientAuthServerPeerID(true)},
		"retry":               {ipnisync.ClientHTTPRetry(1, time.Millisecond, 2*time.Millisecond)},
		"timeout":             {ipnisync.ClientHTTPTimeout(5 * time.Second)},
		"auth-server-peer-id+retry+timeout": {ipnisync.ClientAuthServerPeerID(true), ipnisync.ClientHTTPRetry(1, time.Millisecond, 2*time.Millisecond),
			ipnisync.ClientHTTPTimeout(5 * time.Second)},
		"no-auth-explicit+stream-host-nil": {ipnisync.ClientAuthServerPeerID(false), ipnisync.ClientStreamHost(nil)},
	}
	optOrder = []string{"", "auth-server-peer-id", "retry", "timeout", "auth-server-peer-id+retry+timeout", "no-auth-explicit+stream-host-nil"}
	syncs    = map[string]*ipnisync.Sync{}
	curOpt   string
)

// The shape of the address list handed to NewSyncer / SyncAdChain ("" = just the address).
// nil entries are what mautil.CleanPeerAddrInfo exists to remove.
var (
	curAddrShape string
	addrShapes   = []string{"nil-first", "nil-last", "nil-middle", "nil-twice", "duplicate", "dead-first", "only-nil"}
	deadAddr     multiaddr.Multiaddr
)

// shapeAddrs applies the current shape to an address list; usable=false when it leaves no
// address a sync could use
func shapeAddrs(addrs []multiaddr.Multiaddr) (out []multiaddr.Multiaddr, usable bool) {
	switch curAddrShape {
	case "":
		return addrs, true
	case "nil-first":
		return append([]multiaddr.Multiaddr{nil}, addrs...), true
	case "nil-last":
		return append(append([]multiaddr.Multiaddr{}, addrs...), nil), true
	case "nil-middle":
		return append(append(append([]multiaddr.Multiaddr{}, addrs...), nil), addrs...), true
	case "nil-twice":
		return append([]multiaddr.Multiaddr{nil, nil}, addrs...), true
	case "duplicate":
		return append(append([]multiaddr.Multiaddr{}, addrs...), addrs...), true
	case "dead-first":
		return append([]multiaddr.Multiaddr{deadAddr}, addrs...), true
	case "only-nil":
		return []multiaddr.Multiaddr{nil}, false
	}
	panic("unknown address shape " + curAddrShape)
}

func syncFor(opt string) *ipnisync.Sync {
	if opt == "" {
		return sharedSync
	}
	if s, ok := syncs[opt]; ok {
		return s
	}
	o, ok := clientOpts[opt]
	if !ok {
		panic("unknown client option set " + opt)
	}
	s := ipnisync.NewSync(mkLinkSystem(dssync.MutexWrap(datastore.NewMapDatastore())), nil, o...)
	syncs[opt] = s
	return s
}

type callResult struct {
	kind string // ok | err | panic
	cid  cid.Cid
	err  string
}

func runGetHead(s *server, expected peer.ID) (r callResult) {
	defer func() {
		if x := recover(); x != nil {
			r = callResult{kind: "panic", err: fmt.Sprint(x)}
		}
	}()
	addrs, _ := shapeAddrs([]multiaddr.Multiaddr{s.maddr})
	syncer, err := syncFor(curOpt).NewSyncer(peer.AddrInfo{ID: expected, Addrs: addrs})
	if err != nil {
		return callResult{kind: "err", err: "NewSyncer: " + err.Error()}
	}
	ctx, cancel := context.WithTimeout(context.Background(), 10*time.Second)
	defer cancel()
	c, err := syncer.GetHead(ctx)
	if err != nil {
		return callResult{kind: "err", err: err.Error()}
	}
	return callResult{kind: "ok", cid: c}
}

type subResult struct {
	callResult
	heads   int
	blocks  []cid.Cid
	other   []string
	latest  cid.Cid
	latest0 cid.Cid
}

// runSub: a fresh Subscriber (nil host: HTTP only) with an empty store; latest-sync of
// `latestFor` preset to latest0 when defined; SyncAdChain(ai) with no explicit head.
func runSub(s *server, ai peer.AddrInfo, latestFor peer.ID, latest0 cid.Cid) (r subResult) {
	ds := dssync.MutexWrap(datastore.NewMapDatastore())
	sub, err := dagsync.NewSubscriber(nil, mkLinkSystem(ds))
	if err != nil {
		panic(err)
	}
	defer sub.Close()
	if latest0 != cid.Undef {
		if err := sub.SetLatestSync(latestFor, latest0); err != nil {
			panic(err)
		}
	}
	r.latest0 = latest0
	func() {
		defer func() {
			if x := recover(); x != nil {
				r.callResult = callResult{kind: "panic", err: fmt.Sprint(x)}
			}
		}()
		ctx, cancel := context.WithTimeout(context.Background(), 15*time.Second)
		defer cancel()
		c, err := sub.SyncAdChain(ctx, ai)
		if err != nil {
			r.callResult = callResult{kind: "err", err: err.Error()}
		} else {
			r.callResult = callResult{kind: "ok", cid: c}
		}
	}()
	r.heads, r.blocks, r.other = s.requests()
	if l := sub.GetLatestSync(latestFor); l != nil {
		r.latest = l.(cidlink.Link).Cid
	}
	return r
}

// servedHead: what a real Publisher with this key, topic and root writes for "head"
func servedHead(key ic.PrivKey, topic string, root cid.Cid) (status int, body []byte) {
	ds := dssync.MutexWrap(datastore.NewMapDatastore())
	pub, err := ipnisync.NewPublisher(mkLinkSystem(ds), key, ipnisync.WithStartServer(false), ipnisync.WithHeadTopic(topic))
	if err != nil {
		panic(err)
	}
	if root != cid.Undef {
		pub.SetRoot(root)
	}
	rec := httptest.NewRecorder()
	pub.ServeHTTP(rec, httptest.NewRequest("GET", headPath, nil))
	return rec.Code, rec.Body.Bytes()
}

var _ = dagjson.Encode
