// c07: provider cache reads never wait for writers and see consistent snapshots.
//
// The proof side (coq/props/Properties_C07.v) is a thread-level transition system plus
// theorems over the skeletons and write sites regenerated from the source.  This binary
// is the runtime side: it builds harness/cmd/c07/race with the race detector, runs it
// (concurrent readers against refreshes / miss-fetches with source calls held open,
// automatic refresh, refreshes that rebuild the main map), turns its oracle verdicts and
// any race report into failures, and writes every reader's observation sequence out as a
// Coq case for the acceptor monotone_versions of model/C07_PCacheConc.v.
package main

import (
	"bytes"
	"encoding/json"
	"fmt"
	"os"
	"os/exec"
	"path/filepath"
	"regexp"
	"strings"

	"verif/harness/vlib"
)

type Obs struct {
	Pid  int   `json:"p"`
	Time int64 `json:"t"`
}

type Reader struct {
	Obs      []Obs  `json:"obs"`
	Reads    int    `json:"reads"`
	Missing  int    `json:"missing"`
	WentBack int    `json:"went_back"`
	PerHold  []int  `json:"per_hold"`
	FirstBad string `json:"first_bad,omitempty"`

	Expansions    int `json:"expansions"`
	BadExpansions int `json:"bad_expansions"`
}

type Scenario struct {
	Name       string   `json:"name"`
	HoldMs     int      `json:"hold_ms"`
	Holds      int      `json:"holds"`
	Readers    []Reader `json:"readers"`
	Always     []int    `json:"always"`
	P50us      int64    `json:"p50_us"`
	P99us      int64    `json:"p99_us"`
	MaxUs      int64    `json:"max_us"`
	MinPerHold int      `json:"min_reads_per_reader_per_hold"`
	FetchAll   int64    `json:"fetchall_calls"`
	Fetch      int64    `json:"fetch_calls"`
	ElapsedMs  int64    `json:"elapsed_ms"`
	Failures   []string `json:"failures,omitempty"`
	Notes      []string `json:"notes,omitempty"`
	Probe      struct {
		P50us int64 `json:"p50_us"`
		P99us int64 `json:"p99_us"`
		MaxUs int64 `json:"max_us"`
	} `json:"probe"`
}

type Directed struct {
	Name     string   `json:"name"`
	Failures []string `json:"failures,omitempty"`
	Notes    []string `json:"notes,omitempty"`
}

type Results struct {
	Scenarios []Scenario `json:"scenarios"`
	Directed  []Directed `json:"directed"`
}

func coqCase(sc Scenario, r Reader) string {
	al := make([]string, len(sc.Always))
	for i, p := range sc.Always {
		al[i] = fmt.Sprint(p)
	}
	obs := make([]string, len(r.Obs))
	for i, o := range r.Obs {
		if o.Time < 0 {
			obs[i] = fmt.Sprintf("(%d, None)", o.Pid)
		} else {
			obs[i] = fmt.Sprintf("(%d, Some %s)", o.Pid, vlib.CoqZ(o.Time))
		}
	}
	return "(" + vlib.CoqList(al) + ", " + vlib.CoqList(obs) + ")"
}

func main() {
	c := vlib.Init("C07")
	defer c.Finish()
	c.Family("monotone", []string{"From Model Require Import C07_PCacheConc."}, "monotone_versions", 12)

	var rp struct {
		Kind     string   `json:"kind"`
		Name     string   `json:"name"`
		Scenario Scenario `json:"scenario"`
	}
	if c.Replay != "" {
		if err := c.LoadReplay(&rp); err != nil {
			panic(err)
		}
		if rp.Kind != "directed" {
			// a stored observation sequence: re-check it with the acceptor
			fmt.Printf("replay: scenario %s, failures recorded: %v\n", rp.Scenario.Name, rp.Scenario.Failures)
			for _, r := range rp.Scenario.Readers {
				c.Case("monotone", coqCase(rp.Scenario, r), rp.Scenario.Name)
			}
			for _, f := range rp.Scenario.Failures {
				c.Fail(rp.Scenario.Name+":"+strings.SplitN(f, ":", 2)[0], f, rp)
			}
			c.Eval()
			return
		}
		fmt.Printf("replay: directed scenario %s\n", rp.Name)
	}

	// ---- build the runner with the race detector
	bin := filepath.Join(c.Out, "c07race")
	args := []string{"build", "-race", "-tags", "verif"}
	if repo := os.Getenv("VERIF_REPO"); repo != "" && repo != "/repo" {
		wd, _ := os.Getwd()
		alt := filepath.Join(filepath.Dir(wd), ".build", "alt-"+regexp.MustCompile(`\W`).ReplaceAllString(repo, "_")+".mod")
		args = append(args, "-modfile="+alt)
	}
	args = append(args, "-o", bin, "./cmd/c07/race")
	cmd := exec.Command("go", args...)
	var bout bytes.Buffer
	cmd.Stdout, cmd.Stderr = &bout, &bout
	if err := cmd.Run(); err != nil {
		c.Fail("race-build-failed", "go "+strings.Join(args, " ")+" failed: "+err.Error()+"\n"+tail(bout.String(), 1500), nil)
		return
	}

	// ---- run it
	resFile := filepath.Join(c.Out, "c07race.json")
	run := exec.Command(bin, "-seed", fmt.Sprint(c.Seed), "-tier", c.Tier, "-out", resFile, "-directed-only", rp.Name)
	run.Env = append(os.Environ(), "GORACE=halt_on_error=0 exitcode=66")
	var rerr bytes.Buffer
	run.Stdout, run.Stderr = &rerr, &rerr
	err := run.Run()
	races := strings.Count(rerr.String(), "WARNING: DATA RACE")
	c.CountN("race-detector-reports", races)
	if races > 0 {
		c.Fail("data-race", fmt.Sprintf("the race detector reported %d data race(s):\n%s", races, tail(firstReport(rerr.String()), 2500)), map[string]string{"kind": "race", "report": firstReport(rerr.String())})
	}
	b, rerr2 := os.ReadFile(resFile)
	if rerr2 != nil {
		c.Fail("runner-failed", fmt.Sprintf("the race-enabled runner did not produce results (%v): %s", err, tail(rerr.String(), 1500)), nil)
		return
	}
	var all Results
	if e := json.Unmarshal(b, &all); e != nil {
		panic(e)
	}
	scs := all.Scenarios
	os.Remove(bin)

	// ---- directed scenarios: deterministic orderings, bounds far below the holds
	for _, d := range all.Directed {
		c.Eval()
		c.Count("directed:" + d.Name)
		c.Nontrivial("directed:" + d.Name)
		if c.Replay != "" {
			fmt.Printf("  %s: notes=%v failures=%v\n", d.Name, d.Notes, d.Failures)
		}
		for _, f := range d.Failures {
			c.Fail("directed:"+d.Name+":"+strings.SplitN(f, ":", 2)[0], f, map[string]interface{}{"kind": "directed", "name": d.Name, "notes": d.Notes})
		}
	}

	for _, sc := range scs {
		c.Count("scenario:" + sc.Name)
		c.CountN("reads:"+sc.Name, totalReads(sc))
		c.CountN("source-calls-held-open:"+sc.Name, sc.Holds)
		for ri, r := range sc.Readers {
			c.Eval()
			c.CountN("getresults-checked-against-reference-expansion:"+sc.Name, r.Expansions)
			c.Case("monotone", coqCase(sc, r), map[string]interface{}{"scenario": sc.Name, "reader": ri})
			distinct := map[int64]bool{}
			for _, o := range r.Obs {
				distinct[o.Time] = true
			}
			if len(distinct) >= 3 {
				c.Nontrivial(fmt.Sprintf("%s/%d", sc.Name, ri))
			}
		}
		c.Sample(map[string]interface{}{"scenario": sc.Name, "hold_ms": sc.HoldMs, "holds": sc.Holds, "reads": totalReads(sc),
			"p50_us": sc.P50us, "p99_us": sc.P99us, "max_us": sc.MaxUs, "min_reads_per_reader_per_hold": sc.MinPerHold,
			"fetchall_calls": sc.FetchAll, "elapsed_ms": sc.ElapsedMs})
		for _, n := range sc.Notes {
			c.Count("not-judged:timing:" + sc.Name)
			c.Note(sc.Name + ": " + n)
		}
		c.Note(fmt.Sprintf("%s: scheduler wake-up overshoot p50 %dus p99 %dus max %dus", sc.Name, sc.Probe.P50us, sc.Probe.P99us, sc.Probe.MaxUs))
		for _, f := range sc.Failures {
			slim := sc
			for i := range slim.Readers {
				if len(slim.Readers[i].Obs) > 60 {
					slim.Readers[i].Obs = slim.Readers[i].Obs[:60]
				}
			}
			c.Fail(sc.Name+":"+strings.SplitN(f, ":", 2)[0], f, map[string]interface{}{"scenario": slim})
		}
	}
	c.Res.Exhaustive = false
	c.Res.Rule = "race-detector build of the runner; per scenario 6 reader goroutines (Get 70%, List, GetResults, Len) for 350 ms (thorough: 4 x 1.5 s) against: Refresh in a loop with one source's FetchAll held open 30 ms; lookups of unknown providers in a loop with Fetch held open 25 ms; automatic refresh every 20 ms with FetchAll held 8 ms; refreshes + misses over 24 providers whose times advance in thirds (update map grows and is merged). Sources advance advertisement times monotonically and always report the same providers. Records carry chain-level and contextual extended providers that change with every version (override on/off, metadata nil / empty / equal / different, metadata lists shorter than provider lists, no extended providers at all) and every address encodes (source, entry, version). Oracles: every GetResults answer equals an independent Go reference expansion (from the text of C17) of the ONE record version its first element names; no provider ever missing, per-reader per-provider times never decrease, median read latency < hold/5 (reads completed inside each held-open call are reported), FetchAll calls bounded by elapsed/interval, zero race reports. One Coq case per reader (first 250 observations), accepted by monotone_versions. Directed deterministic scenarios (the scripted source signals when a call is entered and keeps it open until released): reads of a cached provider with the refresh interval elapsed and FetchAll held open 400 ms / with a miss of another provider held open in Fetch / both: Get, GetResults, List must each return within 100 ms; a Refresh held open with new data (P advanced, Q added) while two misses queue behind it, and a miss held open while a Refresh and a second miss queue: afterwards P has the newer record and P, Q, R, R2 are all listed (3 rounds each). Non-trivial = the reader saw >= 3 distinct record times"
}

func totalReads(sc Scenario) int {
	n := 0
	for _, r := range sc.Readers {
		n += r.Reads
	}
	return n
}

func tail(s string, n int) string {
	if len(s) > n {
		return s[len(s)-n:]
	}
	return s
}

func firstReport(s string) string {
	i := strings.Index(s, "WARNING: DATA RACE")
	if i < 0 {
		return ""
	}
	r := s[i:]
	if j := strings.Index(r[10:], "=================="); j > 0 {
		r = r[:10+j]
	}
	return r
}
