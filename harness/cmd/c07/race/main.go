// c07race: the runtime half of check C07, built with -race by harness/cmd/c07.
//
// Concurrent readers (Get, GetResults, List, Len) run against a real pcache.ProviderCache
// while writers are in progress: explicit Refresh with a source call held open, lookups
// that miss with a Fetch held open, automatic refresh, and refreshes that change enough
// providers to make the cache rebuild its main map.  Every reader records what it saw;
// the oracles are evaluated here and the raw observation sequences are handed back to
// cmd/c07, which also writes them out as Coq cases.  The race detector watches the lot.
package main

import (
	"context"
	"encoding/json"
	"flag"
	"fmt"
	"os"
	"sort"
	"sync"
	"sync/atomic"
	"time"

	logging "github.com/ipfs/go-log/v2"
	"github.com/ipni/go-libipni/find/model"
	"github.com/ipni/go-libipni/pcache"
	"github.com/libp2p/go-libp2p/core/peer"

	"verif/harness/pcdrv"
	"verif/harness/vlib"
)

const timeBase = 1_700_000_000

// source reports providers 1..n, each with an advertisement time that advances with every
// call (so the freshest record a reader may see only ever moves forward), and can hold its
// calls open.
type source struct {
	idx       int
	n         atomic.Int32 // providers 1..n are reported
	clock     atomic.Int64
	holdAll   atomic.Int64 // nanoseconds FetchAll stays open
	holdFetch atomic.Int64
	callsAll  atomic.Int64
	callsOne  atomic.Int64
	holds     *holdLog
	churn     atomic.Bool // advance only some providers per call (forces update-map growth)
}

type holdLog struct {
	mu    sync.Mutex
	spans [][2]time.Time
}

func (h *holdLog) add(a, b time.Time) {
	h.mu.Lock()
	h.spans = append(h.spans, [2]time.Time{a, b})
	h.mu.Unlock()
}

func (s *source) info(pid int, t int64) *model.ProviderInfo {
	return &model.ProviderInfo{
		AddrInfo:              pcdrv.AddrInfo(pid, s.idx*1000+pid),
		LastAdvertisementTime: time.Unix(timeBase+t, 0).UTC().Format(time.RFC3339),
	}
}

func (s *source) FetchAll(ctx context.Context) ([]*model.ProviderInfo, error) {
	s.callsAll.Add(1)
	if d := time.Duration(s.holdAll.Load()); d > 0 {
		a := time.Now()
		time.Sleep(d)
		s.holds.add(a, time.Now())
	}
	t := s.clock.Add(1)
	n := int(s.n.Load())
	out := make([]*model.ProviderInfo, 0, n)
	for p := 1; p <= n; p++ {
		tp := t
		if s.churn.Load() && (int64(p)+t)%3 != 0 {
			tp = 1 // an old time: the cache keeps what it has for this provider
		}
		out = append(out, s.info(p, tp))
	}
	return out, nil
}

func (s *source) Fetch(ctx context.Context, pid peer.ID) (*model.ProviderInfo, error) {
	s.callsOne.Add(1)
	if d := time.Duration(s.holdFetch.Load()); d > 0 {
		a := time.Now()
		time.Sleep(d)
		s.holds.add(a, time.Now())
	}
	p := pcdrv.PeerIndex(pid)
	if p >= 1 && p <= int(s.n.Load()) {
		return s.info(p, s.clock.Load()), nil
	}
	return nil, nil
}

func (s *source) String() string { return fmt.Sprintf("held-%d", s.idx) }

// ---------------------------------------------------------------------------

type Obs struct {
	Pid  int   `json:"p"`
	Time int64 `json:"t"` // advertisement time of the record returned; -1: no record
}

type Reader struct {
	Obs       []Obs   `json:"obs"` // first observations, in order
	Reads     int     `json:"reads"`
	Missing   int     `json:"missing"`   // an always-reported provider came back nil / was not listed
	WentBack  int     `json:"went_back"` // a record older than one seen before
	Latencies []int64 `json:"-"`         // nanoseconds per Get
	PerHold   []int   `json:"per_hold"`  // reads completed inside each hold span
	FirstBad  string  `json:"first_bad,omitempty"`
}

type Scenario struct {
	Name        string   `json:"name"`
	HoldMs      int      `json:"hold_ms"`
	Holds       int      `json:"holds"`
	Readers     []Reader `json:"readers"`
	Always      []int    `json:"always"` // providers reported at all times
	P50us       int64    `json:"p50_us"`
	P99us       int64    `json:"p99_us"`
	MaxUs       int64    `json:"max_us"`
	MinPerHold  int      `json:"min_reads_per_reader_per_hold"` // min over readers of the median over holds
	FetchAll    int64    `json:"fetchall_calls"`
	Fetch       int64    `json:"fetch_calls"`
	ElapsedMs   int64    `json:"elapsed_ms"`
	Failures    []string `json:"failures,omitempty"`
	LenObserved []int    `json:"len_observed,omitempty"`
}

func timeOf(pi *model.ProviderInfo) int64 {
	t, err := time.Parse(time.RFC3339, pi.LastAdvertisementTime)
	if err != nil {
		return 0
	}
	return t.Unix() - timeBase
}

const keepObs = 250

type cfg struct {
	name      string
	nprov     int
	holdAll   time.Duration // on source 1
	holdFetch time.Duration
	refresher bool          // a goroutine calls Refresh in a loop
	misser    bool          // a goroutine looks up unknown providers in a loop
	auto      time.Duration // refresh interval (0: none)
	churn     bool
	dur       time.Duration
	nreaders  int
}

func runScenario(c cfg, rng *vlib.Rand) Scenario {
	hl := &holdLog{}
	s0 := &source{idx: 0, holds: hl}
	s1 := &source{idx: 1, holds: hl}
	s0.n.Store(int32(c.nprov))
	s1.n.Store(int32(c.nprov))
	s0.churn.Store(c.churn)
	opts := []pcache.Option{pcache.WithSource(s0, s1), pcache.WithTTL(time.Hour), pcache.WithRefreshInterval(c.auto)}
	pc, err := pcache.New(opts...) // preload: one refresh, nothing held yet
	if err != nil {
		panic(err)
	}
	s1.holdAll.Store(int64(c.holdAll))
	s1.holdFetch.Store(int64(c.holdFetch))

	sc := Scenario{Name: c.name, HoldMs: int((c.holdAll + c.holdFetch) / time.Millisecond)}
	for p := 1; p <= c.nprov; p++ {
		sc.Always = append(sc.Always, p)
	}
	stop := make(chan struct{})
	var wg sync.WaitGroup
	start := time.Now()

	if c.refresher {
		wg.Add(1)
		go func() {
			defer wg.Done()
			for {
				select {
				case <-stop:
					return
				default:
				}
				_ = pc.Refresh(context.Background())
			}
		}()
	}
	if c.misser {
		wg.Add(1)
		go func() {
			defer wg.Done()
			k := 0
			for {
				select {
				case <-stop:
					return
				default:
				}
				// providers nobody reports: each lookup is a miss that holds the write
				// slot while the source call is open, then caches a negative entry
				_, _ = pc.Get(context.Background(), pcdrv.Peer(40+k%20))
				k++
				if k%20 == 0 {
					_ = pc.Refresh(context.Background())
				}
			}
		}()
	}

	readers := make([]Reader, c.nreaders)
	stamps := make([][]time.Time, c.nreaders) // completion time of every read
	for r := 0; r < c.nreaders; r++ {
		r := r
		seed := rng.Uint64()
		wg.Add(1)
		go func() {
			defer wg.Done()
			lr := vlib.NewRand(seed)
			rd := &readers[r]
			last := map[int]int64{}
			note := func(pid int, t int64, kind string) {
				// keep the observations that carry news: first sight of a provider, a
				// record time different from the last one seen for it, a missing record
				if l, ok := last[pid]; (!ok || l != t || t < 0) && len(rd.Obs) < keepObs {
					rd.Obs = append(rd.Obs, Obs{pid, t})
				}
				if t < 0 {
					rd.Missing++
					if rd.FirstBad == "" {
						rd.FirstBad = fmt.Sprintf("%s: provider %d reported missing", kind, pid)
					}
					return
				}
				if l, ok := last[pid]; ok && t < l {
					rd.WentBack++
					if rd.FirstBad == "" {
						rd.FirstBad = fmt.Sprintf("%s: provider %d went from time %d back to %d", kind, pid, l, t)
					}
				}
				last[pid] = t
			}
			for {
				select {
				case <-stop:
					return
				default:
				}
				pid := 1 + lr.Intn(c.nprov)
				switch lr.Intn(10) {
				case 0: // List
					a := time.Now()
					l := pc.List()
					rd.Latencies = append(rd.Latencies, int64(time.Since(a)))
					seen := map[int]int64{}
					for _, pi := range l {
						seen[pcdrv.PeerIndex(pi.AddrInfo.ID)] = timeOf(pi)
					}
					for p := 1; p <= c.nprov; p++ {
						if t, ok := seen[p]; ok {
							note(p, t, "List")
						} else {
							note(p, -1, "List")
						}
					}
				case 1: // GetResults
					a := time.Now()
					res, err := pc.GetResults(context.Background(), pcdrv.Peer(pid), []byte("ctx"), []byte{1})
					rd.Latencies = append(rd.Latencies, int64(time.Since(a)))
					if err != nil || len(res) == 0 || res[0].Provider == nil || res[0].Provider.ID != pcdrv.Peer(pid) {
						note(pid, -1, "GetResults")
					}
				case 2: // Len
					a := time.Now()
					n := pc.Len()
					rd.Latencies = append(rd.Latencies, int64(time.Since(a)))
					if n < c.nprov && rd.FirstBad == "" {
						rd.Missing++
						rd.FirstBad = fmt.Sprintf("Len returned %d with %d providers reported at all times", n, c.nprov)
					}
				default: // Get
					a := time.Now()
					pi, err := pc.Get(context.Background(), pcdrv.Peer(pid))
					rd.Latencies = append(rd.Latencies, int64(time.Since(a)))
					if err != nil || pi == nil {
						note(pid, -1, "Get")
					} else {
						note(pid, timeOf(pi), "Get")
					}
				}
				rd.Reads++
				stamps[r] = append(stamps[r], time.Now())
			}
		}()
	}

	time.Sleep(c.dur)
	stopped := time.Now()
	close(stop)
	wg.Wait()
	sc.ElapsedMs = time.Since(start).Milliseconds()
	sc.FetchAll = s0.callsAll.Load() + s1.callsAll.Load()
	sc.Fetch = s0.callsOne.Load() + s1.callsOne.Load()

	// reads completed by each reader strictly inside each hold span
	hl.mu.Lock()
	spans := hl.spans
	hl.mu.Unlock()
	sc.Holds = len(spans)
	sc.MinPerHold = -1
	var all []int64
	for r := range readers {
		all = append(all, readers[r].Latencies...)
		for _, sp := range spans {
			if sp[1].Sub(sp[0]) < (c.holdAll+c.holdFetch)*9/10 || sp[1].After(stopped) {
				continue // not a full hold, or the readers were told to stop during it
			}
			n := 0
			for _, st := range stamps[r] {
				if st.After(sp[0]) && st.Before(sp[1]) {
					n++
				}
			}
			readers[r].PerHold = append(readers[r].PerHold, n)
		}
		// the reader's typical number of reads inside one held-open call (median: one
		// descheduling of the goroutine under the race detector must not count)
		if ph := append([]int{}, readers[r].PerHold...); len(ph) > 0 {
			sort.Ints(ph)
			med := ph[len(ph)/2]
			if sc.MinPerHold < 0 || med < sc.MinPerHold {
				sc.MinPerHold = med
			}
		}
		if len(readers[r].PerHold) > 12 {
			readers[r].PerHold = readers[r].PerHold[:12]
		}
	}
	sort.Slice(all, func(i, j int) bool { return all[i] < all[j] })
	if len(all) > 0 {
		sc.P50us = all[len(all)/2] / 1000
		sc.P99us = all[len(all)*99/100] / 1000
		sc.MaxUs = all[len(all)-1] / 1000
	}
	sc.Readers = readers

	// ---- oracles
	hold := c.holdAll + c.holdFetch
	for r := range readers {
		if readers[r].Missing > 0 {
			sc.Failures = append(sc.Failures, fmt.Sprintf("never-missing: reader %d: %s (%d times)", r, readers[r].FirstBad, readers[r].Missing))
			break
		}
	}
	for r := range readers {
		if readers[r].WentBack > 0 {
			sc.Failures = append(sc.Failures, fmt.Sprintf("monotone: reader %d: %s (%d times)", r, readers[r].FirstBad, readers[r].WentBack))
			break
		}
	}
	if hold > 0 {
		if sc.Holds < 2 {
			sc.Failures = append(sc.Failures, "setup: fewer than two source calls were held open")
		}
		// a reader that waited for the writer would complete about one read per hold and
		// its median latency would be of the order of the hold time
		if sc.MinPerHold >= 0 && sc.MinPerHold < 3 {
			sc.Failures = append(sc.Failures, fmt.Sprintf("wait-free: some reader typically completed only %d reads while a source call was held open for %v", sc.MinPerHold, hold))
		}
		if time.Duration(sc.P50us)*time.Microsecond > hold/5 {
			sc.Failures = append(sc.Failures, fmt.Sprintf("wait-free: median read latency %dus approaches the hold time %v", sc.P50us, hold))
		}
	}
	if c.auto > 0 {
		// at most one automatic refresh per interval (+ the preload); each refresh asks 2 sources
		max := int64(sc.ElapsedMs/c.auto.Milliseconds()+2) * 2
		if sc.FetchAll > max {
			sc.Failures = append(sc.Failures, fmt.Sprintf("auto-refresh: %d FetchAll calls in %dms with a refresh interval of %v (at most %d expected)", sc.FetchAll, sc.ElapsedMs, c.auto, max))
		}
		if sc.FetchAll < 4 {
			sc.Failures = append(sc.Failures, "setup: the automatic refresh never ran")
		}
	}
	return sc
}

func main() {
	seed := flag.Uint64("seed", 1, "seed")
	tier := flag.String("tier", "quick", "tier")
	out := flag.String("out", "", "result file")
	flag.Parse()
	logging.SetAllLoggers(logging.LevelFatal)
	rng := vlib.NewRand(*seed)
	dur := 350 * time.Millisecond
	rounds := 1
	if *tier == "thorough" {
		dur = 1500 * time.Millisecond
		rounds = 4
	}
	var res []Scenario
	for k := 0; k < rounds; k++ {
		res = append(res,
			runScenario(cfg{name: "refresh-with-source-call-held-open", nprov: 4, holdAll: 30 * time.Millisecond, refresher: true, dur: dur, nreaders: 6}, rng.Fork(fmt.Sprint("a", k))),
			runScenario(cfg{name: "miss-fetch-held-open", nprov: 4, holdFetch: 25 * time.Millisecond, misser: true, dur: dur, nreaders: 6}, rng.Fork(fmt.Sprint("b", k))),
			runScenario(cfg{name: "automatic-refresh", nprov: 4, holdAll: 8 * time.Millisecond, auto: 20 * time.Millisecond, dur: dur, nreaders: 6}, rng.Fork(fmt.Sprint("c", k))),
			runScenario(cfg{name: "refreshes-rebuilding-the-main-map", nprov: 24, refresher: true, misser: true, churn: true, dur: dur, nreaders: 6}, rng.Fork(fmt.Sprint("d", k))),
		)
	}
	b, err := json.Marshal(res)
	if err != nil {
		panic(err)
	}
	if err := os.WriteFile(*out, b, 0o644); err != nil {
		panic(err)
	}
}
