package main

import "fmt"

func main() { x := 0; done := make(chan bool); go func() { x++; done <- true }(); x++; <-done; fmt.Println(x) }
