// c07race: the runtime half of check C07, built with -race by harness/cmd/c07.
//
// Concurrent readers (Get, GetResults, List, Len) run against a real pcache.ProviderCache
// while writers are in progress: explicit Refresh with a source call held open, lookups
// that miss with a Fetch held open, automatic refresh, and refreshes that change enough
// providers to make the cache rebuild its main map.  Every reader records what it saw;
// the oracles are evaluated here and the raw observation sequences are handed back to
// cmd/c07, which also writes them out as Coq cases.  The race detector watches the lot.
package main

import (
	"context"
	"encoding/json"
	"flag"
	"fmt"
	"net/http"
	"net/http/httptest"
	"os"
	"path"
	"sort"
	"strings"
	"sync"
	"sync/atomic"
	"time"

	logging "github.com/ipfs/go-log/v2"
	"github.com/ipni/go-libipni/find/model"
	"github.com/ipni/go-libipni/pcache"
	"github.com/libp2p/go-libp2p/core/peer"

	"verif/harness/pcdrv"
	"verif/harness/vlib"
)

const timeBase = 1_700_000_000

// source reports providers 1..n, each with an advertisement time that advances with every
// call (so the freshest record a reader may see only ever moves forward), and can hold its
// calls open.
type source struct {
	idx       int
	n         atomic.Int32 // providers 1..n are reported
	clock     atomic.Int64
	holdAll   atomic.Int64 // nanoseconds FetchAll stays open
	holdFetch atomic.Int64
	callsAll  atomic.Int64
	callsOne  atomic.Int64
	holds     *holdLog
	churn     atomic.Bool // advance only some providers per call (forces update-map growth)
	lag       atomic.Bool // this source is one version behind (and names another head advertisement)
	shift     atomic.Bool // every other listing leaves provider 1 out: positions shift
}

type holdLog struct {
	mu    sync.Mutex
	spans [][2]time.Time
}

func (h *holdLog) add(a, b time.Time) {
	h.mu.Lock()
	h.spans = append(h.spans, [2]time.Time{a, b})
	h.mu.Unlock()
}

func (s *source) info(pid int, t int64) *model.ProviderInfo { return mkInfo(s.idx, pid, t) }

// ---------------------------------------------------------------------------
// Records with extended providers.  A record is a deterministic function of (source,
// provider, version t); every address in it encodes all three, so a reader can tell from a
// GetResults answer which version it was expanded from, and an answer assembled from two
// versions cannot match the reference expansion of either.

const grCtx = "ctx"

var grMd = []byte{0x07, 0x01}

func vtag(src, slot int, t int64) int { return src<<22 | slot<<14 | int(t&0x3fff) }

func untag(tag int) (src, slot int, t int64) {
	return tag >> 22, (tag >> 14) & 0xff, int64(tag & 0x3fff)
}

func mdOf(kind int64) []byte {
	switch kind % 4 {
	case 0:
		return nil
	case 1:
		return []byte{}
	case 2:
		return append([]byte{}, grMd...) // the same bytes as the looked-up metadata
	}
	return []byte{0x08, byte(kind)}
}

func mkInfo(src, pid int, t int64) *model.ProviderInfo {
	pi := &model.ProviderInfo{
		AddrInfo:              pcdrv.AddrInfo(pid, vtag(src, pid, t)),
		LastAdvertisementTime: time.Unix(timeBase+t, 0).UTC().Format(time.RFC3339),
		LastAdvertisement:     pcdrv.VersionCid(vtag(src, pid, t)), // another head advertisement for every version
	}
	// the shape depends on the provider too: one listing carries records with and without
	// chain-level / contextual extended providers, in varying order
	k := t + int64(pid)*3
	xp := &model.ExtendedProviders{}
	// chain level: the provider itself (skipped or not depending on its metadata), two others
	xp.Providers = []peer.AddrInfo{pcdrv.AddrInfo(pid, vtag(src, 100, t)), pcdrv.AddrInfo(30, vtag(src, 101, t)), pcdrv.AddrInfo(31, vtag(src, 102, t))}
	xp.Metadatas = [][]byte{mdOf(k), mdOf(k + 1), mdOf(k + 3)}
	if k%5 == 0 {
		xp.Metadatas = xp.Metadatas[:1] // shorter than the provider list
	}
	// context level, for the context the readers ask about and for another one
	cx := model.ContextualExtendedProviders{ContextID: grCtx, Override: k%2 == 0,
		Providers: []peer.AddrInfo{pcdrv.AddrInfo(32, vtag(src, 103, t)), pcdrv.AddrInfo(pid, vtag(src, 104, t))},
		Metadatas: [][]byte{mdOf(k + 1), mdOf(k + 2)}}
	if k%7 == 0 {
		cx.Metadatas = nil
	}
	other := model.ContextualExtendedProviders{ContextID: "other", Override: true,
		Providers: []peer.AddrInfo{pcdrv.AddrInfo(33, vtag(src, 105, t))}, Metadatas: [][]byte{mdOf(k)}}
	xp.Contextual = []model.ContextualExtendedProviders{other, cx}
	switch k % 4 {
	case 1:
		xp.Contextual = nil // chain-level only
	case 2:
		xp.Providers, xp.Metadatas = nil, nil // contextual only
	}
	if k%4 == 3 {
		pi.ExtendedProviders = nil
	} else {
		pi.ExtendedProviders = xp
	}
	return pi
}

type grItem struct {
	id, tag int
	md      []byte
}

// refExpand is the reference expansion, written from the text of property C17 (as in
// harness/cmd/c17): the provider itself; the context-level set registered for the context
// ID; unless that set overrides, the chain-level set; the provider's own entry skipped where
// it adds no new metadata; the looked-up metadata substituted where an entry has none of
// its own (absent or empty; a metadata list shorter than the provider list = absent).
func refExpand(info *model.ProviderInfo, pid peer.ID, ctxID string, md []byte) []grItem {
	item := func(ai peer.AddrInfo, m []byte) grItem {
		return grItem{pcdrv.PeerIndex(ai.ID), pcdrv.AddrTag(ai.Addrs), m}
	}
	out := []grItem{item(info.AddrInfo, md)}
	xp := info.ExtendedProviders
	if xp == nil {
		return out
	}
	set := func(provs []peer.AddrInfo, mds [][]byte) {
		for i, p := range provs {
			var own []byte
			if i < len(mds) && len(mds[i]) > 0 {
				own = mds[i]
			}
			if p.ID == pid && (own == nil || string(own) == string(md)) {
				continue
			}
			if own == nil {
				out = append(out, item(p, md))
			} else {
				out = append(out, item(p, own))
			}
		}
	}
	var reg *model.ContextualExtendedProviders
	for i := range xp.Contextual {
		if xp.Contextual[i].ContextID == ctxID {
			reg = &xp.Contextual[i]
		}
	}
	if reg != nil {
		set(reg.Providers, reg.Metadatas)
		if reg.Override {
			return out
		}
	}
	set(xp.Providers, xp.Metadatas)
	return out
}

// checkResults compares a GetResults answer with the reference expansion of the record
// version named by the answer's first element.  It returns that version's time.
func checkResults(pid int, res []model.ProviderResult) (int64, string) {
	if len(res) == 0 || res[0].Provider == nil || res[0].Provider.ID != pcdrv.Peer(pid) {
		return -1, "no result for the provider itself"
	}
	src, slot, t := untag(pcdrv.AddrTag(res[0].Provider.Addrs))
	if slot != pid {
		return -1, "the first result is not the provider's own record"
	}
	want := refExpand(mkInfo(src, pid, t), pcdrv.Peer(pid), grCtx, grMd)
	if len(want) != len(res) {
		return t, fmt.Sprintf("version (source %d, time %d): %d results, the reference expansion has %d", src, t, len(res), len(want))
	}
	for i, w := range want {
		r := res[i]
		if r.Provider == nil || pcdrv.PeerIndex(r.Provider.ID) != w.id || pcdrv.AddrTag(r.Provider.Addrs) != w.tag ||
			string(r.Metadata) != string(w.md) || string(r.ContextID) != grCtx {
			gs, gl, gt := -1, -1, int64(-1)
			if r.Provider != nil {
				gs, gl, gt = untag(pcdrv.AddrTag(r.Provider.Addrs))
			}
			return t, fmt.Sprintf("version (source %d, time %d): result %d is (provider %d, entry of source %d slot %d version %d, metadata %x), the reference expansion has (provider %d, slot %d version %d, metadata %x)",
				src, t, i, pcdrv.PeerIndex(r.Provider.ID), gs, gl, gt, r.Metadata, w.id, (w.tag>>14)&0xff, w.tag&0x3fff, w.md)
		}
	}
	return t, ""
}

func (s *source) FetchAll(ctx context.Context) ([]*model.ProviderInfo, error) {
	s.callsAll.Add(1)
	if d := time.Duration(s.holdAll.Load()); d > 0 {
		a := time.Now()
		time.Sleep(d)
		s.holds.add(a, time.Now())
	}
	// every call allocates fresh records (as a decoding HTTP source does); the ingest
	// status (Lag, Inactive, LastError, LastErrorTime) differs on every call, the
	// advertisement time only advances on every third one
	call := s.callsAll.Load()
	t := s.clock.Load()
	if (call-1)%3 == 0 {
		t = s.clock.Add(1)
	}
	n := int(s.n.Load())
	out := make([]*model.ProviderInfo, 0, n)
	for p := 1; p <= n; p++ {
		if p == 1 && s.shift.Load() && call%2 == 0 {
			continue // not listed this time (it stays cached: the time-to-live is an hour)
		}
		tp := t
		if s.churn.Load() && (int64(p)+t)%3 != 0 {
			tp = 1 // an old time: the cache keeps what it has for this provider
		}
		if s.lag.Load() && tp > 1 {
			tp--
		}
		out = append(out, withStatus(s.info(p, tp), call))
	}
	return out, nil
}

func (s *source) Fetch(ctx context.Context, pid peer.ID) (*model.ProviderInfo, error) {
	s.callsOne.Add(1)
	if d := time.Duration(s.holdFetch.Load()); d > 0 {
		a := time.Now()
		time.Sleep(d)
		s.holds.add(a, time.Now())
	}
	p := pcdrv.PeerIndex(pid)
	if p >= 1 && p <= int(s.n.Load()) {
		t := s.clock.Load()
		if s.lag.Load() && t > 1 {
			t--
		}
		return withStatus(s.info(p, t), 1000000+s.callsOne.Load()), nil
	}
	return nil, nil
}

func (s *source) String() string { return fmt.Sprintf("held-%d", s.idx) }

// serve puts the source behind an HTTP server and returns pcache's own HTTP source for it
func serve(s pcache.ProviderSource) (pcache.ProviderSource, func()) {
	srv := httptest.NewServer(http.HandlerFunc(func(w http.ResponseWriter, r *http.Request) {
		w.Header().Set("Content-Type", "application/json")
		if strings.HasSuffix(r.URL.Path, "/providers") {
			infos, err := s.FetchAll(r.Context())
			if err != nil {
				http.Error(w, err.Error(), http.StatusInternalServerError)
				return
			}
			if infos == nil {
				infos = []*model.ProviderInfo{}
			}
			json.NewEncoder(w).Encode(infos)
			return
		}
		pid, err := peer.Decode(path.Base(r.URL.Path))
		if err != nil {
			http.Error(w, err.Error(), http.StatusBadRequest)
			return
		}
		info, err := s.Fetch(r.Context(), pid)
		if err != nil || info == nil {
			http.Error(w, "not found", http.StatusNotFound)
			return
		}
		json.NewEncoder(w).Encode(info)
	}))
	hs, err := pcache.NewHTTPSource(srv.URL, nil)
	if err != nil {
		panic(err)
	}
	return hs, srv.Close
}

// withStatus fills the ingest-status fields, which say nothing about the advertisement chain
func withStatus(pi *model.ProviderInfo, call int64) *model.ProviderInfo {
	pi.Lag = int(call)
	pi.Inactive = call%2 == 1
	pi.LastError = fmt.Sprintf("error of call %d", call)
	pi.LastErrorTime = time.Unix(timeBase+call, 0).UTC().Format(time.RFC3339)
	return pi
}

func statusOf(pi *model.ProviderInfo) string {
	return fmt.Sprintf("lag=%d inactive=%v err=%q at=%s", pi.Lag, pi.Inactive, pi.LastError, pi.LastErrorTime)
}

// versions remembers, for every record version (source, provider, time) any reader was ever
// handed, the status it carried: a version is one immutable object, so it never differs.
type versions struct{ m sync.Map }

func (v *versions) check(pi *model.ProviderInfo) string {
	src, slot, t := untag(pcdrv.AddrTag(pi.AddrInfo.Addrs))
	key := [3]int64{int64(src), int64(slot), t}
	st := statusOf(pi)
	if old, loaded := v.m.LoadOrStore(key, st); loaded && old.(string) != st {
		return fmt.Sprintf("the record of provider %d, source %d, advertisement time %d was handed out with status {%s} and later with {%s}", slot, src, t, old, st)
	}
	return ""
}

type heldRec struct {
	pi  *model.ProviderInfo
	sig string
}

// ---------------------------------------------------------------------------

type Obs struct {
	Pid  int   `json:"p"`
	Time int64 `json:"t"` // advertisement time of the record returned; -1: no record
}

type Reader struct {
	Obs       []Obs   `json:"obs"` // first observations, in order
	Reads     int     `json:"reads"`
	Missing   int     `json:"missing"`   // an always-reported provider came back nil / was not listed
	WentBack  int     `json:"went_back"` // a record older than one seen before
	Latencies []int64 `json:"-"`         // nanoseconds per Get
	PerHold   []int   `json:"per_hold"`  // reads completed inside each hold span
	FirstBad  string  `json:"first_bad,omitempty"`

	Changed      int    `json:"records_changed"` // a record handed out earlier changed, or a version was seen with two statuses
	FirstChanged string `json:"first_changed,omitempty"`
	HeldChecks   int    `json:"held_checks"`

	Expansions        int    `json:"expansions"` // GetResults calls checked against the reference expansion
	BadExpansions     int    `json:"bad_expansions"`
	FirstBadExpansion string `json:"first_bad_expansion,omitempty"`
}

type Scenario struct {
	Name        string           `json:"name"`
	HoldMs      int              `json:"hold_ms"`
	Holds       int              `json:"holds"`
	Readers     []Reader         `json:"readers"`
	Always      []int            `json:"always"` // providers reported at all times
	P50us       int64            `json:"p50_us"`
	P99us       int64            `json:"p99_us"`
	MaxUs       int64            `json:"max_us"`
	MinPerHold  int              `json:"min_reads_per_reader_per_hold"` // min over readers of the median over holds
	FetchAll    int64            `json:"fetchall_calls"`
	Fetch       int64            `json:"fetch_calls"`
	ElapsedMs   int64            `json:"elapsed_ms"`
	Failures    []string         `json:"failures,omitempty"`
	LenObserved []int            `json:"len_observed,omitempty"`
	Notes       []string         `json:"notes,omitempty"` // what was not judged because the machine was busy
	Probe       pcdrv.ProbeStats `json:"probe"`
}

func timeOf(pi *model.ProviderInfo) int64 {
	t, err := time.Parse(time.RFC3339, pi.LastAdvertisementTime)
	if err != nil {
		return 0
	}
	return t.Unix() - timeBase
}

const keepObs = 250

type cfg struct {
	name      string
	nprov     int
	holdAll   time.Duration // on source 1
	holdFetch time.Duration
	refresher bool          // a goroutine calls Refresh in a loop
	misser    bool          // a goroutine looks up unknown providers in a loop
	auto      time.Duration // refresh interval (0: none)
	churn     bool
	lag       bool // source 1 is one version behind
	http      bool // both sources are read through pcache's HTTP source
	shift     bool // source 0's listing shifts positions between calls
	dur       time.Duration
	nreaders  int
}

func runScenario(c cfg, rng *vlib.Rand) Scenario {
	probe := pcdrv.StartProbe()
	sc := runScenario1(c, rng)
	sc.Probe = probe.Stop()
	// real-time verdicts are only given when the scheduler probe shows the machine could
	// have met them; otherwise they are recorded as not judged
	var keep []string
	for _, f := range sc.Failures {
		timing := strings.HasPrefix(f, "wait-free:") || strings.HasPrefix(f, "setup:")
		if timing && sc.Probe.Busy(20*time.Millisecond) {
			sc.Notes = append(sc.Notes, "not judged (machine busy: "+sc.Probe.String()+"): "+f)
			continue
		}
		keep = append(keep, f)
	}
	sc.Failures = keep
	return sc
}

func runScenario1(c cfg, rng *vlib.Rand) Scenario {
	hl := &holdLog{}
	s0 := &source{idx: 0, holds: hl}
	s1 := &source{idx: 1, holds: hl}
	s0.n.Store(int32(c.nprov))
	s1.n.Store(int32(c.nprov))
	s0.churn.Store(c.churn)
	s1.lag.Store(c.lag)
	s0.shift.Store(c.shift)
	var p0, p1 pcache.ProviderSource = s0, s1
	if c.http {
		var c0, c1 func()
		p0, c0 = serve(s0)
		p1, c1 = serve(s1)
		defer c0()
		defer c1()
	}
	opts := []pcache.Option{pcache.WithSource(p0, p1), pcache.WithTTL(time.Hour), pcache.WithRefreshInterval(c.auto)}
	pc, err := pcache.New(opts...) // preload: one refresh, nothing held yet
	if err != nil {
		panic(err)
	}
	s1.holdAll.Store(int64(c.holdAll))
	s1.holdFetch.Store(int64(c.holdFetch))

	sc := Scenario{Name: c.name, HoldMs: int((c.holdAll + c.holdFetch) / time.Millisecond)}
	for p := 1; p <= c.nprov; p++ {
		sc.Always = append(sc.Always, p)
	}
	stop := make(chan struct{})
	var wg sync.WaitGroup
	start := time.Now()

	if c.refresher {
		wg.Add(1)
		go func() {
			defer wg.Done()
			for {
				select {
				case <-stop:
					return
				default:
				}
				_ = pc.Refresh(context.Background())
			}
		}()
	}
	if c.misser {
		wg.Add(1)
		go func() {
			defer wg.Done()
			k := 0
			for {
				select {
				case <-stop:
					return
				default:
				}
				// providers nobody reports: each lookup is a miss that holds the write
				// slot while the source call is open, then caches a negative entry
				_, _ = pc.Get(context.Background(), pcdrv.Peer(40+k%20))
				k++
				if k%20 == 0 {
					_ = pc.Refresh(context.Background())
				}
			}
		}()
	}

	readers := make([]Reader, c.nreaders)
	vers := &versions{}
	stamps := make([][]time.Time, c.nreaders) // completion time of every read
	for r := 0; r < c.nreaders; r++ {
		r := r
		seed := rng.Uint64()
		wg.Add(1)
		go func() {
			defer wg.Done()
			lr := vlib.NewRand(seed)
			rd := &readers[r]
			last := map[int]int64{}
			note := func(pid int, t int64, kind string) {
				// keep the observations that carry news: first sight of a provider, a
				// record time different from the last one seen for it, a missing record
				if l, ok := last[pid]; (!ok || l != t || t < 0) && len(rd.Obs) < keepObs {
					rd.Obs = append(rd.Obs, Obs{pid, t})
				}
				if t < 0 {
					rd.Missing++
					if rd.FirstBad == "" {
						rd.FirstBad = fmt.Sprintf("%s: provider %d reported missing", kind, pid)
					}
					return
				}
				if l, ok := last[pid]; ok && t < l {
					rd.WentBack++
					if rd.FirstBad == "" {
						rd.FirstBad = fmt.Sprintf("%s: provider %d went from time %d back to %d", kind, pid, l, t)
					}
				}
				last[pid] = t
			}
			var held []heldRec
			keep := func(pi *model.ProviderInfo) {
				if msg := vers.check(pi); msg != "" {
					rd.Changed++
					if rd.FirstChanged == "" {
						rd.FirstChanged = msg
					}
				}
				h := heldRec{pi, statusOf(pi) + " t=" + pi.LastAdvertisementTime}
				if len(held) < 64 {
					held = append(held, h)
				} else {
					held[lr.Intn(64)] = h
				}
			}
			for {
				select {
				case <-stop:
					return
				default:
				}
				// a record once handed to a caller never changes
				if len(held) > 0 {
					h := held[lr.Intn(len(held))]
					rd.HeldChecks++
					if now := statusOf(h.pi) + " t=" + h.pi.LastAdvertisementTime; now != h.sig {
						rd.Changed++
						if rd.FirstChanged == "" {
							rd.FirstChanged = fmt.Sprintf("a record this reader was handed earlier changed underneath it: {%s} became {%s}", h.sig, now)
						}
					}
				}
				pid := 1 + lr.Intn(c.nprov)
				switch lr.Intn(10) {
				case 0: // List
					a := time.Now()
					l := pc.List()
					rd.Latencies = append(rd.Latencies, int64(time.Since(a)))
					seen := map[int]int64{}
					for _, pi := range l {
						seen[pcdrv.PeerIndex(pi.AddrInfo.ID)] = timeOf(pi)
						if p := pcdrv.PeerIndex(pi.AddrInfo.ID); p >= 1 && p <= c.nprov {
							keep(pi)
						}
					}
					for p := 1; p <= c.nprov; p++ {
						if t, ok := seen[p]; ok {
							note(p, t, "List")
						} else {
							note(p, -1, "List")
						}
					}
				case 1: // GetResults: against the reference expansion of the version it names
					a := time.Now()
					res, err := pc.GetResults(context.Background(), pcdrv.Peer(pid), []byte(grCtx), grMd)
					rd.Latencies = append(rd.Latencies, int64(time.Since(a)))
					rd.Expansions++
					if err != nil {
						note(pid, -1, "GetResults")
					} else {
						t, bad := checkResults(pid, res)
						if bad != "" {
							rd.BadExpansions++
							if rd.FirstBadExpansion == "" {
								rd.FirstBadExpansion = fmt.Sprintf("GetResults(provider %d): %s", pid, bad)
							}
						}
						if t >= 0 {
							note(pid, t, "GetResults")
						} else {
							note(pid, -1, "GetResults")
						}
					}
				case 2: // Len
					a := time.Now()
					n := pc.Len()
					rd.Latencies = append(rd.Latencies, int64(time.Since(a)))
					if n < c.nprov && rd.FirstBad == "" {
						rd.Missing++
						rd.FirstBad = fmt.Sprintf("Len returned %d with %d providers reported at all times", n, c.nprov)
					}
				default: // Get
					a := time.Now()
					pi, err := pc.Get(context.Background(), pcdrv.Peer(pid))
					rd.Latencies = append(rd.Latencies, int64(time.Since(a)))
					if err != nil || pi == nil {
						note(pid, -1, "Get")
					} else if pi.AddrInfo.ID != pcdrv.Peer(pid) {
						rd.Changed++
						if rd.FirstChanged == "" {
							rd.FirstChanged = fmt.Sprintf("Get(provider %d) returned the record of provider %d", pid, pcdrv.PeerIndex(pi.AddrInfo.ID))
						}
					} else {
						note(pid, timeOf(pi), "Get")
						keep(pi)
					}
				}
				rd.Reads++
				stamps[r] = append(stamps[r], time.Now())
			}
		}()
	}

	time.Sleep(c.dur)
	stopped := time.Now()
	close(stop)
	wg.Wait()
	sc.ElapsedMs = time.Since(start).Milliseconds()
	sc.FetchAll = s0.callsAll.Load() + s1.callsAll.Load()
	sc.Fetch = s0.callsOne.Load() + s1.callsOne.Load()

	// reads completed by each reader strictly inside each hold span
	hl.mu.Lock()
	spans := hl.spans
	hl.mu.Unlock()
	sc.Holds = len(spans)
	sc.MinPerHold = -1
	var all []int64
	for r := range readers {
		all = append(all, readers[r].Latencies...)
		for _, sp := range spans {
			if sp[1].Sub(sp[0]) < (c.holdAll+c.holdFetch)*9/10 || sp[1].After(stopped) {
				continue // not a full hold, or the readers were told to stop during it
			}
			n := 0
			for _, st := range stamps[r] {
				if st.After(sp[0]) && st.Before(sp[1]) {
					n++
				}
			}
			readers[r].PerHold = append(readers[r].PerHold, n)
		}
		// the reader's typical number of reads inside one held-open call (median: one
		// descheduling of the goroutine under the race detector must not count)
		if ph := append([]int{}, readers[r].PerHold...); len(ph) > 0 {
			sort.Ints(ph)
			med := ph[len(ph)/2]
			if sc.MinPerHold < 0 || med < sc.MinPerHold {
				sc.MinPerHold = med
			}
		}
		if len(readers[r].PerHold) > 12 {
			readers[r].PerHold = readers[r].PerHold[:12]
		}
	}
	sort.Slice(all, func(i, j int) bool { return all[i] < all[j] })
	if len(all) > 0 {
		sc.P50us = all[len(all)/2] / 1000
		sc.P99us = all[len(all)*99/100] / 1000
		sc.MaxUs = all[len(all)-1] / 1000
	}
	sc.Readers = readers

	// ---- oracles
	hold := c.holdAll + c.holdFetch
	for r := range readers {
		if readers[r].Missing > 0 {
			sc.Failures = append(sc.Failures, fmt.Sprintf("never-missing: reader %d: %s (%d times)", r, readers[r].FirstBad, readers[r].Missing))
			break
		}
	}
	for r := range readers {
		if readers[r].WentBack > 0 {
			sc.Failures = append(sc.Failures, fmt.Sprintf("monotone: reader %d: %s (%d times)", r, readers[r].FirstBad, readers[r].WentBack))
			break
		}
	}
	for r := range readers {
		if readers[r].Changed > 0 {
			sc.Failures = append(sc.Failures, fmt.Sprintf("record-changed: reader %d: %s (%d times)", r, readers[r].FirstChanged, readers[r].Changed))
			break
		}
	}
	for r := range readers {
		if readers[r].BadExpansions > 0 {
			sc.Failures = append(sc.Failures, fmt.Sprintf("expansion: reader %d: %s (%d of %d GetResults answers differ from the reference expansion of the record version they name)", r, readers[r].FirstBadExpansion, readers[r].BadExpansions, readers[r].Expansions))
			break
		}
	}
	if hold > 0 {
		if sc.Holds == 0 {
			// (on a starved machine few calls complete inside the run; none at all means
			// the scenario did not exercise anything)
			sc.Failures = append(sc.Failures, "setup: no source call was held open")
		}
		// a reader that waited for the writer would have a median latency of the order of
		// the hold time.  (The number of reads completed inside each hold is reported but is
		// not an oracle: on a starved machine a reader goroutine may not be scheduled at all
		// during an 8 ms hold; the directed scenarios below carry the wait-freedom verdict
		// with holds of 400 ms against a bound of 100 ms.)
		if time.Duration(sc.P50us)*time.Microsecond > hold/5 {
			sc.Failures = append(sc.Failures, fmt.Sprintf("wait-free: median read latency %dus approaches the hold time %v", sc.P50us, hold))
		}
	}
	if c.auto > 0 {
		// at most one automatic refresh per interval (+ the preload); each refresh asks 2 sources
		max := int64(sc.ElapsedMs/c.auto.Milliseconds()+2) * 2
		if sc.FetchAll > max {
			sc.Failures = append(sc.Failures, fmt.Sprintf("auto-refresh: %d FetchAll calls in %dms with a refresh interval of %v (at most %d expected)", sc.FetchAll, sc.ElapsedMs, c.auto, max))
		}
		if sc.FetchAll < 4 && sc.Holds == 0 {
			sc.Failures = append(sc.Failures, "setup: the automatic refresh never ran")
		}
	}
	return sc
}

// ---------------------------------------------------------------------------
// Directed, deterministic scenarios.  The scripted source signals when a call has been
// entered and keeps it open until released, so the ordering is controlled without any
// hook; holds (400 ms) are long compared with the latency bound (100 ms).

type dsrc struct {
	mu      sync.Mutex
	listed  map[int]int64 // what FetchAll reports: provider -> advertisement time
	known   map[int]int64 // what only Fetch knows (not listed yet)
	lag     map[int]int   // ingest status reported for a provider (0: healthy)
	salt    int           // makes this source's head-advertisement CIDs its own
	failAll bool          // FetchAll fails (an outage)
	late    map[int]int64 // what a Fetch that is held open will answer for a provider once released: a time, or -1 for "not found" (the answer was taken when the call arrived)
	gateAll chan struct{} // one-shot: the next FetchAll waits for it
	gateOne chan struct{} // one-shot: the next Fetch waits for it
	entered chan struct{}
}

func newDsrc() *dsrc {
	return &dsrc{listed: map[int]int64{}, known: map[int]int64{}, lag: map[int]int{}, late: map[int]int64{}, entered: make(chan struct{}, 16)}
}

// dinfo allocates a fresh record on every call
func dinfo(pid int, t int64, lag int, salt int) *model.ProviderInfo {
	// (the provider advertises one address twice, as happens)
	ai := pcdrv.AddrInfo(pid, pid)
	ai.Addrs = append(append(ai.Addrs, pcdrv.Addr(pid)...), pcdrv.Addr(700+pid)...)
	pi := &model.ProviderInfo{AddrInfo: ai, LastAdvertisement: pcdrv.VersionCid(salt*100000 + int(t)*100 + pid),
		LastAdvertisementTime: time.Unix(timeBase+t, 0).UTC().Format(time.RFC3339)}
	// a listing is heterogeneous: odd providers have chain-level extended providers, every
	// fourth also contextual ones, even providers none
	if pid%2 == 1 {
		pi.ExtendedProviders = &model.ExtendedProviders{Providers: []peer.AddrInfo{pcdrv.AddrInfo(30+pid%4, 500+pid)}, Metadatas: [][]byte{{byte(pid), byte(t)}}}
		if pid%4 == 1 {
			pi.ExtendedProviders.Contextual = []model.ContextualExtendedProviders{{ContextID: grCtx, Override: true,
				Providers: []peer.AddrInfo{pcdrv.AddrInfo(34, 600+pid)}, Metadatas: [][]byte{{0x0c, byte(pid)}}}}
		}
	}
	if lag != 0 {
		pi.Lag, pi.Inactive, pi.LastError = lag, true, fmt.Sprintf("sync failed (lag %d)", lag)
		pi.LastErrorTime = time.Unix(timeBase+int64(lag), 0).UTC().Format(time.RFC3339)
	}
	return pi
}

func waitGate(g chan struct{}) {
	select {
	case <-g:
	case <-time.After(5 * time.Second): // never hang the run
	}
}

func (s *dsrc) FetchAll(ctx context.Context) ([]*model.ProviderInfo, error) {
	s.mu.Lock()
	g := s.gateAll
	s.gateAll = nil
	s.mu.Unlock()
	if g != nil {
		s.entered <- struct{}{}
		waitGate(g)
	}
	if ctx.Err() != nil {
		return nil, ctx.Err() // the caller gave up while the call was open
	}
	s.mu.Lock()
	down := s.failAll
	s.mu.Unlock()
	if down {
		return nil, fmt.Errorf("source unavailable")
	}
	s.mu.Lock()
	defer s.mu.Unlock()
	var out []*model.ProviderInfo
	pids := make([]int, 0, len(s.listed))
	for p := range s.listed {
		pids = append(pids, p)
	}
	sort.Ints(pids)
	for _, p := range pids {
		out = append(out, dinfo(p, s.listed[p], s.lag[p], s.salt))
	}
	return out, nil
}

func (s *dsrc) Fetch(ctx context.Context, pid peer.ID) (*model.ProviderInfo, error) {
	s.mu.Lock()
	g := s.gateOne
	s.gateOne = nil
	s.mu.Unlock()
	if g != nil {
		s.entered <- struct{}{}
		waitGate(g)
	}
	s.mu.Lock()
	defer s.mu.Unlock()
	p := pcdrv.PeerIndex(pid)
	if t, ok := s.late[p]; ok && g != nil {
		if t < 0 {
			return nil, nil
		}
		return dinfo(p, t, s.lag[p], s.salt), nil
	}
	if t, ok := s.listed[p]; ok {
		return dinfo(p, t, s.lag[p], s.salt), nil
	}
	if t, ok := s.known[p]; ok {
		return dinfo(p, t, s.lag[p], s.salt), nil
	}
	return nil, nil
}

func (s *dsrc) String() string { return "directed" }

func (s *dsrc) gate(all bool) chan struct{} {
	g := make(chan struct{})
	s.mu.Lock()
	if all {
		s.gateAll = g
	} else {
		s.gateOne = g
	}
	s.mu.Unlock()
	return g
}

func (s *dsrc) waitEntered(d time.Duration) bool {
	select {
	case <-s.entered:
		return true
	case <-time.After(d):
		return false
	}
}

type Directed struct {
	Name     string   `json:"name"`
	Failures []string `json:"failures,omitempty"`
	Notes    []string `json:"notes,omitempty"`
}

const (
	dP, dQ, dR, dR2 = 1, 2, 3, 4
	holdDirected    = 400 * time.Millisecond
	boundDirected   = 100 * time.Millisecond
)

// timed runs one read of a cached provider and reports a failure if it took longer than
// the bound or did not return the provider
func timedReads(d *Directed, pc *pcache.ProviderCache, when string) {
	check := func(kind string, f func() bool) {
		a := time.Now()
		ok := f()
		el := time.Since(a)
		d.Notes = append(d.Notes, fmt.Sprintf("%s %s: %v", kind, when, el.Round(time.Microsecond)))
		if el > boundDirected {
			d.Failures = append(d.Failures, fmt.Sprintf("reader-waited: %s of a cached provider %s took %v (a source call was held open for %v; bound %v)", kind, when, el.Round(time.Millisecond), holdDirected, boundDirected))
		}
		if !ok {
			d.Failures = append(d.Failures, fmt.Sprintf("cached-provider-missing: %s %s did not return the cached provider", kind, when))
		}
	}
	check("Get", func() bool {
		pi, err := pc.Get(context.Background(), pcdrv.Peer(dP))
		return err == nil && pi != nil
	})
	check("GetResults", func() bool {
		res, err := pc.GetResults(context.Background(), pcdrv.Peer(dP), []byte("c"), []byte{1})
		return err == nil && len(res) > 0
	})
	check("List", func() bool {
		for _, pi := range pc.List() {
			if pi.AddrInfo.ID == pcdrv.Peer(dP) {
				return true
			}
		}
		return false
	})
}

// (a) the refresh interval has elapsed and the source's FetchAll is held open: reads of a
// cached provider return at once; optionally a miss of another provider is being fetched
// (and holds the write slot) at the same time
func directedReaderLatency(name string, auto, missHeld bool) Directed {
	d := Directed{Name: name}
	src := newDsrc()
	src.listed[dP] = 1
	src.known[dR] = 1
	interval := time.Duration(0)
	if auto {
		interval = 10 * time.Millisecond
	}
	pc, err := pcache.New(pcache.WithSource(src), pcache.WithTTL(time.Hour), pcache.WithRefreshInterval(interval))
	if err != nil {
		panic(err)
	}
	var gates []chan struct{}
	if auto {
		gates = append(gates, src.gate(true))
	}
	var missDone chan struct{}
	if missHeld {
		gates = append(gates, src.gate(false))
		missDone = make(chan struct{})
		go func() {
			_, _ = pc.Get(context.Background(), pcdrv.Peer(dR))
			close(missDone)
		}()
		if !src.waitEntered(2 * time.Second) {
			d.Failures = append(d.Failures, "setup: the miss never reached the source")
		}
	}
	for _, g := range gates {
		g := g
		time.AfterFunc(holdDirected, func() { close(g) })
	}
	if auto {
		time.Sleep(3 * interval) // the interval has elapsed: needsRefresh is set
	}
	timedReads(&d, pc, "with the refresh interval elapsed / a source call held open")
	if auto && !missHeld {
		// the automatic refresh is now inside FetchAll (held): read again
		if !src.waitEntered(time.Second) {
			d.Notes = append(d.Notes, "the automatic refresh had not reached the source after 1s")
		}
		timedReads(&d, pc, "while the automatic refresh is inside FetchAll")
	}
	time.Sleep(holdDirected + 50*time.Millisecond)
	if missDone != nil {
		select {
		case <-missDone:
		case <-time.After(3 * time.Second):
			d.Failures = append(d.Failures, "hung: the miss did not return after its source call was released")
		}
	}
	return d
}

// (b) what one writer published is never rolled back by a writer that queued behind it
func directedNoRollback(name string, missFirst bool) Directed {
	d := Directed{Name: name}
	src := newDsrc()
	src.listed[dP] = 1
	src.known[dR] = 1
	src.known[dR2] = 1
	pc, err := pcache.New(pcache.WithSource(src), pcache.WithTTL(time.Hour), pcache.WithRefreshInterval(0))
	if err != nil {
		panic(err)
	}
	// new data at the source: P advanced, Q added
	src.mu.Lock()
	src.listed[dP] = 2
	src.listed[dQ] = 1
	src.mu.Unlock()

	var wg sync.WaitGroup
	run := func(f func()) {
		wg.Add(1)
		go func() { defer wg.Done(); f() }()
	}
	refresh := func() { _ = pc.Refresh(context.Background()) }
	get := func(p int) func() {
		return func() { _, _ = pc.Get(context.Background(), pcdrv.Peer(p)) }
	}
	var g chan struct{}
	if !missFirst {
		g = src.gate(true) // W1 = Refresh, held open inside FetchAll
		run(refresh)
	} else {
		g = src.gate(false) // W1 = the miss of R, held open inside Fetch
		run(get(dR))
	}
	if !src.waitEntered(2 * time.Second) {
		d.Failures = append(d.Failures, "setup: the first writer never reached the source")
	}
	// these load the snapshot, miss (or find the slot busy) and queue behind W1
	if !missFirst {
		run(get(dR))
	} else {
		run(refresh)
	}
	run(get(dR2))
	time.Sleep(40 * time.Millisecond)
	close(g)
	done := make(chan struct{})
	go func() { wg.Wait(); close(done) }()
	select {
	case <-done:
	case <-time.After(4 * time.Second):
		d.Failures = append(d.Failures, "hung: the writers did not all return")
		return d
	}
	// every writer has returned: nothing any of them published may be gone
	pi, _ := pc.Get(context.Background(), pcdrv.Peer(dP))
	if pi == nil {
		d.Failures = append(d.Failures, "rolled-back: provider P, cached before and reported throughout, is missing after the writers returned")
	} else if t := timeOf(pi); t != 2 {
		d.Failures = append(d.Failures, fmt.Sprintf("rolled-back: Get(P) returns the record of time %d after a refresh that fetched time 2 completed", t))
	}
	listed := map[int]int64{}
	for _, x := range pc.List() {
		listed[pcdrv.PeerIndex(x.AddrInfo.ID)] = timeOf(x)
	}
	for _, w := range []struct {
		p    int
		name string
	}{{dP, "P"}, {dQ, "Q (added by the refresh)"}, {dR, "R (cached by a miss)"}, {dR2, "R2 (cached by a miss)"}} {
		if _, ok := listed[w.p]; !ok {
			d.Failures = append(d.Failures, fmt.Sprintf("rolled-back: provider %s is not listed after all writers returned (List has %v)", w.name, listed))
		}
	}
	if t, ok := listed[dP]; ok && t != 2 {
		d.Failures = append(d.Failures, fmt.Sprintf("rolled-back: List has P with time %d after a refresh that fetched time 2 completed", t))
	}
	if n := pc.Len(); n < 4 {
		d.Failures = append(d.Failures, fmt.Sprintf("rolled-back: Len is %d with four providers cached", n))
	}
	return d
}

// (c) a record that has been published, and handed to callers, is never written again:
// a refresh is parked in its second source after the first one answered with a CHANGED
// ingest status and an UNCHANGED advertisement time (a freshly allocated record, as a
// decoding source delivers it); nothing of that answer may be visible before the refresh
// publishes, nor after it was cancelled, and the record a caller already holds stays as
// it was
func directedRecordNeverChanges(name string) Directed {
	d := Directed{Name: name}
	s0, s1 := newDsrc(), newDsrc()
	s0.listed[dP] = 1
	pc, err := pcache.New(pcache.WithSource(s0, s1), pcache.WithTTL(time.Hour), pcache.WithRefreshInterval(0))
	if err != nil {
		panic(err)
	}
	held, _ := pc.Get(context.Background(), pcdrv.Peer(dP))
	if held == nil {
		d.Failures = append(d.Failures, "setup: the provider was not cached by the preload")
		return d
	}
	before := statusOf(held)
	s0.mu.Lock()
	s0.lag[dP] = 7 // the status changes, the advertisement time does not
	s0.mu.Unlock()
	g := s1.gate(true)
	ctx, cancel := context.WithCancel(context.Background())
	done := make(chan error, 1)
	go func() { done <- pc.Refresh(ctx) }()
	if !s1.waitEntered(2 * time.Second) {
		d.Failures = append(d.Failures, "setup: the refresh never reached its second source")
	}
	look := func(when, class string) {
		pi, _ := pc.Get(context.Background(), pcdrv.Peer(dP))
		if pi == nil {
			d.Failures = append(d.Failures, "cached-provider-missing: Get "+when+" returned no record")
			return
		}
		if st := statusOf(pi); st != before {
			d.Failures = append(d.Failures, fmt.Sprintf("%s: Get %s returns status {%s}; the last completed update published {%s}", class, when, st, before))
		}
		if st := statusOf(held); st != before {
			d.Failures = append(d.Failures, fmt.Sprintf("held-record-changed: the record the caller was handed before the refresh started changed underneath it %s: {%s} became {%s}", when, before, st))
		}
	}
	look("while the refresh is parked in its second source", "unpublished-data-visible")
	cancel()
	close(g)
	select {
	case e := <-done:
		if e == nil {
			d.Notes = append(d.Notes, "the cancelled refresh returned nil")
		}
	case <-time.After(3 * time.Second):
		d.Failures = append(d.Failures, "hung: the cancelled refresh did not return")
		return d
	}
	look("after the refresh was cancelled", "data-of-cancelled-refresh-visible")
	return d
}

// (d) a lagging source never takes a provider back in time: one source serves version 2
// of P, another version 1 with ANOTHER head advertisement; whatever the order of lookups
// and refreshes, no read returns an older record than an earlier read did
func directedLaggingSource(name string, rolledBack bool) Directed {
	d := Directed{Name: name}
	a, b := newDsrc(), newDsrc()
	a.salt, b.salt = 1, 2
	a.listed[dP] = 2
	b.listed[dP] = 1
	if rolledBack {
		b.listed[dP] = 2
	}
	pc, err := pcache.New(pcache.WithSource(a, b), pcache.WithTTL(time.Hour), pcache.WithRefreshInterval(0), pcache.WithPreload(false))
	if err != nil {
		panic(err)
	}
	best := int64(-1)
	look := func(when string) {
		see := func(kind string, pi *model.ProviderInfo) {
			if pi == nil {
				d.Failures = append(d.Failures, fmt.Sprintf("cached-provider-missing: %s %s returned no record", kind, when))
				return
			}
			t := timeOf(pi)
			if t < best {
				d.Failures = append(d.Failures, fmt.Sprintf("went-back: %s %s returns the record of advertisement time %d after an earlier read returned time %d (a source that lags serves time 1 with another head advertisement)", kind, when, t, best))
			}
			if t > best {
				best = t
			}
		}
		pi, _ := pc.Get(context.Background(), pcdrv.Peer(dP))
		see("Get", pi)
		for _, x := range pc.List() {
			if x.AddrInfo.ID == pcdrv.Peer(dP) {
				see("List", x)
			}
		}
	}
	look("(first lookup: a miss asks both sources)")
	if rolledBack {
		b.mu.Lock()
		b.listed[dP] = 1 // the second source is rolled back
		b.mu.Unlock()
	}
	for k := 1; k <= 2; k++ {
		if e := pc.Refresh(context.Background()); e != nil {
			d.Failures = append(d.Failures, "setup: Refresh failed: "+e.Error())
		}
		look(fmt.Sprintf("after refresh %d", k))
	}
	return d
}

// (e) pcache's own HTTP source against a server whose listing changes between refreshes
// (a provider leaves, positions shift, one is added, times advance): after every refresh
// Get(p) is what the server last served for p, and no record read earlier has changed
func directedHTTPListingShifts(name string) Directed {
	d := Directed{Name: name}
	src := newDsrc()
	src.salt = 3
	hs, closeSrv := serve(src)
	defer closeSrv()
	type held struct {
		pi   *model.ProviderInfo
		json string
		when string
	}
	var helds []held
	js := func(pi *model.ProviderInfo) string { b, _ := json.Marshal(pi); return string(b) }
	steps := []map[int]int64{
		{1: 1, 2: 1, 3: 1},
		{2: 2, 3: 1},       // 1 leaves: 2 and 3 move up one position
		{1: 3, 3: 2, 4: 1}, // 1 is back, 2 leaves, 4 is new
		{4: 2, 3: 3, 1: 3},
	}
	var pc *pcache.ProviderCache
	last := map[int]int64{} // what the server last served for each provider
	for k, listing := range steps {
		src.mu.Lock()
		src.listed = listing
		src.mu.Unlock()
		if k == 0 {
			var err error
			pc, err = pcache.New(pcache.WithSource(hs), pcache.WithTTL(time.Hour), pcache.WithRefreshInterval(0))
			if err != nil {
				panic(err)
			}
		} else if e := pc.Refresh(context.Background()); e != nil {
			d.Failures = append(d.Failures, "setup: Refresh failed: "+e.Error())
		}
		for p, t := range listing {
			last[p] = t
		}
		when := fmt.Sprintf("after refresh %d", k+1)
		for p, t := range last {
			pi, _ := pc.Get(context.Background(), pcdrv.Peer(p))
			if pi == nil {
				d.Failures = append(d.Failures, fmt.Sprintf("cached-provider-missing: Get(provider %d) %s returned no record", p, when))
				continue
			}
			if want := js(dinfo(p, t, 0, src.salt)); js(pi) != want {
				d.Failures = append(d.Failures, fmt.Sprintf("record-not-as-served: Get(provider %d) %s returns %s; the server last served %s for it", p, when, js(pi), want))
			}
			helds = append(helds, held{pi, js(pi), when})
		}
		for _, pi := range pc.List() {
			helds = append(helds, held{pi, js(pi), when + " (List)"})
		}
		for _, h := range helds {
			if now := js(h.pi); now != h.json {
				d.Failures = append(d.Failures, fmt.Sprintf("held-record-changed: a record read %s changed underneath the caller by %s: %s became %s", h.when, when, h.json, now))
				break
			}
		}
	}
	return d
}

// (f) a lookup's answer that arrives late never overwrites what a refresh cached meanwhile:
// Get(R) misses and its Fetch is held open (the answer — an OLDER record, or "not found" —
// is already on its way); the source then reports R with a newer record and a Refresh is
// requested; the held call is released.  Whatever order the two writers take, afterwards R
// is cached with the newer record.
func directedLateMissAnswer(name string, notFound bool) Directed {
	d := Directed{Name: name}
	src := newDsrc()
	src.salt = 4
	src.listed[dP] = 1
	pc, err := pcache.New(pcache.WithSource(src), pcache.WithTTL(time.Hour), pcache.WithRefreshInterval(0))
	if err != nil {
		panic(err)
	}
	src.mu.Lock()
	if notFound {
		src.late[dR] = -1
	} else {
		src.late[dR] = 1
	}
	src.mu.Unlock()
	g := src.gate(false)
	missDone := make(chan *model.ProviderInfo, 1)
	go func() {
		pi, _ := pc.Get(context.Background(), pcdrv.Peer(dR))
		missDone <- pi
	}()
	if !src.waitEntered(2 * time.Second) {
		d.Failures = append(d.Failures, "setup: the miss never reached the source")
	}
	src.mu.Lock()
	src.listed[dR] = 2 // the source now reports R, with a newer record
	src.mu.Unlock()
	refDone := make(chan error, 1)
	go func() { refDone <- pc.Refresh(context.Background()) }()
	// (the refresh either waits for the miss to give the write slot back, or runs now)
	select {
	case <-refDone:
		refDone <- nil
		d.Notes = append(d.Notes, "the refresh completed while the miss-fetch was still waiting for its source")
	case <-time.After(60 * time.Millisecond):
	}
	close(g)
	select {
	case <-missDone:
	case <-time.After(3 * time.Second):
		d.Failures = append(d.Failures, "hung: the miss did not return")
		return d
	}
	select {
	case <-refDone:
	case <-time.After(3 * time.Second):
		d.Failures = append(d.Failures, "hung: the refresh did not return")
		return d
	}
	pi, _ := pc.Get(context.Background(), pcdrv.Peer(dR))
	switch {
	case pi == nil:
		d.Failures = append(d.Failures, "missing-after-refresh: a refresh in which the source reported provider R completed, yet Get(R) returns no record (the late answer of the miss-fetch replaced it by a negative entry)")
	case timeOf(pi) != 2:
		d.Failures = append(d.Failures, fmt.Sprintf("went-back: a refresh that fetched R with advertisement time 2 completed, yet Get(R) returns the record of time %d (the late answer of the miss-fetch overwrote it)", timeOf(pi)))
	}
	found := false
	for _, x := range pc.List() {
		if x.AddrInfo.ID == pcdrv.Peer(dR) {
			found = true
			if timeOf(x) != 2 {
				d.Failures = append(d.Failures, fmt.Sprintf("went-back: List has R with advertisement time %d after a refresh that fetched time 2 completed", timeOf(x)))
			}
		}
	}
	if !found {
		d.Failures = append(d.Failures, "missing-after-refresh: R is not listed after a refresh in which the source reported it completed")
	}
	return d
}

// (g) an outage that ends with an UNCHANGED record cancels the removal countdown it started:
// the source fails, recovers without a new advertisement, more than a time-to-live passes,
// it fails again; the provider must still be cached
func directedOutageRecovery(name string, newer bool) Directed {
	d := Directed{Name: name}
	src := newDsrc()
	src.salt = 5
	src.listed[dP] = 1
	ttl := 150 * time.Millisecond
	pc, err := pcache.New(pcache.WithSource(src), pcache.WithTTL(ttl), pcache.WithRefreshInterval(0))
	if err != nil {
		panic(err)
	}
	set := func(down bool) { src.mu.Lock(); src.failAll = down; src.mu.Unlock() }
	check := func(when string) {
		pi, _ := pc.Get(context.Background(), pcdrv.Peer(dP))
		listed := false
		for _, x := range pc.List() {
			if x.AddrInfo.ID == pcdrv.Peer(dP) {
				listed = true
			}
		}
		if pi == nil || !listed {
			d.Failures = append(d.Failures, fmt.Sprintf("removed-early: provider P is reported missing %s (Get record: %v, listed: %v); its removal countdown must have been cancelled when the source reported it again", when, pi != nil, listed))
		}
	}
	set(true)
	_ = pc.Refresh(context.Background()) // first outage: the countdown starts
	check("during the first outage")
	set(false)
	if newer {
		src.mu.Lock()
		src.listed[dP] = 2
		src.mu.Unlock()
	}
	_ = pc.Refresh(context.Background()) // recovery
	check("after the source recovered")
	time.Sleep(ttl + 100*time.Millisecond) // more than a time-to-live after the first outage
	set(true)
	_ = pc.Refresh(context.Background()) // second outage: a NEW countdown starts now
	check("at the start of a second outage, more than a time-to-live after the first")
	return d
}

// (h) a provider cached by a miss-fetch keeps its time: the source with the newest version
// fails at the next refresh while a lagging source answers
func directedMissThenNewestFails(name string) Directed {
	d := Directed{Name: name}
	a, b := newDsrc(), newDsrc()
	a.salt, b.salt = 6, 7
	a.listed[dP] = 2
	b.listed[dP] = 1
	pc, err := pcache.New(pcache.WithSource(a, b), pcache.WithTTL(time.Hour), pcache.WithRefreshInterval(0), pcache.WithPreload(false))
	if err != nil {
		panic(err)
	}
	best := int64(-1)
	look := func(when string) {
		pi, _ := pc.Get(context.Background(), pcdrv.Peer(dP))
		if pi == nil {
			d.Failures = append(d.Failures, "cached-provider-missing: Get "+when+" returned no record")
			return
		}
		if t := timeOf(pi); t < best {
			d.Failures = append(d.Failures, fmt.Sprintf("went-back: Get %s returns the record of advertisement time %d after an earlier read returned time %d (the source holding the newest version failed, a lagging one answered)", when, t, best))
		} else {
			best = t
		}
	}
	look("(a miss: both sources are asked)")
	a.mu.Lock()
	a.failAll = true
	a.mu.Unlock()
	_ = pc.Refresh(context.Background())
	look("after a refresh in which the newest source failed")
	_ = pc.Refresh(context.Background())
	look("after a second such refresh")
	return d
}

// (i) consumers of lookup results never change the cache: the real find client
// (find/client DHashClient.FindAsync) is run, concurrently with refreshes, over a cache
// whose records list an address twice; the cached record and a record a caller already
// holds stay exactly as the source delivered them (the race detector watches as well)
func directedFindLeavesCacheUntouched(name string) Directed {
	d := Directed{Name: name}
	src := newDsrc()
	src.salt = 8
	src.listed[dP] = 1
	src.listed[dQ] = 1
	srv := httptest.NewServer(http.HandlerFunc(func(w http.ResponseWriter, r *http.Request) {
		w.Header().Set("Content-Type", "application/json")
		infos, _ := src.FetchAll(r.Context())
		json.NewEncoder(w).Encode(infos)
	}))
	defer srv.Close()
	dh := pcdrv.NewMemDH()
	mh := pcdrv.TestMultihash(7)
	dh.Put(mh, pcdrv.Peer(dP), []byte(grCtx), []byte{1})
	dh.Put(mh, pcdrv.Peer(dQ), []byte(grCtx), []byte{2})
	cl := pcdrv.NewFindClient(dh, srv.URL)
	js := func(pi *model.ProviderInfo) string { b, _ := json.Marshal(pi); return string(b) }
	held, _ := cl.PCache().Get(context.Background(), pcdrv.Peer(dP))
	if held == nil {
		d.Failures = append(d.Failures, "setup: the provider was not cached")
		return d
	}
	before := js(held)
	var wg sync.WaitGroup
	for g := 0; g < 4; g++ {
		wg.Add(1)
		go func() {
			defer wg.Done()
			for k := 0; k < 15; k++ {
				if resp, err := cl.Find(context.Background(), mh); err != nil || len(resp.MultihashResults) == 0 {
					return
				}
			}
		}()
	}
	wg.Add(1)
	go func() {
		defer wg.Done()
		for k := 0; k < 8; k++ {
			_ = cl.PCache().Refresh(context.Background())
			for _, pi := range cl.PCache().List() {
				_ = js(pi) // a reader of the published records
			}
		}
	}()
	wg.Wait()
	if now := js(held); now != before {
		d.Failures = append(d.Failures, fmt.Sprintf("held-record-changed: a record the caller held changed while other callers ran Find: %s became %s", before, now))
	}
	for _, p := range []int{dP, dQ} {
		pi, _ := cl.PCache().Get(context.Background(), pcdrv.Peer(p))
		want := js(dinfo(p, 1, 0, src.salt))
		if pi == nil || js(pi) != want {
			d.Failures = append(d.Failures, fmt.Sprintf("cached-record-changed-by-consumer: after the Finds the record cached for provider %d is %s; the source delivered %s", p, js(pi), want))
		}
	}
	return d
}

func runDirected(only string) []Directed {
	var out []Directed
	add := func(name string, f func() Directed) {
		if only != "" && only != name {
			return
		}
		// A verdict that depends on real time (a read slower than the bound, a call that
		// did not return in seconds) is only given if it repeats: a read that waits for a
		// writer is slow every time, a descheduled goroutine is not.
		var d Directed
		for attempt := 1; attempt <= 3; attempt++ {
			probe := pcdrv.StartProbe()
			d = f()
			ps := probe.Stop()
			timing := false
			for _, fl := range d.Failures {
				if strings.HasPrefix(fl, "reader-waited:") || strings.HasPrefix(fl, "hung:") || strings.HasPrefix(fl, "setup:") {
					timing = true
				}
			}
			d.Notes = append(d.Notes, fmt.Sprintf("attempt %d: %s", attempt, ps.String()))
			if !timing {
				break
			}
		}
		out = append(out, d)
	}
	add("reader/interval-elapsed-fetchall-held", func() Directed {
		return directedReaderLatency("reader/interval-elapsed-fetchall-held", true, false)
	})
	add("reader/miss-fetch-held", func() Directed { return directedReaderLatency("reader/miss-fetch-held", false, true) })
	add("reader/interval-elapsed-and-miss-fetch-held", func() Directed {
		return directedReaderLatency("reader/interval-elapsed-and-miss-fetch-held", true, true)
	})
	add("records/status-change-with-unchanged-time", func() Directed {
		return directedRecordNeverChanges("records/status-change-with-unchanged-time")
	})
	add("writers/late-miss-answer-older", func() Directed { return directedLateMissAnswer("writers/late-miss-answer-older", false) })
	add("writers/late-miss-answer-not-found", func() Directed { return directedLateMissAnswer("writers/late-miss-answer-not-found", true) })
	add("records/outage-recovery-unchanged", func() Directed { return directedOutageRecovery("records/outage-recovery-unchanged", false) })
	add("records/outage-recovery-newer", func() Directed { return directedOutageRecovery("records/outage-recovery-newer", true) })
	add("records/miss-fetched-then-newest-source-fails", func() Directed {
		return directedMissThenNewestFails("records/miss-fetched-then-newest-source-fails")
	})
	add("consumers/find-leaves-cache-untouched", func() Directed { return directedFindLeavesCacheUntouched("consumers/find-leaves-cache-untouched") })
	add("records/lagging-source", func() Directed { return directedLaggingSource("records/lagging-source", false) })
	add("records/source-rolled-back", func() Directed { return directedLaggingSource("records/source-rolled-back", true) })
	add("records/http-listing-shifts", func() Directed { return directedHTTPListingShifts("records/http-listing-shifts") })
	for k := 0; k < 3; k++ {
		add("writers/refresh-held-misses-queue", func() Directed { return directedNoRollback("writers/refresh-held-misses-queue", false) })
		add("writers/miss-held-refresh-and-miss-queue", func() Directed {
			return directedNoRollback("writers/miss-held-refresh-and-miss-queue", true)
		})
	}
	return out
}

func main() {
	seed := flag.Uint64("seed", 1, "seed")
	tier := flag.String("tier", "quick", "tier")
	out := flag.String("out", "", "result file")
	only := flag.String("directed-only", "", "run only this directed scenario")
	flag.Parse()
	logging.SetAllLoggers(logging.LevelFatal)
	rng := vlib.NewRand(*seed)
	dur := 350 * time.Millisecond
	rounds := 1
	if *tier == "thorough" {
		dur = 1500 * time.Millisecond
		rounds = 4
	}
	var res []Scenario
	dres := runDirected(*only)
	if *only != "" {
		rounds = 0
	}
	for k := 0; k < rounds; k++ {
		res = append(res,
			runScenario(cfg{name: "refresh-with-source-call-held-open", nprov: 4, holdAll: 30 * time.Millisecond, refresher: true, lag: true, dur: dur, nreaders: 6}, rng.Fork(fmt.Sprint("a", k))),
			runScenario(cfg{name: "miss-fetch-held-open", nprov: 4, holdFetch: 25 * time.Millisecond, misser: true, dur: dur, nreaders: 6}, rng.Fork(fmt.Sprint("b", k))),
			runScenario(cfg{name: "automatic-refresh", nprov: 4, holdAll: 8 * time.Millisecond, auto: 20 * time.Millisecond, dur: dur, nreaders: 6}, rng.Fork(fmt.Sprint("c", k))),
			runScenario(cfg{name: "http-sources-listing-shifts", nprov: 5, refresher: true, http: true, shift: true, lag: true, dur: dur, nreaders: 6}, rng.Fork(fmt.Sprint("e", k))),
			runScenario(cfg{name: "refreshes-rebuilding-the-main-map", nprov: 24, refresher: true, misser: true, churn: true, dur: dur, nreaders: 6}, rng.Fork(fmt.Sprint("d", k))),
		)
	}
	b, err := json.Marshal(map[string]interface{}{"scenarios": res, "directed": dres})
	if err != nil {
		panic(err)
	}
	if err := os.WriteFile(*out, b, 0o644); err != nil {
		panic(err)
	}
}
