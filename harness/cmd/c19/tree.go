package main

import (
	"bytes"
	"encoding/base64"
	"encoding/json"
	"fmt"
	"io"
	"strings"

	"verif/harness/vlib"
)

// An order-preserving JSON reader (encoding/json's tokenizer), and the conversion of
// what is on the wire into the Coq model's abstract tree [jv].  The conversion is
// schema directed: which leaf constructor a string becomes depends on the field it is
// under (base64 bytes, peer ID text, multiaddr text, message text).

type onode struct {
	kind byte // n(ull) s(tring) d(igit) b(ool) a(rray) o(bject)
	str  string
	arr  []*onode
	keys []string
	vals []*onode
}

func parseOrdered(dec *json.Decoder) (*onode, error) {
	tok, err := dec.Token()
	if err != nil {
		return nil, err
	}
	switch t := tok.(type) {
	case nil:
		return &onode{kind: 'n'}, nil
	case string:
		return &onode{kind: 's', str: t}, nil
	case json.Number:
		return &onode{kind: 'd', str: t.String()}, nil
	case bool:
		return &onode{kind: 'b', str: fmt.Sprint(t)}, nil
	case json.Delim:
		switch t {
		case '[':
			n := &onode{kind: 'a'}
			for dec.More() {
				c, err := parseOrdered(dec)
				if err != nil {
					return nil, err
				}
				n.arr = append(n.arr, c)
			}
			if _, err := dec.Token(); err != nil {
				return nil, err
			}
			return n, nil
		case '{':
			n := &onode{kind: 'o'}
			for dec.More() {
				k, err := dec.Token()
				if err != nil {
					return nil, err
				}
				ks, ok := k.(string)
				if !ok {
					return nil, fmt.Errorf("object key is not a string")
				}
				c, err := parseOrdered(dec)
				if err != nil {
					return nil, err
				}
				n.keys = append(n.keys, ks)
				n.vals = append(n.vals, c)
			}
			if _, err := dec.Token(); err != nil {
				return nil, err
			}
			return n, nil
		}
	}
	return nil, fmt.Errorf("unexpected token %v", tok)
}

// parseOne reads exactly one JSON value (trailing white space allowed).
func parseOne(b []byte) (*onode, error) {
	dec := json.NewDecoder(bytes.NewReader(b))
	dec.UseNumber()
	n, err := parseOrdered(dec)
	if err != nil {
		return nil, err
	}
	if _, err := dec.Token(); err != io.EOF {
		return nil, fmt.Errorf("more than one JSON value")
	}
	return n, nil
}

var fieldNames = map[string]string{
	"ContextID": "FContextID", "Metadata": "FMetadata", "Provider": "FProvider", "ID": "FID",
	"Addrs": "FAddrs", "Multihash": "FMultihash", "ProviderResults": "FProviderResults",
	"MultihashResults": "FMultihashResults", "EncryptedMultihashResults": "FEncryptedMultihashResults",
	"Message": "FMessage", "Status": "FStatus",
}

// what a value under a field is, per enclosing schema
var schema = map[string]map[string]string{
	"findresp": {"MultihashResults": "[mhresult"},
	"mhresult": {"Multihash": "b64", "ProviderResults": "[result"},
	"result":   {"ContextID": "b64", "Metadata": "b64", "Provider": "pinfo"},
	"pinfo":    {"ID": "peer", "Addrs": "[addr"},
	"errmsg":   {"Message": "str", "Status": "int"},
}

func toJV(n *onode, ctx string) (string, error) {
	if n.kind == 'n' {
		return "JNull", nil
	}
	if strings.HasPrefix(ctx, "[") {
		if n.kind != 'a' {
			return "", fmt.Errorf("expected array for %s", ctx)
		}
		var it []string
		for _, c := range n.arr {
			s, err := toJV(c, ctx[1:])
			if err != nil {
				return "", err
			}
			it = append(it, s)
		}
		return "(JArr " + vlib.CoqList(it) + ")", nil
	}
	switch ctx {
	case "b64":
		if n.kind != 's' {
			return "", fmt.Errorf("expected base64 string")
		}
		b, err := base64.StdEncoding.DecodeString(n.str)
		if err != nil {
			return "", fmt.Errorf("bad base64 %q", n.str)
		}
		return "(JB64 " + vlib.CoqBytes(b) + ")", nil
	case "peer":
		if n.kind != 's' {
			return "", fmt.Errorf("expected peer ID string")
		}
		rank, ok := peerByText[n.str]
		if !ok {
			return "", fmt.Errorf("peer text %q not in pool", n.str)
		}
		return fmt.Sprintf("(JPeer %d %s)", rank, vlib.CoqBool(peers[rank].ok)), nil
	case "addr":
		if n.kind != 's' {
			return "", fmt.Errorf("expected multiaddr string")
		}
		rank, ok := addrByText[n.str]
		if !ok {
			return "", fmt.Errorf("addr text %q not in pool", n.str)
		}
		return "(JAddr " + coqAddr(rank) + ")", nil
	case "str":
		if n.kind != 's' {
			return "", fmt.Errorf("expected string")
		}
		return "(JStr " + vlib.CoqBytes([]byte(n.str)) + ")", nil
	case "int":
		if n.kind != 'd' {
			return "", fmt.Errorf("expected number")
		}
		var z int64
		if _, err := fmt.Sscan(n.str, &z); err != nil || fmt.Sprint(z) != n.str {
			return "", fmt.Errorf("not a plain integer: %s", n.str)
		}
		return "(JInt " + vlib.CoqZ(z) + ")", nil
	}
	sch, ok := schema[ctx]
	if !ok {
		return "", fmt.Errorf("no schema %q", ctx)
	}
	if n.kind != 'o' {
		return "", fmt.Errorf("expected object for %s", ctx)
	}
	var it []string
	for i, k := range n.keys {
		sub, ok := sch[k]
		if !ok {
			return "", fmt.Errorf("unexpected field %q in %s", k, ctx)
		}
		s, err := toJV(n.vals[i], sub)
		if err != nil {
			return "", err
		}
		it = append(it, "("+fieldNames[k]+", "+s+")")
	}
	return "(JObj " + vlib.CoqList(it) + ")", nil
}

// wireTree parses one JSON value of the given schema into a Coq jv term.
func wireTree(b []byte, ctx string) (string, error) {
	n, err := parseOne(b)
	if err != nil {
		return "", err
	}
	return toJV(n, ctx)
}
