package main

import (
	"bytes"
	"context"
	"errors"
	"fmt"
	"io"
	"runtime"
	"strings"
	"sync"

	"github.com/ipni/go-libipni/find/client"
	"github.com/ipni/go-libipni/find/model"
	"github.com/mr-tron/base58"
	"github.com/multiformats/go-multihash"

	"verif/harness/vlib"
)

// Client HISTORIES: sequences of Find / FindBatch calls of one process against the
// rwriter-backed server, where some requests are answered with a body cut in mid-transfer
// (200 head with the full Content-Length, k bytes, connection closed), a 5xx, or not-found,
// interleaved with healthy answers.  The property's first sentence must hold for every
// healthy call whatever preceded it: the client keeps no state between calls.

type HStep struct {
	Op    string `json:"op"`              // find | batch
	Items []int  `json:"items"`           // indices into Hist.Items (find: one)
	Fault string `json:"fault,omitempty"` // "" | cut | status
	At    int    `json:"at,omitempty"`    // batch: which of Items gets the fault
	K     int    `json:"k,omitempty"`     // cut: bytes delivered (-2 all but one, -3 half, -4 inside a JSON string); status: the code
	NewCl bool   `json:"new_client,omitempty"`
}

type HistJ struct {
	Kind   string      `json:"kind"`
	Prefer bool        `json:"prefer_json"`
	Procs1 bool        `json:"gomaxprocs1"` // run under GOMAXPROCS(1): deterministic reuse of anything pooled per P
	Items  []BatchItem `json:"items"`
	Steps  []HStep     `json:"steps"`
}

func histErrClass(err error) int {
	if errors.Is(err, io.ErrUnexpectedEOF) || strings.Contains(err.Error(), "unexpected EOF") {
		return 31
	}
	return clientErrClass(err)
}

func coqHistResp(resp *model.FindResponse, err error) string {
	if err != nil {
		return fmt.Sprintf("(Err %d)", histErrClass(err))
	}
	return coqFindResp(resp, nil)
}

// expectCall: what the property says a call returns, computed in Go from what the server
// holds: ok=false means the call must fail.
func expectCall(h HistJ, st HStep) (want []BatchItem, ok bool) {
	for i, ix := range st.Items {
		it := h.Items[ix]
		if st.Fault != "" && i == st.At {
			switch {
			case st.Fault == "status":
				return nil, false
			case len(it.Results) > 0: // a cut 200 body
				return nil, false
			}
			// a cut 404 answer is still "not found": the client does not need its body
		}
		if len(it.Results) > 0 {
			want = append(want, it)
		}
	}
	return want, true
}

func sameFindResp(want []BatchItem, resp *model.FindResponse) bool {
	if resp == nil || len(resp.MultihashResults) != len(want) {
		return false
	}
	for i, it := range want {
		if !bytes.Equal(resp.MultihashResults[i].Multihash, unhx(it.Mh)) ||
			!sameResults(buildAll(it.Results), resp.MultihashResults[i].ProviderResults) {
			return false
		}
	}
	return true
}

func stepSig(st HStep) string {
	s := st.Op
	if st.Fault != "" {
		s += fmt.Sprintf("!%s%d", st.Fault, st.K)
	}
	return s
}

func doHist(c *vlib.Ctx, s *server, h HistJ, verbose bool) {
	h.Kind = "hist"
	if h.Procs1 {
		defer runtime.GOMAXPROCS(runtime.GOMAXPROCS(1))
	}
	byMh := map[string][]ResJ{}
	for _, it := range h.Items {
		byMh[string(unhx(it.Mh))] = it.Results
	}
	cl, err := client.New(s.ts.URL, client.WithClient(s.ts.Client()))
	if err != nil {
		panic(err)
	}
	var cases []string
	hist := ""
	for si, st := range h.Steps {
		cfg := srvConfig{prefer: h.Prefer, byMh: byMh, failBy: map[string]int{}, cutBy: map[string]int{}}
		var mhs []multihash.Multihash
		for i, ix := range st.Items {
			mh := multihash.Multihash(unhx(h.Items[ix].Mh))
			mhs = append(mhs, mh)
			if st.Fault != "" && i == st.At {
				key := base58.Encode(mh)
				if st.Fault == "status" {
					cfg.failBy[key] = st.K
				} else {
					cfg.cutBy[key] = st.K
				}
			}
		}
		s.configure(cfg)
		if st.NewCl {
			if cl, err = client.New(s.ts.URL, client.WithClient(s.ts.Client())); err != nil {
				panic(err)
			}
		}
		var resp *model.FindResponse
		var ferr error
		var pan string
		func() {
			defer func() {
				if r := recover(); r != nil {
					pan = fmt.Sprint(r)
				}
			}()
			if st.Op == "find" {
				resp, ferr = cl.Find(context.Background(), mhs[0])
			} else {
				resp, ferr = client.FindBatch(context.Background(), cl, mhs)
			}
		}()
		seen := s.takeSeen()
		c.Eval()
		hist += stepSig(st) + ","
		if verbose {
			fmt.Printf("step %d %+v: resp=%v err=%v panic=%q; server saw %d requests", si, st, resp, ferr, pan, len(seen))
			for _, sn := range seen {
				fmt.Printf(" [%s]", sn.fault)
			}
			fmt.Println()
		}
		// direct oracle: history independence
		want, ok := expectCall(h, st)
		wf := true
		for _, ix := range st.Items {
			wf = wf && allWf(h.Items[ix].Results)
		}
		switch {
		case pan != "":
			failOnce(c, "panic", "panic:client:"+pan, "the find client panicked: "+pan, h)
		case !wf:
		case ok && ferr != nil:
			failOnce(c, "hist-healthy-failed", fmt.Sprintf("history:healthy-%s-failed:step=%d:after=%s:preferJson=%v:gomaxprocs1=%v", st.Op, si, hist, h.Prefer, h.Procs1),
				fmt.Sprintf("step %d (%s of %d multihashes, every answer healthy) failed after the history %s: %v -- the client did not obtain what the server wrote", si, st.Op, len(mhs), hist, ferr), h)
			if verbose {
				fmt.Println("ORACLE FAILURE: a healthy call failed")
			}
		case ok && !sameFindResp(want, resp):
			failOnce(c, "hist-healthy-differs", fmt.Sprintf("history:healthy-%s-differs:step=%d:after=%s:preferJson=%v", st.Op, si, hist, h.Prefer),
				fmt.Sprintf("step %d returned other results than the server wrote, after the history %s", si, hist), h)
		case !ok && ferr == nil:
			failOnce(c, "hist-fault-accepted", fmt.Sprintf("history:faulty-answer-accepted:step=%d:%s", si, stepSig(st)),
				fmt.Sprintf("step %d met a %s answer but returned no error", si, st.Fault), h)
		}
		c.Count("hist:step:" + st.Op + ":" + map[bool]string{true: "healthy", false: st.Fault}[st.Fault == ""])
		if st.Fault == "" && si > 0 && h.Steps[si-1].Fault != "" {
			c.Nontrivial(fmt.Sprintf("hist|%v|%d|%v", h.Prefer, si, h.Steps[:si+1]))
		}
		// the Coq case: the requests the server saw for this call, with their fault
		var served []string
		for i, sn := range seen {
			if i >= len(st.Items) {
				break
			}
			f := "HNoFault"
			if st.Fault != "" && i == st.At {
				f = map[string]string{"cut": "HCutBody", "status": "HStatus5xx"}[st.Fault]
			}
			req, _ := coqRequest(h.Prefer, "", "", sn.accepts, sn.path)
			served = append(served, fmt.Sprintf("(%s, %s, %s)", req, coqResList(h.Items[st.Items[i]].Results), f))
		}
		cases = append(cases, fmt.Sprintf("(%s, %s)", vlib.CoqList(served), coqHistResp(resp, ferr)))
	}
	c.Case("hist", "("+vlib.CoqList(cases)+" : hist_case)", h)
}

// concurrent variant: several goroutines issue Finds, some multihashes are always answered
// with a cut body; every Find of a healthy multihash must return what the server wrote.
func doHistConcurrent(c *vlib.Ctx, s *server, prefer bool, items []BatchItem, cutIdx map[int]int, workers, rounds int) {
	byMh := map[string][]ResJ{}
	cfg := srvConfig{prefer: prefer, byMh: byMh, cutBy: map[string]int{}}
	for i, it := range items {
		byMh[string(unhx(it.Mh))] = it.Results
		if k, ok := cutIdx[i]; ok {
			cfg.cutBy[base58.Encode(unhx(it.Mh))] = k
		}
	}
	s.configure(cfg)
	var mu sync.Mutex
	bad := ""
	var wg sync.WaitGroup
	for wk := 0; wk < workers; wk++ {
		wg.Add(1)
		go func(wk int) {
			defer wg.Done()
			cl, err := client.New(s.ts.URL, client.WithClient(s.ts.Client()))
			if err != nil {
				panic(err)
			}
			for r := 0; r < rounds; r++ {
				ix := (wk*7 + r*3) % len(items)
				it := items[ix]
				resp, ferr := cl.Find(context.Background(), unhx(it.Mh))
				_, isCut := cutIdx[ix]
				var want []BatchItem
				if len(it.Results) > 0 {
					want = []BatchItem{it}
				}
				msg := ""
				switch {
				case isCut && len(it.Results) > 0 && ferr == nil:
					msg = "a cut answer was accepted"
				case isCut:
				case ferr != nil:
					msg = "a healthy Find failed: " + ferr.Error()
				case !sameFindResp(want, resp):
					msg = "a healthy Find returned other results than the server wrote"
				}
				if msg != "" {
					mu.Lock()
					if bad == "" {
						bad = msg
					}
					mu.Unlock()
				}
			}
		}(wk)
	}
	wg.Wait()
	s.takeSeen()
	c.CountN("hist:concurrent-finds", workers*rounds)
	for i := 0; i < workers*rounds; i++ {
		c.Eval()
	}
	if bad != "" {
		failOnce(c, "hist-concurrent", fmt.Sprintf("history:concurrent:healthy-find-wrong:workers=%d:preferJson=%v", workers, prefer),
			"with concurrent Finds, some of them answered with a cut body: "+bad,
			map[string]interface{}{"kind": "hist-concurrent", "prefer_json": prefer, "items": items, "cut": cutIdx, "workers": workers, "rounds": rounds})
	}
}

func runHist(c *vlib.Ctx, s *server) {
	r := c.Rng.Fork("hist")
	mkItems := func(n int) []BatchItem {
		var items []BatchItem
		for i := 0; i < n; i++ {
			var rs []ResJ
			k := 1 + r.Intn(3)
			if i == 1 {
				k = 0 // not found
			}
			for q := 0; q < k; q++ {
				rs = append(rs, genResult(r, false))
			}
			if i == 0 {
				// a long context ID so that "inside a JSON string" exists
				long := hx(r.Bytes(48))
				rs[0].Ctx = &long
			}
			items = append(items, BatchItem{Mh: hx(mhOf(multihash.SHA2_256, r.Bytes(32))), Results: rs})
		}
		return items
	}
	find := func(ix int) HStep { return HStep{Op: "find", Items: []int{ix}} }
	cut := func(ix, k int) HStep { return HStep{Op: "find", Items: []int{ix}, Fault: "cut", K: k} }
	status := func(ix, code int) HStep { return HStep{Op: "find", Items: []int{ix}, Fault: "status", K: code} }
	for _, prefer := range []bool{true, false} {
		for _, procs1 := range []bool{true, false} {
			items := mkItems(5)
			run := func(steps ...HStep) {
				doHist(c, s, HistJ{Prefer: prefer, Procs1: procs1, Items: items, Steps: steps}, false)
			}
			// a cut body at several positions, then healthy calls (same and other multihash,
			// same and new client)
			for _, k := range []int{0, 1, 7, -4, -3, -2} {
				run(find(0), cut(0, k), find(0), find(2))
				nc := find(3)
				nc.NewCl = true
				run(cut(2, k), nc, cut(0, k), cut(3, k), find(0), find(1))
			}
			// not-found and 5xx before / after, cut not-found answers
			run(find(1), status(0, 500), find(0), status(2, 503), find(1), find(2))
			run(cut(1, 3), find(1), find(0), cut(1, -2), find(2), status(1, 502), find(1))
			// FindBatch: a fault inside the batch, then healthy batches and finds
			run(HStep{Op: "batch", Items: []int{0, 1, 2}},
				HStep{Op: "batch", Items: []int{0, 2, 3}, Fault: "cut", At: 1, K: -3},
				HStep{Op: "batch", Items: []int{0, 2, 3}},
				HStep{Op: "batch", Items: []int{3, 4}, Fault: "status", At: 0, K: 500},
				find(4),
				HStep{Op: "batch", Items: []int{1, 4, 0}, Fault: "cut", At: 2, K: -4},
				HStep{Op: "batch", Items: []int{1, 4, 0}})
			// seeded histories
			for i := 0; i < c.Pick(6, 60); i++ {
				var steps []HStep
				for j := 0; j < 6+r.Intn(5); j++ {
					ix := r.Intn(len(items))
					switch r.Intn(5) {
					case 0:
						steps = append(steps, cut(ix, []int{0, 1, -2, -3, -4, 5 + r.Intn(40)}[r.Intn(6)]))
					case 1:
						steps = append(steps, status(ix, []int{500, 502, 503}[r.Intn(3)]))
					default:
						st := find(ix)
						st.NewCl = r.Intn(4) == 0
						steps = append(steps, st)
					}
				}
				run(steps...)
			}
		}
		// a short concurrent variant
		items := mkItems(6)
		doHistConcurrent(c, s, prefer, items, map[int]int{0: -3, 3: -2}, 4, c.Pick(30, 300))
	}
}
