package main

// Large answers.  The property does not bound the size of a result set: whatever list of
// results the server writes through rwriter, the client reads back the same results in the
// same order.  A response of several MiB (hundreds of results with 1 KiB metadata, thousands
// of small ones) is written through rwriter on the real server and read by the real client
// (Find, FindBatch) with the server preferring JSON or not, read raw as NDJSON, and a
// provider list of the same size is read by ListProviders.  Direct oracles only: the lists
// are generated from (n, metadata length) so that the replay stays small, and they are kept
// out of the Coq case files (the model's statement is size independent: e2e / batch cases).

import (
	"bytes"
	"context"
	"encoding/json"
	"fmt"
	"net/http"

	"github.com/ipni/go-libipni/find/client"
	"github.com/ipni/go-libipni/find/model"
	"github.com/libp2p/go-libp2p/core/peer"
	"github.com/multiformats/go-multiaddr"
	"github.com/multiformats/go-multihash"

	"verif/harness/vlib"
)

type LargeJ struct {
	Kind   string `json:"kind"` // large
	Mode   string `json:"mode"` // find | batch | ndjson | providers
	Prefer bool   `json:"prefer_json"`
	N      int    `json:"n"`      // number of results (provider infos)
	MdLen  int    `json:"md_len"` // metadata bytes per result
}

func largeResults(n, mdLen int, tag uint64) []ResJ {
	r := vlib.NewRand(77000 + tag)
	out := make([]ResJ, n)
	for i := range out {
		ctx := hx([]byte(fmt.Sprintf("ctx-%d", i)))
		md := hx(r.Bytes(mdLen))
		out[i] = ResJ{Ctx: &ctx, Md: &md, Prov: 1 + i%(len(peers)-2), Addrs: []int{1 + i%(len(addrs)-1)}}
		if !out[i].wf() {
			out[i].Prov, out[i].Addrs = -1, nil
		}
	}
	return out
}

func doLarge(c *vlib.Ctx, s *server, l LargeJ, verbose bool) {
	l.Kind = "large"
	sig := fmt.Sprintf("mode=%s:preferJson=%v:n=%d:md=%d", l.Mode, l.Prefer, l.N, l.MdLen)
	report := func(cat, what string) {
		if verbose {
			fmt.Println("ORACLE FAILURE " + cat + ": " + what)
		}
		failOnce(c, cat, cat+":"+sig, what, l)
	}
	c.Eval()
	c.Count("large:" + l.Mode)
	c.Nontrivial("large|" + sig)
	ctx := context.Background()
	if l.Mode == "providers" {
		infos := make([]*model.ProviderInfo, l.N)
		r := vlib.NewRand(78000)
		for i := range infos {
			ai := peer.AddrInfo{ID: peers[1+i%(len(peers)-2)].id, Addrs: []multiaddr.Multiaddr{addrs[1+i%(len(addrs)-1)].a}}
			infos[i] = &model.ProviderInfo{AddrInfo: ai, LastAdvertisementTime: "2026-10-02T00:00:00Z", Lag: i,
				ExtendedProviders: &model.ExtendedProviders{Providers: []peer.AddrInfo{ai}, Metadatas: [][]byte{r.Bytes(l.MdLen)}}}
		}
		body, err := json.Marshal(infos)
		if err != nil {
			panic(err)
		}
		ts := quietServer(http.HandlerFunc(func(w http.ResponseWriter, req *http.Request) {
			w.Header().Set("Content-Type", "application/json")
			_, _ = w.Write(body)
		}))
		defer ts.Close()
		cl, err := client.New(ts.URL)
		if err != nil {
			panic(err)
		}
		got, err := cl.ListProviders(ctx)
		if verbose {
			fmt.Printf("ListProviders over a %d-byte list of %d providers: %d read, err=%v\n", len(body), l.N, len(got), err)
		}
		if err != nil {
			report("large-providers-error", fmt.Sprintf("ListProviders failed on a well-formed %d-byte answer listing %d providers: %v", len(body), l.N, err))
			return
		}
		back, _ := json.Marshal(got)
		if len(got) != l.N || !bytes.Equal(back, body) {
			report("large-providers-differ", fmt.Sprintf("ListProviders read %d providers back from a list of %d (%d bytes), or other ones", len(got), l.N, len(body)))
		}
		return
	}
	rs := largeResults(l.N, l.MdLen, 0)
	small := largeResults(3, 8, 1)
	mh := mhOf(multihash.SHA2_256, bytes.Repeat([]byte{0x4c}, 32))
	mh2 := mhOf(multihash.SHA2_256, bytes.Repeat([]byte{0x4d}, 32))
	s.configure(srvConfig{prefer: l.Prefer, byMh: map[string][]ResJ{string(mh): rs, string(mh2): small}})
	defer s.takeSeen()
	want := buildAll(rs)
	cl, err := client.New(s.ts.URL, client.WithClient(s.ts.Client()))
	if err != nil {
		panic(err)
	}
	checkResp := func(what string, resp *model.FindResponse, err error, wants ...[]model.ProviderResult) {
		if verbose {
			n := -1
			if resp != nil && len(resp.MultihashResults) > 0 {
				n = len(resp.MultihashResults[0].ProviderResults)
			}
			fmt.Printf("%s over %d results with %d metadata bytes each, preferJson=%v: %d results read, err=%v\n", what, l.N, l.MdLen, l.Prefer, n, err)
		}
		if err != nil {
			report("large-"+l.Mode+"-error", fmt.Sprintf("%s failed although the server wrote %d well-formed results through rwriter: %v", what, l.N, err))
			return
		}
		ok := resp != nil && len(resp.MultihashResults) == len(wants)
		for i := 0; ok && i < len(wants); i++ {
			ok = sameResults(wants[i], resp.MultihashResults[i].ProviderResults)
		}
		if !ok {
			report("large-"+l.Mode+"-differ", fmt.Sprintf("%s returned other results than the %d written (or in another order)", what, l.N))
		}
	}
	switch l.Mode {
	case "find":
		resp, err := cl.Find(ctx, mh)
		if err == nil && resp != nil && len(resp.MultihashResults) == 1 && !bytes.Equal(resp.MultihashResults[0].Multihash, mh) {
			report("large-find-differ", "Find returned results for another multihash")
		}
		checkResp("Find", resp, err, want)
	case "batch":
		resp, err := client.FindBatch(ctx, cl, []multihash.Multihash{mh2, mh, mh2})
		checkResp("FindBatch (small, large, small)", resp, err, buildAll(small), want, buildAll(small))
	case "ndjson":
		raw := s.rawGet("/multihash/"+multihash.Multihash(mh).B58String(), []string{"application/x-ndjson"})
		lines, lerr := readLines(raw)
		if verbose {
			fmt.Printf("raw NDJSON request: status %d, %d bytes, %d lines, err=%v %v\n", raw.status, len(raw.body), len(lines), raw.err, lerr)
		}
		if raw.err != nil || lerr != nil {
			report("large-ndjson-error", fmt.Sprintf("reading the NDJSON answer for %d results failed: %v %v", l.N, raw.err, lerr))
		} else if !sameResults(want, lines) {
			report("large-ndjson-differ", fmt.Sprintf("the NDJSON answer does not carry the %d results written, in order", l.N))
		}
	default:
		panic("large mode " + l.Mode)
	}
}

func runLarge(c *vlib.Ctx, s *server) {
	for _, sz := range [][2]int{{700, 1024}, {1500, 1024}, {5000, 16}} {
		for _, prefer := range []bool{true, false} {
			doLarge(c, s, LargeJ{Mode: "find", Prefer: prefer, N: sz[0], MdLen: sz[1]}, false)
		}
		doLarge(c, s, LargeJ{Mode: "batch", Prefer: sz[0]%2 == 0, N: sz[0], MdLen: sz[1]}, false)
		doLarge(c, s, LargeJ{Mode: "ndjson", Prefer: sz[0]%2 == 1, N: sz[0], MdLen: sz[1]}, false)
	}
	doLarge(c, s, LargeJ{Mode: "providers", N: 1200, MdLen: 1024}, false)
	doLarge(c, s, LargeJ{Mode: "providers", N: 6000, MdLen: 8}, false)
}
