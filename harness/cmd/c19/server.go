package main

import (
	"bytes"
	"context"
	"encoding/hex"
	"encoding/json"
	"errors"
	"fmt"
	"io"
	"mime"
	"net/http"
	"net/http/httptest"
	"path"
	"strings"
	"sync"

	"github.com/ipfs/go-cid"
	"github.com/ipni/go-libipni/apierror"
	"github.com/ipni/go-libipni/find/client"
	"github.com/ipni/go-libipni/find/model"
	"github.com/ipni/go-libipni/rwriter"
	"github.com/mr-tron/base58"
	"github.com/multiformats/go-multihash"

	"verif/harness/vlib"
)

// ---------------------------------------------------------------------------
// The server: an httptest server whose handler uses rwriter the way an indexer's find
// handler does (storetheindex server/find): New; on error answer with the API error's
// status; NewProviderResponseWriter; WriteProviderResult for every result; Close; on
// error answer with the API error's status.

type srvConfig struct {
	prefer  bool
	mhType  string // "" = default
	cidType string
	// results served per multihash (key string(mh)); dflt when the multihash is not listed
	byMh map[string][]ResJ
	dflt []ResJ
	// faults per request key (the last path element): a 5xx status before the handler runs,
	// or the handler's response cut in mid-body
	failBy map[string]int
	cutBy  map[string]int // bytes delivered; -2 = all but one, -3 = half, -4 = inside the first JSON string value
}

type srvSeen struct {
	path     string
	accepts  []string
	newErr   string // error text of rwriter.New, "" if none
	mh       []byte
	code     uint64
	nd       bool
	pathType string
	cidHash  []byte
	panicked string
	writeErr string
	fault    string
}

type server struct {
	ts   *httptest.Server
	mu   sync.Mutex
	cfg  srvConfig
	seen []srvSeen
}

func apiStatus(err error) int {
	var ae *apierror.Error
	if errors.As(err, &ae) {
		return ae.Status()
	}
	return http.StatusInternalServerError
}

func rwOptions(cfg srvConfig) []rwriter.Option {
	opts := []rwriter.Option{rwriter.WithPreferJson(cfg.prefer)}
	if cfg.mhType != "" {
		opts = append(opts, rwriter.WithMultihashPathType(cfg.mhType))
	}
	if cfg.cidType != "" {
		opts = append(opts, rwriter.WithCidPathType(cfg.cidType))
	}
	return opts
}

// handle: the fault layer in front of the rwriter handler
func (s *server) handle(w http.ResponseWriter, r *http.Request) {
	s.mu.Lock()
	cfg := s.cfg
	s.mu.Unlock()
	key := path.Base(r.URL.Path)
	if st, ok := cfg.failBy[key]; ok {
		s.mu.Lock()
		s.seen = append(s.seen, srvSeen{path: r.URL.Path, accepts: append([]string(nil), r.Header.Values("Accept")...), fault: fmt.Sprintf("status %d", st)})
		s.mu.Unlock()
		http.Error(w, "injected failure", st)
		return
	}
	k, cut := cfg.cutBy[key]
	if !cut {
		s.serve(w, r)
		return
	}
	rec := httptest.NewRecorder()
	s.serve(rec, r)
	body := rec.Body.Bytes()
	switch k {
	case -2:
		k = len(body) - 1
	case -3:
		k = len(body) / 2
	case -4:
		k = len(body) / 3
		if i := bytes.Index(body, []byte(`":"`)); i >= 0 && i+5 < len(body) {
			k = i + 5
		}
	}
	if k < 0 {
		k = 0
	}
	if k >= len(body) {
		k = len(body) - 1
	}
	s.mu.Lock()
	if n := len(s.seen); n > 0 {
		s.seen[n-1].fault = fmt.Sprintf("cut %d/%d", k, len(body))
	}
	s.mu.Unlock()
	hj, ok := w.(http.Hijacker)
	if !ok {
		panic("cannot hijack")
	}
	conn, buf, err := hj.Hijack()
	if err != nil {
		panic(err)
	}
	ct := rec.Header().Get("Content-Type")
	fmt.Fprintf(buf, "HTTP/1.1 %d %s\r\nContent-Type: %s\r\nContent-Length: %d\r\n\r\n", rec.Code, http.StatusText(rec.Code), ct, len(body))
	_, _ = buf.Write(body[:k])
	_ = buf.Flush()
	_ = conn.Close()
}

func (s *server) serve(w http.ResponseWriter, r *http.Request) {
	s.mu.Lock()
	cfg := s.cfg
	s.mu.Unlock()
	seen := srvSeen{path: r.URL.Path, accepts: append([]string(nil), r.Header.Values("Accept")...)}
	defer func() {
		if p := recover(); p != nil {
			seen.panicked = fmt.Sprint(p)
			func() {
				defer func() { recover() }()
				http.Error(w, "panic", http.StatusInternalServerError)
			}()
		}
		s.mu.Lock()
		s.seen = append(s.seen, seen)
		s.mu.Unlock()
	}()
	rw, err := rwriter.New(w, r, rwOptions(cfg)...)
	if err != nil {
		seen.newErr = err.Error()
		http.Error(w, err.Error(), apiStatus(err))
		return
	}
	seen.mh = append([]byte(nil), rw.Multihash()...)
	seen.code = rw.MultihashCode()
	seen.nd = rw.IsND()
	seen.pathType = rw.PathType()
	seen.cidHash = append([]byte(nil), rw.Cid().Hash()...)
	results, ok := cfg.byMh[string(rw.Multihash())]
	if !ok {
		results = cfg.dflt
	}
	pw := rwriter.NewProviderResponseWriter(rw)
	for _, rj := range results {
		if err := pw.WriteProviderResult(rj.build()); err != nil {
			seen.writeErr = err.Error()
			http.Error(w, err.Error(), http.StatusInternalServerError)
			return
		}
	}
	if err := pw.Close(); err != nil {
		http.Error(w, err.Error(), apiStatus(err))
	}
}

func newServer() *server {
	s := &server{}
	s.ts = httptest.NewServer(http.HandlerFunc(s.handle))
	return s
}

func (s *server) configure(cfg srvConfig) {
	s.mu.Lock()
	s.cfg = cfg
	s.seen = nil
	s.mu.Unlock()
}

func (s *server) takeSeen() []srvSeen {
	s.mu.Lock()
	defer s.mu.Unlock()
	out := s.seen
	s.seen = nil
	return out
}

// ---------------------------------------------------------------------------
// Clients

type rawResp struct {
	status int
	ctype  string
	body   []byte
	err    error
}

// escapePath percent-encodes every byte of a path except unreserved characters and '/'.
func escapePath(p string) string {
	var b strings.Builder
	for i := 0; i < len(p); i++ {
		ch := p[i]
		if ch == '/' || ch == '-' || ch == '.' || ch == '_' || ch == '~' ||
			(ch >= '0' && ch <= '9') || (ch >= 'a' && ch <= 'z') || (ch >= 'A' && ch <= 'Z') {
			b.WriteByte(ch)
		} else {
			fmt.Fprintf(&b, "%%%02X", ch)
		}
	}
	return b.String()
}

func (s *server) rawGet(p string, accepts []string) rawResp {
	req, err := http.NewRequest(http.MethodGet, s.ts.URL, nil)
	if err != nil {
		return rawResp{err: err}
	}
	req.URL.Path = p
	req.URL.RawPath = escapePath(p)
	for _, a := range accepts {
		req.Header.Add("Accept", a)
	}
	res, err := s.ts.Client().Do(req)
	if err != nil {
		return rawResp{err: err}
	}
	defer res.Body.Close()
	body, err := io.ReadAll(res.Body)
	return rawResp{status: res.StatusCode, ctype: res.Header.Get("Content-Type"), body: body, err: err}
}

// rewriteTransport lets the REAL client.Find run against an arbitrary request: the
// request Find built is sent with the scenario's path and Accept headers instead (when
// rewrite is set), and the response Find is given is recorded.
type rewriteTransport struct {
	base       http.RoundTripper
	rewrite    bool
	path       string
	accepts    []string
	last       rawResp
	sentAccept []string
	sentCT     string
}

func (t *rewriteTransport) RoundTrip(req *http.Request) (*http.Response, error) {
	if t.rewrite {
		req = req.Clone(req.Context())
		req.URL.Path = t.path
		req.URL.RawPath = escapePath(t.path)
		req.Header.Del("Accept")
		for _, a := range t.accepts {
			req.Header.Add("Accept", a)
		}
	}
	t.sentAccept = append([]string(nil), req.Header.Values("Accept")...)
	t.sentCT = req.Header.Get("Content-Type")
	res, err := t.base.RoundTrip(req)
	if err != nil {
		t.last = rawResp{err: err}
		return nil, err
	}
	body, rerr := io.ReadAll(res.Body)
	res.Body.Close()
	t.last = rawResp{status: res.StatusCode, ctype: res.Header.Get("Content-Type"), body: body, err: rerr}
	res.Body = io.NopCloser(bytes.NewReader(body))
	return res, nil
}

// ---------------------------------------------------------------------------
// Classification helpers (the data the Coq model takes as given)

func classifyMT(elem string) string {
	mt, _, err := mime.ParseMediaType(elem)
	if err != nil {
		return "MTErr"
	}
	switch mt {
	case "application/x-ndjson":
		return "MTNd"
	case "application/json":
		return "MTJson"
	case "*/*":
		return "MTAny"
	}
	return "MTOther"
}

func classifyAccepts(accepts []string) [][]string {
	out := make([][]string, len(accepts))
	for i, a := range accepts {
		for _, e := range strings.Split(a, ",") {
			out[i] = append(out[i], classifyMT(e))
		}
	}
	return out
}

func coqAccepts(cl [][]string) string {
	it := make([]string, len(cl))
	for i, v := range cl {
		it[i] = vlib.CoqList(v)
	}
	return vlib.CoqList(it)
}

func asciiTrim(s string) string {
	return strings.Trim(s, "\t\n\v\f\r ")
}

// keyVerdicts: what the three decoders say about the key text
func keyVerdicts(text string) (b58, hx, cd []byte) {
	if b, err := base58.Decode(text); err == nil {
		b58 = nonNil(b)
	}
	if b, err := hex.DecodeString(text); err == nil {
		hx = nonNil(b)
	}
	if c, err := cid.Decode(text); err == nil {
		cd = nonNil([]byte(c.Hash()))
	}
	return
}

func nonNil(b []byte) []byte {
	if b == nil {
		return []byte{}
	}
	return b
}

func coqOptBytes(b []byte) string {
	if b == nil {
		return "None"
	}
	return "(Some " + vlib.CoqBytes(b) + ")"
}

func coqType(t string, dflt string) string {
	if t == "" {
		return dflt
	}
	return vlib.CoqBytes([]byte(t))
}

// coqRequest prints the Coq request for what arrived at the server.
func coqRequest(prefer bool, mhType, cidType string, accepts []string, p string) (string, string) {
	kt := strings.TrimSpace(path.Base(p))
	b58, hx, cd := keyVerdicts(kt)
	return fmt.Sprintf("(REQ %s %s %s %s %s (KV %s %s %s))", vlib.CoqBool(prefer),
		coqType(mhType, "mh_type"), coqType(cidType, "cid_type"),
		coqAccepts(classifyAccepts(accepts)), vlib.CoqBytes([]byte(p)),
		coqOptBytes(b58), coqOptBytes(hx), coqOptBytes(cd)), kt
}

// pathModelable: the model implements only the ASCII part of strings.TrimSpace
func pathModelable(p string) bool {
	b := path.Base(p)
	return strings.TrimSpace(b) == asciiTrim(b)
}

// error classes of the model
func errClass(text string, typeIsCid bool) int {
	t := strings.TrimSpace(text)
	switch {
	case t == "invalid Accept header":
		return 1
	case t == "accept header must be specified":
		return 2
	case strings.HasPrefix(t, "media type not supported:"):
		return 3
	case t == "missing resource type":
		return 4
	case t == multihash.ErrInvalidMultihash.Error():
		return 5
	case t == "unsupported resource type":
		return 7
	case t == "404 Not Found":
		return 9
	}
	if typeIsCid {
		return 6
	}
	return 8
}

func typeIsCid(p, mhType, cidType string) bool {
	if mhType == "" {
		mhType = "multihash"
	}
	if cidType == "" {
		cidType = "cid"
	}
	t := path.Base(path.Dir(p))
	return t != mhType && t == cidType
}

func ctypeOf(h string) string {
	switch {
	case h == "application/json":
		return "CtJson"
	case h == "application/x-ndjson":
		return "CtNd"
	case strings.HasPrefix(h, "text/plain"):
		return "CtText"
	}
	return "CtOther"
}

// splitLines: the body of an NDJSON response as lines; ok=false unless every line is
// terminated by '\n'.
func splitLines(body []byte) (lines [][]byte, ok bool) {
	if len(body) == 0 {
		return nil, true
	}
	parts := bytes.Split(body, []byte("\n"))
	if len(parts[len(parts)-1]) != 0 {
		return parts, false
	}
	return parts[:len(parts)-1], true
}

// coqOutcome prints the observed response as the model's [outcome].
func coqOutcome(r rawResp, seen srvSeen, isCid bool) (string, error) {
	if seen.panicked != "" {
		return "Panicked", nil
	}
	ct := ctypeOf(r.ctype)
	var body string
	switch {
	case r.status != 200:
		body = fmt.Sprintf("(BErr %d)", errClass(string(r.body), isCid))
	case ct == "CtNd":
		lines, ok := splitLines(r.body)
		if !ok {
			return "", fmt.Errorf("NDJSON body does not end with a newline")
		}
		var it []string
		for _, l := range lines {
			t, err := wireTree(l, "result")
			if err != nil {
				return "", fmt.Errorf("line %q: %v", l, err)
			}
			it = append(it, t)
		}
		body = "(BLines " + vlib.CoqList(it) + ")"
	case ct == "CtJson":
		t, err := wireTree(r.body, "findresp")
		if err != nil {
			return "", err
		}
		body = "(BDoc " + t + ")"
	default:
		return "", fmt.Errorf("unexpected content type %q with status 200", r.ctype)
	}
	return fmt.Sprintf("(Responded (RESP %d %s %s))", r.status, ct, body), nil
}

func clientErrClass(err error) int {
	t := err.Error()
	switch {
	case strings.HasPrefix(t, "find query failed"):
		return 30
	case strings.Contains(t, "failed to parse multiaddr"), strings.Contains(t, "failed to parse peer ID"):
		return 21
	}
	return 20
}

func coqFindResp(resp *model.FindResponse, err error) string {
	if err != nil {
		return fmt.Sprintf("(Err %d)", clientErrClass(err))
	}
	var it []string
	for _, mr := range resp.MultihashResults {
		var rs []string
		for _, pr := range mr.ProviderResults {
			rs = append(rs, coqDecoded(pr))
		}
		it = append(it, fmt.Sprintf("(%s, %s)", vlib.CoqBytes(mr.Multihash), vlib.CoqList(rs)))
	}
	return "(Ok " + vlib.CoqList(it) + ")"
}

// readLines is the raw streaming reader: requires the NDJSON content type and status 200,
// decodes every line on its own with encoding/json.
func readLines(r rawResp) ([]model.ProviderResult, error) {
	if r.status != 200 {
		return nil, fmt.Errorf("find query failed: %d", r.status)
	}
	if r.ctype != "application/x-ndjson" {
		return nil, fmt.Errorf("not an NDJSON response")
	}
	lines, ok := splitLines(r.body)
	if !ok {
		return nil, fmt.Errorf("last line not terminated")
	}
	var out []model.ProviderResult
	for _, l := range lines {
		var pr model.ProviderResult
		if err := json.Unmarshal(l, &pr); err != nil {
			return nil, err
		}
		out = append(out, pr)
	}
	return out, nil
}

func coqLinesRead(rs []model.ProviderResult, err error) string {
	if err != nil {
		return fmt.Sprintf("(Err %d)", clientErrClass(err))
	}
	var it []string
	for _, pr := range rs {
		it = append(it, coqDecoded(pr))
	}
	return "(Ok " + vlib.CoqList(it) + ")"
}

// realFind runs client.Find (the real one) through the transport.
func (s *server) realFind(tr *rewriteTransport, mh multihash.Multihash) (*model.FindResponse, error) {
	tr.base = s.ts.Client().Transport
	cl, err := client.New(s.ts.URL, client.WithClient(&http.Client{Transport: tr}))
	if err != nil {
		return nil, err
	}
	return cl.Find(context.Background(), mh)
}
