package main

import (
	"bytes"
	"context"
	"encoding/json"
	"errors"
	"fmt"
	"io"
	"log"
	"net/http"
	"net/http/httptest"
	"net/url"
	"strconv"
	"strings"

	"github.com/ipfs/go-cid"
	"github.com/ipni/go-libipni/apierror"
	"github.com/ipni/go-libipni/find/client"
	"github.com/ipni/go-libipni/find/model"
	"github.com/ipni/go-libipni/rwriter"
	"github.com/libp2p/go-libp2p/core/peer"
	"github.com/multiformats/go-multiaddr"
	"github.com/multiformats/go-multihash"

	"verif/harness/vlib"
)

// The remaining surface of the files C19 is anchored in: the ResponseWriter used as an
// http.ResponseWriter (Header / Write / WriteHeader / StatusCode / Encoder), MatchQueryParam,
// apierror.Error.Text, model.MarshalFindResponse, and the find client's other endpoints
// (ListProviders / GetProvider / GetStats) whose error path is the API error wire format.

func quietServer(h http.Handler) *httptest.Server {
	ts := httptest.NewUnstartedServer(h)
	ts.Config.ErrorLog = log.New(io.Discard, "", 0) // "superfluous WriteHeader" notes
	ts.Start()
	return ts
}

// ---------------------------------------------------------------------------
// wrap: WriteHeader sequences through the ResponseWriter

func runWrap(c *vlib.Ctx) {
	var calls []int
	var statusSeen int
	ts := quietServer(http.HandlerFunc(func(w http.ResponseWriter, r *http.Request) {
		rw, err := rwriter.New(w, r, rwriter.WithPreferJson(true))
		if err != nil {
			http.Error(w, err.Error(), 500)
			return
		}
		rw.Header().Set("X-C19", "via-wrapper")
		for _, code := range calls {
			rw.WriteHeader(code)
		}
		statusSeen = rw.StatusCode()
		if r.URL.Query().Get("enc") == "1" {
			_ = rw.Encoder().Encode(map[string]int{"n": len(calls)})
		} else {
			_, _ = rw.Write([]byte("body through the wrapper"))
		}
		rw.Flush()
	}))
	defer ts.Close()
	codes := []int{200, 202, 404, 500}
	var seqs [][]int
	var rec func(prefix []int)
	rec = func(prefix []int) {
		seqs = append(seqs, append([]int(nil), prefix...))
		if len(prefix) == 3 {
			return
		}
		for _, cd := range codes {
			rec(append(prefix, cd))
		}
	}
	rec(nil)
	for i, sq := range seqs {
		calls = sq
		enc := i%2 == 1
		u := ts.URL + goodPath
		if enc {
			u += "?enc=1"
		}
		res, err := http.Get(u)
		if err != nil {
			panic(err)
		}
		body, _ := io.ReadAll(res.Body)
		res.Body.Close()
		c.Eval()
		replay := map[string]interface{}{"kind": "wrap", "calls": sq}
		distinct := map[int]bool{}
		for _, cd := range sq {
			if cd != 200 {
				distinct[cd] = true
			}
		}
		if len(distinct) <= 1 && statusSeen != res.StatusCode {
			failOnce(c, "wrap-status", fmt.Sprintf("wrap:status-code-differs-from-wire:%v", sq),
				fmt.Sprintf("WriteHeader%v: StatusCode() = %d but the client saw %d", sq, statusSeen, res.StatusCode), replay)
		}
		if res.Header.Get("X-C19") != "via-wrapper" {
			failOnce(c, "wrap-header", fmt.Sprintf("wrap:header-lost:%v", sq), "a header set through ResponseWriter.Header() did not arrive", replay)
		}
		want := "body through the wrapper"
		if enc {
			want = fmt.Sprintf("{\"n\":%d}\n", len(sq))
		}
		if string(body) != want {
			failOnce(c, "wrap-body", fmt.Sprintf("wrap:body-differs:%v", sq), fmt.Sprintf("body %q, written %q", body, want), replay)
		}
		c.Count("wrap:cases")
		if len(sq) >= 2 {
			c.Nontrivial(fmt.Sprintf("wrap|%v", sq))
		}
		var it []string
		for _, cd := range sq {
			it = append(it, fmt.Sprint(cd))
		}
		c.Case("wrap", fmt.Sprintf("((%s, %d, %d) : wrap_case)", vlib.CoqList(it), statusSeen, res.StatusCode), replay)
	}
}

// ---------------------------------------------------------------------------
// mqp: MatchQueryParam

func runMQP(c *vlib.Ctx) {
	queries := []string{"", "cascade=ipfs-dht", "cascade=a&cascade=ipfs-dht", "cascade=ipfs-dht&cascade=a", "cascade", "cascade=",
		"other=x", "Cascade=ipfs-dht", "cascade=ipfs-dht%20", "cascade=ipfs%2Ddht", "cascade=a&other=ipfs-dht", "cascade=a,ipfs-dht",
		"cascade=ipfs-dht;x=1", "%63ascade=ipfs-dht", "cascade=%zz", "cascade=+", "cascade=a&cascade=&cascade=a"}
	for _, q := range queries {
		for _, key := range []string{"cascade", "other", ""} {
			for _, value := range []string{"ipfs-dht", "a", "", " "} {
				u := &url.URL{Path: goodPath, RawQuery: q}
				req := &http.Request{Method: "GET", URL: u, Header: http.Header{}}
				var present, matched bool
				pan := ""
				func() {
					defer func() {
						if r := recover(); r != nil {
							pan = fmt.Sprint(r)
						}
					}()
					present, matched = rwriter.MatchQueryParam(req, key, value)
				}()
				c.Eval()
				replay := map[string]string{"kind": "mqp", "query": q, "key": key, "value": value}
				if pan != "" {
					failOnce(c, "panic", "panic:MatchQueryParam:"+pan, "MatchQueryParam panicked", replay)
					continue
				}
				labels, has := u.Query()[key]
				// direct oracle, from the documented meaning
				wantMatched := false
				for _, l := range labels {
					wantMatched = wantMatched || l == value
				}
				if present != has || matched != wantMatched {
					failOnce(c, "mqp", fmt.Sprintf("mqp:wrong-answer:query=%q:key=%q:value=%q", q, key, value),
						fmt.Sprintf("MatchQueryParam = (%v, %v), the query has the key: %v, one of its values is the value: %v", present, matched, has, wantMatched), replay)
				}
				lt := "None"
				if has {
					var it []string
					for _, l := range labels {
						it = append(it, vlib.CoqBytes([]byte(l)))
					}
					lt = "(Some " + vlib.CoqList(it) + ")"
				}
				c.Count("mqp:cases")
				if len(labels) >= 2 {
					c.Nontrivial("mqp|" + q + "|" + key + "|" + value)
				}
				c.Case("mqp", fmt.Sprintf("((%s, %s, (%s, %s)) : mqp_case)", lt, vlib.CoqBytes([]byte(value)), vlib.CoqBool(present), vlib.CoqBool(matched)), replay)
			}
		}
	}
}

// ---------------------------------------------------------------------------
// aetext: apierror.Error.Text

func runAeText(c *vlib.Ctx) {
	for _, st := range []int{0, 1, 200, 400, 404, 418, 500, 503, 999, 1000, -1} {
		for _, m := range []*string{nil, sp(""), sp("x"), sp("a: b"), sp("404 Not Found")} {
			var inner error
			if m != nil {
				inner = errors.New(*m)
			}
			e := apierror.New(inner, st)
			text := e.Text()
			c.Eval()
			replay := map[string]interface{}{"kind": "aetext", "status": st, "msg": m}
			if st != 0 && !strings.Contains(text, strconv.Itoa(st)) || m != nil && !strings.HasSuffix(text, *m) {
				failOnce(c, "aetext", fmt.Sprintf("aetext:lost:status=%d", st), fmt.Sprintf("Text() = %q does not carry the status and the message", text), replay)
			}
			msg := "None"
			if m != nil {
				msg = "(Some " + vlib.CoqBytes([]byte(*m)) + ")"
			}
			c.Count("aetext:cases")
			c.Case("aetext", fmt.Sprintf("((%s, %s, %s, %s, %s) : aetext_case)", vlib.CoqZ(int64(st)), vlib.CoqBytes([]byte(strconv.Itoa(st))),
				vlib.CoqBytes([]byte(http.StatusText(st))), msg, vlib.CoqBytes([]byte(text))), replay)
		}
	}
}

func sp(s string) *string { return &s }

// ---------------------------------------------------------------------------
// mfr: model.MarshalFindResponse of any FindResponse, read by the real client

type MfrJ struct {
	Kind  string      `json:"kind"`
	Items []BatchItem `json:"items"`
	Nil   []bool      `json:"nil"` // ProviderResults is a nil slice (when Results is empty)
}

func doMFR(c *vlib.Ctx, m MfrJ, verbose bool) {
	m.Kind = "mfr"
	resp := &model.FindResponse{}
	for i, it := range m.Items {
		mr := model.MultihashResult{Multihash: unhx(it.Mh)}
		if len(it.Results) > 0 || !m.Nil[i] {
			mr.ProviderResults = []model.ProviderResult{}
		}
		mr.ProviderResults = append(mr.ProviderResults, buildAll(it.Results)...)
		resp.MultihashResults = append(resp.MultihashResults, mr)
	}
	data, err := model.MarshalFindResponse(resp)
	if err != nil {
		failOnce(c, "mfr-marshal", "mfr:marshal-error", err.Error(), m)
		return
	}
	// served as it is and read by the real client
	ts := quietServer(http.HandlerFunc(func(w http.ResponseWriter, r *http.Request) {
		w.Header().Set("Content-Type", "application/json")
		_, _ = w.Write(data)
	}))
	defer ts.Close()
	cl, err := client.New(ts.URL)
	if err != nil {
		panic(err)
	}
	back, berr := cl.Find(context.Background(), mhOf(multihash.SHA2_256, make([]byte, 32)))
	c.Eval()
	if verbose {
		fmt.Printf("MarshalFindResponse = %s\nclient.Find: %v err=%v\n", data, back, berr)
	}
	wf := true
	for _, it := range m.Items {
		wf = wf && allWf(it.Results)
	}
	if wf {
		ok := berr == nil && back != nil && len(back.MultihashResults) == len(m.Items)
		for i := 0; ok && i < len(m.Items); i++ {
			ok = bytes.Equal(back.MultihashResults[i].Multihash, unhx(m.Items[i].Mh)) &&
				sameResults(buildAll(m.Items[i].Results), back.MultihashResults[i].ProviderResults)
			// the library's own notion of equal results must agree (it needs a provider)
			for j, pr := range back.MultihashResults[i].ProviderResults {
				w := m.Items[i].Results[j].build()
				if ok && pr.Provider != nil && w.Provider != nil && !pr.Equal(w) {
					ok = false
				}
			}
		}
		if !ok {
			failOnce(c, "mfr", fmt.Sprintf("mfr:read-back-differs:%d-multihashes", len(m.Items)), fmt.Sprintf("MarshalFindResponse / client.Find round trip changed the response: err=%v", berr), m)
		}
	}
	tree, err := wireTree(data, "findresp")
	if err != nil {
		failOnce(c, "wire", "wire:mfr:"+err.Error(), "MarshalFindResponse output is not what the schema allows", m)
		return
	}
	var it []string
	for i, item := range m.Items {
		rs := "(Some " + coqResList(item.Results) + ")"
		if len(item.Results) == 0 && m.Nil[i] {
			rs = "None"
		}
		it = append(it, fmt.Sprintf("(%s, %s)", vlib.CoqBytes(unhx(item.Mh)), rs))
	}
	c.Count(fmt.Sprintf("mfr:size:%d", len(m.Items)))
	if len(m.Items) >= 2 {
		c.Nontrivial(fmt.Sprintf("mfr|%v", m))
	}
	c.Case("mfr", fmt.Sprintf("((%s, %s, %s) : mfr_case)", vlib.CoqList(it), tree, coqFindResp(back, berr)), m)
}

func runMFR(c *vlib.Ctx) {
	r := c.Rng.Fork("mfr")
	for i := 0; i < c.Pick(80, 800); i++ {
		n := i % 4
		var m MfrJ
		for j := 0; j < n; j++ {
			var rs []ResJ
			k := r.Intn(4)
			for q := 0; q < k; q++ {
				rs = append(rs, genResult(r, r.Intn(30) == 0))
			}
			m.Items = append(m.Items, BatchItem{Mh: hx(genMultihash(r)), Results: rs})
			m.Nil = append(m.Nil, r.Bool())
		}
		doMFR(c, m, false)
	}
	// ProviderResult.Equal: context ID, metadata and provider ID decide; addresses do not
	{
		a := ResJ{Ctx: sp(hx([]byte("c"))), Md: sp(hx([]byte("m"))), Prov: 1, Addrs: []int{1}}.build()
		table := []struct {
			other ResJ
			want  bool
		}{
			{ResJ{Ctx: sp(hx([]byte("c"))), Md: sp(hx([]byte("m"))), Prov: 1, Addrs: []int{2, 3}}, true},
			{ResJ{Ctx: sp(hx([]byte("x"))), Md: sp(hx([]byte("m"))), Prov: 1, Addrs: []int{1}}, false},
			{ResJ{Ctx: sp(hx([]byte("c"))), Md: sp(hx([]byte("x"))), Prov: 1, Addrs: []int{1}}, false},
			{ResJ{Ctx: sp(hx([]byte("c"))), Md: sp(hx([]byte("m"))), Prov: 2, Addrs: []int{1}}, false},
			{ResJ{Ctx: sp(hx([]byte("c"))), Md: nil, Prov: 1}, false},
		}
		for i, t := range table {
			c.Eval()
			if got := a.Equal(t.other.build()); got != t.want {
				failOnce(c, "equal", fmt.Sprintf("equal:row=%d", i), fmt.Sprintf("ProviderResult.Equal row %d = %v, want %v", i, got, t.want), map[string]interface{}{"kind": "equal", "row": i})
			}
		}
	}
	// ProviderResult.Equal needs a provider: with a nil one it dereferences nil
	func() {
		defer func() {
			if recover() != nil {
				c.Count("observation:ProviderResult.Equal panics on a result without provider")
			}
		}()
		_ = model.ProviderResult{}.Equal(model.ProviderResult{})
	}()
}

// ---------------------------------------------------------------------------
// the client's other endpoints: what the server wrote is what the client returns; error
// statuses come back as API errors (the http.Error / FromResponse form: httperr cases)

func runEndpoints(c *vlib.Ctx) {
	r := c.Rng.Fork("endpoints")
	var status int
	var body []byte
	var lastPath string
	ts := quietServer(http.HandlerFunc(func(w http.ResponseWriter, req *http.Request) {
		lastPath = req.URL.Path
		if req.Header.Get("Accept") != "application/json" {
			http.Error(w, "accept header must be application/json", http.StatusBadRequest)
			return
		}
		if status != 200 {
			http.Error(w, string(body), status)
			return
		}
		w.Header().Set("Content-Type", "application/json")
		_, _ = w.Write(body)
	}))
	defer ts.Close()
	cl, err := client.New(ts.URL + "/ignored/prefix/")
	if err != nil {
		panic(err)
	}
	mkAI := func() peer.AddrInfo {
		ai := peer.AddrInfo{ID: peers[1+r.Intn(len(peers)-2)].id}
		for i := 0; i < r.Intn(3); i++ {
			ai.Addrs = append(ai.Addrs, addrs[1+r.Intn(len(addrs)-1)].a)
		}
		if ai.Addrs == nil {
			ai.Addrs = []multiaddr.Multiaddr{}
		}
		return ai
	}
	mkCid := func() cid.Cid { return cid.NewCidV1(cid.DagJSON, mhOf(multihash.SHA2_256, r.Bytes(32))) }
	mkInfo := func() *model.ProviderInfo {
		pi := &model.ProviderInfo{AddrInfo: mkAI()}
		if r.Bool() {
			pi.LastAdvertisement = mkCid()
			pi.LastAdvertisementTime = "2026-10-02T00:00:00Z"
		}
		pi.Lag = r.Intn(3)
		if r.Bool() {
			p := mkAI()
			pi.Publisher = &p
		}
		if r.Intn(3) == 0 {
			pi.ExtendedProviders = &model.ExtendedProviders{Providers: []peer.AddrInfo{mkAI()}, Metadatas: [][]byte{r.Bytes(3), nil}}
			if r.Bool() {
				pi.ExtendedProviders.Contextual = []model.ContextualExtendedProviders{{Override: r.Bool(), ContextID: "ctx", Providers: []peer.AddrInfo{mkAI()}}}
			}
		}
		if r.Intn(4) == 0 {
			pi.FrozenAt, pi.FrozenAtTime = mkCid(), "2026-10-01T00:00:00Z"
		}
		pi.Inactive = r.Intn(5) == 0
		if r.Intn(4) == 0 {
			pi.LastError, pi.LastErrorTime = "sync failed: \"x\" <y>", "2026-10-02T01:00:00Z"
		}
		return pi
	}
	same := func(a, b interface{}) bool {
		x, e1 := json.Marshal(a)
		y, e2 := json.Marshal(b)
		return e1 == nil && e2 == nil && bytes.Equal(x, y)
	}
	ctx := context.Background()
	for i := 0; i < c.Pick(60, 600); i++ {
		// provider list
		var infos []*model.ProviderInfo
		for j := 0; j < i%4; j++ {
			infos = append(infos, mkInfo())
		}
		status = 200
		body, _ = json.Marshal(infos)
		got, err := cl.ListProviders(ctx)
		c.Eval()
		if err != nil || lastPath != "/providers" || !same(infos, got) || len(got) != len(infos) {
			failOnce(c, "endpoint-list", fmt.Sprintf("endpoint:providers:read-back-differs:n=%d", len(infos)), fmt.Sprintf("ListProviders: err=%v path=%s", err, lastPath),
				map[string]interface{}{"kind": "endpoint", "body": string(body)})
		}
		// one provider
		one := mkInfo()
		body, _ = json.Marshal(one)
		g1, err := cl.GetProvider(ctx, one.AddrInfo.ID)
		c.Eval()
		if err != nil || lastPath != "/providers/"+one.AddrInfo.ID.String() || !same(one, g1) || g1.AddrInfo.ID != one.AddrInfo.ID {
			failOnce(c, "endpoint-one", "endpoint:provider:read-back-differs", fmt.Sprintf("GetProvider: err=%v path=%s", err, lastPath),
				map[string]interface{}{"kind": "endpoint", "body": string(body)})
		}
		// stats
		st := &model.Stats{EntriesEstimate: int64(r.Uint64() >> uint(r.Intn(64))), EntriesCount: int64(r.Intn(1000)) - 1}
		body, _ = model.MarshalStats(st)
		gs, err := cl.GetStats(ctx)
		c.Eval()
		if err != nil || lastPath != "/stats" || gs == nil || *gs != *st {
			failOnce(c, "endpoint-stats", fmt.Sprintf("endpoint:stats:read-back-differs:%+v", *st), fmt.Sprintf("GetStats: %+v err=%v", gs, err),
				map[string]interface{}{"kind": "endpoint", "body": string(body)})
		}
		c.Count("endpoint:round-trips")
	}
	// error statuses: the client hands back an API error with that status and message
	msgs := []string{"", "provider not found", "shutdown", " padded ", "two\nlines", "{\"Message\":\"json\"}"}
	for _, stc := range []int{400, 404, 429, 500, 503} {
		for _, m := range msgs {
			for ep := 0; ep < 3; ep++ {
				status, body = stc, []byte(m)
				var err error
				switch ep {
				case 0:
					_, err = cl.ListProviders(ctx)
				case 1:
					_, err = cl.GetProvider(ctx, peers[1].id)
				case 2:
					_, err = cl.GetStats(ctx)
				}
				c.Eval()
				replay := map[string]interface{}{"kind": "endpoint-error", "endpoint": ep, "status": stc, "msg": m}
				var ae *apierror.Error
				if !errors.As(err, &ae) || ae.Status() != stc {
					failOnce(c, "endpoint-error", fmt.Sprintf("endpoint:error-status-lost:endpoint=%d:status=%d", ep, stc), fmt.Sprintf("the client returned %v for status %d", err, stc), replay)
					continue
				}
				if t := asciiTrim(m); t != "" && ae.Error() != t {
					failOnce(c, "endpoint-error-msg", fmt.Sprintf("endpoint:error-message-lost:endpoint=%d:status=%d:msg=%q", ep, stc, m), fmt.Sprintf("message %q came back as %q", m, ae.Error()), replay)
				}
				obsMsg := "None"
				if ae.Unwrap() != nil {
					obsMsg = "(Some " + vlib.CoqBytes([]byte(ae.Unwrap().Error())) + ")"
				}
				c.Count("endpoint:errors")
				c.Case("httperr", fmt.Sprintf("((%s, %s, (Some (%s, %s))) : httperr_case)", vlib.CoqBytes([]byte(m)), vlib.CoqZ(int64(stc)), obsMsg, vlib.CoqZ(int64(stc))), replay)
			}
		}
	}
	// a 200 answer that is not the promised JSON, and an unreachable server: errors, no panic
	for ep := 0; ep < 3; ep++ {
		for _, bad := range []string{"{not json", "", "[1,2", "\"string\""} {
			status, body = 200, []byte(bad)
			var err error
			pan := ""
			func() {
				defer func() {
					if r := recover(); r != nil {
						pan = fmt.Sprint(r)
					}
				}()
				switch ep {
				case 0:
					_, err = cl.ListProviders(ctx)
				case 1:
					_, err = cl.GetProvider(ctx, peers[1].id)
				case 2:
					_, err = cl.GetStats(ctx)
				}
			}()
			c.Eval()
			if pan != "" || err == nil {
				failOnce(c, "endpoint-badjson", fmt.Sprintf("endpoint:malformed-body-accepted:endpoint=%d:body=%q", ep, bad), fmt.Sprintf("err=%v panic=%q", err, pan),
					map[string]interface{}{"kind": "endpoint-badjson", "endpoint": ep, "body": bad})
			}
			c.Count("endpoint:malformed-200")
		}
	}
	dead := quietServer(http.NotFoundHandler())
	deadCl, _ := client.New(dead.URL)
	dead.Close()
	for ep := 0; ep < 4; ep++ {
		var err error
		switch ep {
		case 0:
			_, err = deadCl.ListProviders(ctx)
		case 1:
			_, err = deadCl.GetProvider(ctx, peers[1].id)
		case 2:
			_, err = deadCl.GetStats(ctx)
		case 3:
			_, err = deadCl.Find(ctx, mhOf(multihash.SHA2_256, make([]byte, 32)))
		}
		c.Eval()
		if err == nil {
			failOnce(c, "endpoint-dead", fmt.Sprintf("endpoint:unreachable-server-no-error:endpoint=%d", ep), "no error from an unreachable server", map[string]interface{}{"kind": "endpoint-dead", "endpoint": ep})
		}
	}
	// client.New: what it accepts
	for _, u := range []struct {
		url string
		ok  bool
	}{{"http://127.0.0.1:1", true}, {"https://example.com/some/path?x=1", true}, {"ftp://example.com", false}, {"example.com", false},
		{"http://[::1", false}, {"", false}, {"HTTP://example.com", true}} {
		_, err := client.New(u.url)
		c.Eval()
		if (err == nil) != u.ok {
			failOnce(c, "client-new", "client:new:"+u.url, fmt.Sprintf("client.New(%q): err=%v", u.url, err), map[string]string{"kind": "client-new", "url": u.url})
		}
	}
	if _, err := client.New("http://example.com", client.WithClient(nil), client.WithClient(&http.Client{})); err != nil {
		failOnce(c, "client-new", "client:new:options", "client.New with WithClient options failed: "+err.Error(), map[string]string{"kind": "client-new"})
	}
}
