package main

import (
	"bytes"
	"fmt"
	"strings"

	"github.com/ipni/go-libipni/apierror"
	"github.com/ipni/go-libipni/find/model"
	"github.com/multiformats/go-multihash"

	"verif/harness/vlib"
)

// Scn is one end-to-end scenario (also the replay format, kind "e2e").
type Scn struct {
	Kind    string   `json:"kind"`
	Prefer  bool     `json:"prefer_json"`
	MhType  string   `json:"mh_type,omitempty"`
	CidType string   `json:"cid_type,omitempty"`
	Client  bool     `json:"client"`       // the request is exactly what client.Find sends for Mh
	Mh      string   `json:"mh,omitempty"` // hex multihash given to client.Find
	Accept  []string `json:"accept"`       // Accept header values (raw requests); null = absent
	Path    string   `json:"path_hex"`     // r.URL.Path bytes (raw requests)
	Results []ResJ   `json:"results"`
	Key     string   `json:"key,omitempty"`     // good | bad | none: what the generator knows about the path/key
	WantMh  string   `json:"want_mh,omitempty"` // hex, when Key == good
	Form    string   `json:"form,omitempty"`
}

// expectation for an Accept header, from the property text and rwriter's documented
// contract, computed without the model: "bad" when an element is malformed, when no
// element is a supported type, or when the header is absent and JSON is not preferred.
func acceptExpectation(accepts []string, prefer bool) (exp string, allowND, allowJSON bool) {
	if len(accepts) == 0 {
		if prefer {
			return "good", false, true
		}
		return "bad", false, false
	}
	bad := false
	for _, v := range classifyAccepts(accepts) {
		for _, e := range v {
			switch e {
			case "MTErr":
				bad = true
			case "MTNd":
				allowND = true
			case "MTJson":
				allowJSON = true
			case "MTAny":
				allowND, allowJSON = true, true
			}
		}
	}
	if bad || (!allowND && !allowJSON) {
		return "bad", false, false
	}
	return "good", allowND, allowJSON
}

type reported map[string]bool

var once = reported{}

// failOnce reports the first (smallest, the generators go by increasing size) failure of
// a category; later ones of the same category are counted only.
func failOnce(c *vlib.Ctx, category, sig, desc string, replay interface{}) {
	c.Count("oracle-fail:" + category)
	if once[category] {
		return
	}
	once[category] = true
	c.Fail(sig, desc, replay)
}

func buildAll(rs []ResJ) []model.ProviderResult {
	out := make([]model.ProviderResult, len(rs))
	for i, r := range rs {
		out[i] = r.build()
	}
	return out
}

type scnObs struct {
	raw     rawResp
	seen    srvSeen
	resp    *model.FindResponse
	cerr    error
	lines   []model.ProviderResult
	lerr    error
	accepts []string // Accept values that arrived at the server
	path    string
}

// execScn runs the scenario on the real server and clients.
func execScn(s *server, sc Scn) (o scnObs, err error) {
	s.configure(srvConfig{prefer: sc.Prefer, mhType: sc.MhType, cidType: sc.CidType, dflt: sc.Results})
	tr := &rewriteTransport{}
	var mh multihash.Multihash
	if sc.Mh != "" {
		mh = unhx(sc.Mh)
	} else {
		mh = mhOf(multihash.SHA2_256, make([]byte, 32))
	}
	if !sc.Client {
		tr.rewrite = true
		tr.path = string(unhx(sc.Path))
		tr.accepts = sc.Accept
	}
	o.resp, o.cerr = s.realFind(tr, mh)
	seen := s.takeSeen()
	if len(seen) != 1 {
		return o, fmt.Errorf("server saw %d requests for one Find", len(seen))
	}
	o.seen = seen[0]
	o.accepts = o.seen.accepts
	o.path = o.seen.path
	// the same request again, read raw
	o.raw = s.rawGet(o.path, o.accepts)
	seen2 := s.takeSeen()
	if o.raw.err != nil || len(seen2) != 1 {
		return o, fmt.Errorf("raw request failed: %v", o.raw.err)
	}
	if tr.last.status != o.raw.status || tr.last.ctype != o.raw.ctype || !bytes.Equal(tr.last.body, o.raw.body) {
		return o, fmt.Errorf("the same request was answered differently twice")
	}
	if seen2[0].path != o.path || strings.Join(seen2[0].accepts, "\x00") != strings.Join(o.accepts, "\x00") {
		return o, fmt.Errorf("raw request arrived differently: %q %q", seen2[0].path, seen2[0].accepts)
	}
	o.lines, o.lerr = readLines(o.raw)
	return o, nil
}

// checkScn applies the direct oracles; returns the failure (category, signature, desc) or "".
func checkScn(sc Scn, o scnObs) (cat, sig, desc string) {
	if o.seen.panicked != "" {
		return "panic", "panic:handler:" + o.seen.panicked, "the handler panicked: " + o.seen.panicked
	}
	if o.seen.writeErr != "" {
		return "write", "write:error:" + o.seen.writeErr, "WriteProviderResult failed: " + o.seen.writeErr
	}
	wf := allWf(sc.Results)
	written := buildAll(sc.Results)
	status := o.raw.status
	hdr := fmt.Sprintf("accept=%q prefer=%v", o.accepts, sc.Prefer)

	if sc.Client {
		// the property's first sentence, for the real client as it is
		mh := unhx(sc.Mh)
		if o.cerr != nil && wf {
			return "find-client-error",
				fmt.Sprintf("find:client-error:preferJson=%v:%s", sc.Prefer, o.cerr),
				fmt.Sprintf("client.Find against an rwriter server (preferJson=%v, %d results) failed: %v; the request carried Accept=%q Content-Type=application/json, the server answered %d %q",
					sc.Prefer, len(sc.Results), o.cerr, o.accepts, status, strings.TrimSpace(string(o.raw.body)))
		}
		if !wf {
			return "", "", ""
		}
		if len(sc.Results) == 0 {
			if status != 404 {
				return "empty-status", fmt.Sprintf("empty:status=%d:preferJson=%v", status, sc.Prefer), "an empty result set was not answered with 404"
			}
			if o.resp == nil || len(o.resp.MultihashResults) != 0 || len(o.resp.EncryptedMultihashResults) != 0 {
				return "empty-client", "empty:client-response-not-empty", "client.Find did not return an empty response for 404"
			}
			return "", "", ""
		}
		if !bytes.Equal(o.seen.mh, mh) {
			return "find-key", "find:server-saw-other-multihash:" + hx(mh), "the server parsed the client's key as " + hx(o.seen.mh)
		}
		if len(o.resp.MultihashResults) != 1 || !bytes.Equal(o.resp.MultihashResults[0].Multihash, mh) ||
			!sameResults(written, o.resp.MultihashResults[0].ProviderResults) {
			return "find-results", fmt.Sprintf("find:results-differ:n=%d:%s", len(sc.Results), coqResList(sc.Results)),
				"client.Find returned other results than were written"
		}
		return "", "", ""
	}

	accExp, allowND, allowJSON := acceptExpectation(o.accepts, sc.Prefer)
	if accExp == "bad" || sc.Key == "bad" {
		if status < 400 || status > 499 {
			why := "key/path"
			if accExp == "bad" {
				why = "accept"
				if len(o.accepts) > 0 {
					cl := classifyAccepts(o.accepts)
					return "accept-malformed-accepted",
						fmt.Sprintf("accept:bad-header-accepted:prefer=%v:%v", sc.Prefer, cl),
						fmt.Sprintf("Accept header %q (elements %v) has a malformed or only unsupported media types but was answered %d", o.accepts, cl, status)
				}
			}
			return "bad-not-4xx", fmt.Sprintf("bad-request-accepted:%s:path=%q:%s", why, o.path, hdr),
				fmt.Sprintf("bad request (%s) answered %d", why, status)
		}
		ae, ok := apierror.FromResponse(status, o.raw.body).(*apierror.Error)
		if !ok || ae.Status() != status {
			return "bad-apierror", "bad-request:not-an-api-error", "the 4xx answer does not decode to an API error with that status"
		}
		if o.cerr == nil && status != 404 {
			return "bad-client", "bad-request:client-no-error", "client.Find returned no error for a 4xx answer"
		}
		return "", "", ""
	}
	if sc.Key != "good" {
		return "", "", ""
	}
	want := unhx(sc.WantMh)
	if status >= 400 && status != 404 {
		return "key-rejected-" + formBase(sc.Form), fmt.Sprintf("key:%s-rejected:%s", formBase(sc.Form), asciiTrim(lastElem(o.path))),
			fmt.Sprintf("valid %s key for multihash %s answered %d %q", sc.Form, hx(want), status, strings.TrimSpace(string(o.raw.body)))
	}
	if !bytes.Equal(o.seen.mh, want) {
		return "key-other-" + formBase(sc.Form), fmt.Sprintf("key:%s-read-as-other-multihash:%s", formBase(sc.Form), asciiTrim(lastElem(o.path))),
			fmt.Sprintf("%s key for multihash %s was read as multihash %s", sc.Form, hx(want), hx(o.seen.mh))
	}
	if !bytes.Equal(o.seen.cidHash, o.seen.mh) {
		return "key-cid", "key:cid-hash-differs:" + hx(want), "ResponseWriter.Cid().Hash() differs from Multihash()"
	}
	if o.seen.nd && !allowND || !o.seen.nd && !allowJSON {
		return "accept-mode", fmt.Sprintf("accept:mode-not-acceptable:%s", hdr), "the response media type is not one the Accept header admits"
	}
	if len(sc.Results) == 0 {
		if status != 404 {
			return "empty-status", fmt.Sprintf("empty:status=%d:%s", status, hdr), "an empty result set was not answered with 404"
		}
		if o.cerr != nil || o.resp == nil || len(o.resp.MultihashResults) != 0 {
			return "empty-client", "empty:client-response-not-empty", "client.Find did not return an empty response without error for 404"
		}
		return "", "", ""
	}
	if status != 200 {
		return "status", fmt.Sprintf("status:%d:%s", status, hdr), "good request with results not answered 200"
	}
	if !wf {
		return "", "", ""
	}
	if o.seen.nd {
		if o.raw.ctype != "application/x-ndjson" {
			return "nd-ctype", "ndjson:content-type:" + o.raw.ctype, "streaming response without the NDJSON content type"
		}
		if o.lerr != nil {
			return "nd-line", fmt.Sprintf("ndjson:line-unreadable:%s", coqResList(sc.Results)), "a line of the streaming response is not one complete result: " + o.lerr.Error()
		}
		if !sameResults(written, o.lines) {
			return "nd-results", fmt.Sprintf("ndjson:results-differ:%s", coqResList(sc.Results)), "the lines of the streaming response are not the written results in order"
		}
		return "", "", ""
	}
	if o.raw.ctype != "application/json" {
		return "json-ctype", "json:content-type:" + o.raw.ctype, "JSON response without the JSON content type"
	}
	if o.cerr != nil {
		return "find-decode", fmt.Sprintf("find:decode-error:%s", coqResList(sc.Results)), "client.Find could not decode the response: " + o.cerr.Error()
	}
	if len(o.resp.MultihashResults) != 1 || !bytes.Equal(o.resp.MultihashResults[0].Multihash, want) ||
		!sameResults(written, o.resp.MultihashResults[0].ProviderResults) {
		return "find-results", fmt.Sprintf("find:results-differ:n=%d:%s", len(sc.Results), coqResList(sc.Results)),
			"client.Find returned other results than were written"
	}
	return "", "", ""
}

func lastElem(p string) string {
	if i := strings.LastIndexByte(p, '/'); i >= 0 {
		return p[i+1:]
	}
	return p
}

// runScn executes, checks (shrinking the result list on failure) and emits the Coq case.
func runScn(c *vlib.Ctx, s *server, sc Scn, verbose bool) {
	sc.Kind = "e2e"
	o, err := execScn(s, sc)
	c.Eval()
	if err != nil {
		failOnce(c, "harness", "harness:"+err.Error(), err.Error(), sc)
		return
	}
	if verbose {
		fmt.Printf("request: path=%q accept=%q preferJson=%v\nserver: newErr=%q multihash=%s nd=%v type=%q panic=%q\nresponse: %d %q %q\nclient.Find: resp=%v err=%v\nline reader: %d results err=%v\n",
			o.path, o.accepts, sc.Prefer, o.seen.newErr, hx(o.seen.mh), o.seen.nd, o.seen.pathType, o.seen.panicked,
			o.raw.status, o.raw.ctype, o.raw.body, o.resp, o.cerr, len(o.lines), o.lerr)
	}
	if cat, sig, desc := checkScn(sc, o); cat != "" {
		// shrink the result list: fewer results first
		best, bsig, bdesc := sc, sig, desc
		if len(sc.Results) > 0 {
			cands := [][]ResJ{{}}
			for _, r := range sc.Results {
				cands = append(cands, []ResJ{r})
			}
			for _, rs := range cands {
				t := sc
				t.Results = rs
				if o2, err := execScn(s, t); err == nil {
					if cat2, sig2, desc2 := checkScn(t, o2); cat2 == cat {
						best, bsig, bdesc = t, sig2, desc2
						break
					}
				}
			}
		}
		if verbose {
			fmt.Printf("ORACLE FAILURE %s: %s\n", bsig, bdesc)
		}
		failOnce(c, cat, bsig, bdesc, best)
	} else if verbose {
		fmt.Println("all direct oracles hold for this input")
	}

	// statistics
	c.Count(fmt.Sprintf("e2e:status:%d", o.raw.status))
	c.Count(fmt.Sprintf("e2e:results:%d", len(sc.Results)))
	if sc.Client {
		c.Count("e2e:real-client-request")
	} else {
		c.Count("e2e:form:" + formBase(sc.Form))
		c.Count("e2e:shape:" + formShape(sc.Form))
	}
	if !allWf(sc.Results) {
		c.Count("e2e:unreadable-provider (zero peer ID / nil multiaddr)")
	}
	if o.raw.status == 200 {
		if o.seen.nd {
			c.Count("e2e:mode:ndjson")
		} else {
			c.Count("e2e:mode:json")
		}
	}
	if len(sc.Results) >= 2 || (len(sc.Results) == 1 && !sc.Client) {
		c.Nontrivial(fmt.Sprintf("e2e|%v|%q|%s|%s", sc.Prefer, o.accepts, o.path, coqResList(sc.Results)))
	}

	// the Coq case
	if !pathModelable(o.path) {
		c.Count("e2e:not-modelled:unicode-space-in-key")
		return
	}
	isCid := typeIsCid(o.path, sc.MhType, sc.CidType)
	out, err := coqOutcome(o.raw, o.seen, isCid)
	if err != nil {
		failOnce(c, "wire", "wire:unreadable:"+err.Error(), "the response body is not what the schema allows: "+err.Error(), sc)
		return
	}
	req, _ := coqRequest(sc.Prefer, sc.MhType, sc.CidType, o.accepts, o.path)
	term := fmt.Sprintf("((%s, %s, %s, %s, %s) : e2e_case)", req, coqResList(sc.Results), out,
		coqFindResp(o.resp, o.cerr), coqLinesRead(o.lines, o.lerr))
	c.Case("e2e", term, sc)
	if len(sc.Results) >= 2 && o.raw.status == 200 {
		c.Sample(map[string]interface{}{"family": "e2e", "input": sc, "status": o.raw.status, "body": string(o.raw.body)})
	}
}
