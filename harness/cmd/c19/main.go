// c19: find responses written by the server helper (rwriter) are read back identically
// by the find client.
//
// An httptest server whose handler uses rwriter exactly as an indexer's find handler does
// (New, NewProviderResponseWriter, WriteProviderResult, Close; errors answered with the
// API error's status) is queried by the REAL find/client (Find, FindBatch) and by a raw
// line reader.  Families of Coq cases (each carries the inputs AND what the real code did):
//
//	neg      rwriter.New's content negotiation, exhaustive over classified Accept lists
//	path     path.Base / path.Base(path.Dir) / TrimSpace as rwriter.New uses them
//	mhd      multihash.Decode
//	new      rwriter.New: negotiation + resource type + key (base58 / hex / CID text forms)
//	e2e      request -> response on the wire (as an abstract JSON tree) -> what client.Find
//	         and the line reader obtained
//	batch    client.FindBatch over several multihashes
//	apierr   apierror.EncodeError / DecodeError
//	httperr  http.Error + apierror.FromResponse
//
// Direct oracles (Go only, from the property text) run on every scenario; see scenario.go.
package main

import (
	"fmt"
	"runtime/debug"

	"verif/harness/vlib"
)

type replay struct {
	Kind string `json:"kind"`
}

func main() {
	debug.SetMemoryLimit(2 << 30)
	c := vlib.Init("C19")
	defer c.Finish()
	initPools(c)
	req := []string{"From Model Require Import C19_FindWire."}
	negChk, newChk, e2eChk := "neg_case_ok", "new_case_ok", "e2e_case_ok"
	s := newServer()
	defer s.ts.Close()

	if c.Replay != "" {
		var k replay
		if err := c.LoadReplay(&k); err != nil {
			panic(err)
		}
		c.Family("e2e", req, e2eChk, 300)
		c.Family("neg", req, negChk, 600)
		c.Family("new", req, newChk, 400)
		c.Family("batch", req, "batch_case_ok", 200)
		c.Family("apierr", req, "apierr_case_ok", 400)
		c.Family("hist", req, "hist_case_ok", 40)
		fmt.Printf("replay kind=%s\n", k.Kind)
		switch k.Kind {
		case "e2e":
			var sc Scn
			c.LoadReplay(&sc)
			runScn(c, s, sc, true)
		case "neg":
			var n NegJ
			c.LoadReplay(&n)
			doNeg(c, n, true)
		case "new":
			var n NewJ
			c.LoadReplay(&n)
			doNew(c, n, true)
		case "batch":
			var b BatchJ
			c.LoadReplay(&b)
			doBatch(c, s, b, true)
		case "apierr":
			var a ApiErrJ
			c.LoadReplay(&a)
			doApiErr(c, a, true)
		case "mfr":
			c.Family("mfr", req, "mfr_case_ok", 100)
			var m MfrJ
			c.LoadReplay(&m)
			doMFR(c, m, true)
		case "large":
			var l LargeJ
			c.LoadReplay(&l)
			doLarge(c, s, l, true)
		case "hist":
			var h HistJ
			c.LoadReplay(&h)
			doHist(c, s, h, true)
		case "hist-concurrent":
			var h struct {
				Prefer  bool           `json:"prefer_json"`
				Items   []BatchItem    `json:"items"`
				Cut     map[string]int `json:"cut"`
				Workers int            `json:"workers"`
				Rounds  int            `json:"rounds"`
			}
			c.LoadReplay(&h)
			cut := map[int]int{}
			for k, v := range h.Cut {
				var i int
				fmt.Sscan(k, &i)
				cut[i] = v
			}
			doHistConcurrent(c, s, h.Prefer, h.Items, cut, h.Workers, h.Rounds)
		default:
			panic("unknown replay kind " + k.Kind)
		}
		return
	}

	// which tree is this?  (only to pick the model the correspondence is checked against
	// and to say so in the evidence; the oracles do not depend on it)
	v0neg, v0key := probeTree()
	if v0neg && v0key {
		negChk, newChk, e2eChk = "neg_v0_case_ok", "new_v0_case_ok", "e2e_v0_case_ok"
		c.Note("the tree has none of pending/C19-fix-{accept-elements,hex-key}: correspondence checked against the *_v0 model (the code before the fixes)")
	} else if v0neg || v0key {
		c.Note(fmt.Sprintf("the tree has only some of the C19 fixes (old negotiation: %v, old key parsing: %v): correspondence checked against the repaired model", v0neg, v0key))
	}
	c.Family("neg", req, negChk, 600)
	c.Family("path", req, "path_case_ok", 500)
	c.Family("mhd", req, "mhd_case_ok", 500)
	c.Family("new", req, newChk, 400)
	c.Family("e2e", req, e2eChk, 120)
	c.Family("batch", req, "batch_case_ok", 100)
	c.Family("apierr", req, "apierr_case_ok", 400)
	c.Family("httperr", req, "httperr_case_ok", 400)
	c.Family("hist", req, "hist_case_ok", 40)
	c.Family("wrap", req, "wrap_case_ok", 400)
	c.Family("mqp", req, "mqp_case_ok", 400)
	c.Family("aetext", req, "aetext_case_ok", 400)
	c.Family("mfr", req, "mfr_case_ok", 100)

	c.Res.Exhaustive = true
	c.Res.Rule = "neg: every Accept header made of <=4 classified elements in one value, <=2 elements in each of two values, one element in each of three values (classes ndjson/json/any/other/malformed) x preferJson, exhaustive, plus seeded headers with q-values, parameters, case and spacing variants. " +
		"path: path shapes x segment alphabets (empty, dot, dotdot, spaces, slashes) exhaustive to 4 segments over a small alphabet plus seeded byte strings. " +
		"mhd: valid multihashes of 8 functions, every truncation / extension of some, hostile varints. " +
		"new: 12 path shapes x key forms (base58, hex, HEX, CIDv0, CIDv1 in 8 multibases, 16 malformed kinds, hex without the digit 0, cross-form) x multihash functions x resource types (default and custom), direct call. " +
		"e2e: real HTTP. real-client requests x preferJson x result lists (0 results; every nil/empty/binary context ID x metadata x provider shape alone; seeded lists of 2..5; lists with an unreadable provider); raw requests: 30 Accept headers x preferJson x {0,1,3 results}; key forms x multihash functions; path shapes; seeded combinations. " +
		"large: result lists of 700 and 1500 results with 1 KiB metadata and of 5000 small results (JSON answers of 1 to 3 MiB) written through rwriter and read by client.Find (preferJson on / off), client.FindBatch (small, large, small) and raw as NDJSON; provider lists of 1200 (1 KiB metadata) and 6000 providers read by ListProviders; direct oracle: the same results in the same order. " +
		"non-trivial = (e2e) >= 2 results, or 1 result on a raw request; (new) a well-formed key; (neg) >= 2 elements"
	runNeg(c)
	runPath(c)
	runMhd(c)
	runNew(c)
	runE2E(c, s)
	runBatch(c, s)
	runApiErr(c)
	runHTTPErr(c)
	runHist(c, s)
	runWrap(c)
	runMQP(c)
	runAeText(c)
	runMFR(c)
	runEndpoints(c)
	runLarge(c, s)
}
