package main

import (
	"context"
	"encoding/hex"
	"encoding/json"
	"errors"
	"fmt"
	"io"
	"net/http"
	"net/http/httptest"
	"path"

	"github.com/ipni/go-libipni/apierror"
	"github.com/ipni/go-libipni/find/client"
	"github.com/ipni/go-libipni/find/model"
	"github.com/ipni/go-libipni/rwriter"
	"github.com/libp2p/go-libp2p/core/peer"
	"github.com/mr-tron/base58"
	"github.com/multiformats/go-multiaddr"
	"github.com/multiformats/go-multihash"
)

func main() {
	var results []model.ProviderResult
	prefer := false
	ts := httptest.NewServer(http.HandlerFunc(func(w http.ResponseWriter, r *http.Request) {
		fmt.Printf("  server: path=%q accept=%q ct=%q\n", r.URL.Path, r.Header.Values("Accept"), r.Header.Get("Content-Type"))
		rw, err := rwriter.New(w, r, rwriter.WithPreferJson(prefer))
		if err != nil {
			var ae *apierror.Error
			if errors.As(err, &ae) {
				http.Error(w, ae.Error(), ae.Status())
				return
			}
			http.Error(w, err.Error(), 500)
			return
		}
		fmt.Printf("  server: mh=%s nd=%v type=%s cid=%s\n", rw.Multihash().HexString(), rw.IsND(), rw.PathType(), rw.Cid())
		pw := rwriter.NewProviderResponseWriter(rw)
		for _, pr := range results {
			if err := pw.WriteProviderResult(pr); err != nil {
				fmt.Println("  server: write err", err)
			}
		}
		if err := pw.Close(); err != nil {
			var ae *apierror.Error
			if errors.As(err, &ae) {
				http.Error(w, ae.Error(), ae.Status())
				return
			}
			http.Error(w, err.Error(), 500)
		}
	}))
	defer ts.Close()
	mh, _ := multihash.Sum([]byte("hello"), multihash.SHA2_256, -1)
	cl, _ := client.New(ts.URL)
	for _, p := range []bool{false, true} {
		prefer = p
		resp, err := cl.Find(context.Background(), mh)
		fmt.Printf("prefer=%v empty: resp=%+v err=%v\n", p, resp, err)
	}
	pid, _ := peer.Decode("12D3KooWKRyzVWW6ChFjQjK4miCty85Niy48tpPV95XdKu1BcvMA")
	a1, _ := multiaddr.NewMultiaddr("/ip4/1.2.3.4/tcp/80")
	results = []model.ProviderResult{
		{ContextID: nil, Metadata: nil, Provider: nil},
		{ContextID: []byte{}, Metadata: []byte{}, Provider: &peer.AddrInfo{ID: pid}},
		{ContextID: []byte{0, 255}, Metadata: []byte("x"), Provider: &peer.AddrInfo{ID: pid, Addrs: []multiaddr.Multiaddr{a1, nil}}},
		{ContextID: []byte{1}, Provider: &peer.AddrInfo{}},
	}
	for i, r := range results {
		b, err := json.Marshal(r)
		fmt.Printf("json[%d] %s err=%v\n", i, b, err)
		var back model.ProviderResult
		err = json.Unmarshal(b, &back)
		fmt.Printf("   back=%+v provider=%+v err=%v\n", back, back.Provider, err)
	}
	results = results[:3]
	prefer = true
	resp, err := cl.Find(context.Background(), mh)
	fmt.Printf("find: %+v err=%v\n", resp, err)
	get := func(p string, accept ...string) {
		req, _ := http.NewRequest("GET", ts.URL+p, nil)
		for _, a := range accept {
			req.Header.Add("Accept", a)
		}
		res, err := http.DefaultClient.Do(req)
		if err != nil {
			fmt.Println("GET err", err)
			return
		}
		body, _ := io.ReadAll(res.Body)
		res.Body.Close()
		fmt.Printf("GET %s %q -> %d ct=%q body=%q\n", p, accept, res.StatusCode, res.Header.Get("Content-Type"), body)
	}
	prefer = false
	get("/multihash/"+mh.B58String(), "application/x-ndjson")
	get("/multihash/"+mh.HexString(), "application/json")
	get("/multihash/"+mh.HexString()+"/", "application/json")
	get("/multihash/%20"+mh.HexString()+"%20", "application/json")
	get("/a/../multihash/./"+mh.HexString(), "application/json")
	get("/multihash//"+mh.HexString(), "application/json")
	get("//"+mh.HexString(), "application/json")
	get("/"+mh.HexString(), "application/json")
	get("", "application/json")
	get("/multihash/"+mh.B58String(), "application/json;q=0.5, text/html")
	get("/multihash/"+mh.B58String(), "text/html", "application/json")
	get("/multihash/"+mh.B58String(), "text/html")
	get("/multihash/"+mh.B58String(), "application/json;;")
	get("/multihash/"+mh.B58String(), "application/x-ndjson,*/*, ;bad")
	get("/multihash/"+mh.B58String(), "")
	get("/multihash/"+mh.B58String(), "APPLICATION/JSON")
	results = nil
	get("/multihash/"+mh.B58String(), "application/x-ndjson")
	get("/multihash/"+mh.B58String(), "application/json")
	fmt.Println(path.Base(""), path.Dir(""), path.Base(path.Dir("/")), path.Base(path.Dir("/x")))

	// hex / base58 ambiguity: sha3-224 multihash hex "171c" + 56 hex digits without 0
	n, found := 0, 0
	for seed := 0; seed < 3000000 && found < 3; seed++ {
		d, _ := multihash.Sum([]byte(fmt.Sprintf("s%d", seed)), multihash.SHA3_224, -1)
		hs := hex.EncodeToString(d)
		b, err := base58.Decode(hs)
		if err != nil {
			continue
		}
		n++
		if _, err := multihash.Decode(b); err == nil {
			found++
			fmt.Printf("AMBIG seed=%d hex=%s b58->%x (tried %d no-zero)\n", seed, hs, b, n)
		}
	}
	fmt.Println("no-zero candidates", n, "found", found)
	// apierror
	for _, e := range []error{apierror.New(nil, 404), apierror.New(errors.New("x <&> \xff"), 400), apierror.New(errors.New(""), 0), errors.New("plain"), apierror.New(nil, 0), apierror.New(nil, 999), fmt.Errorf("wrap: %w", apierror.New(errors.New("in"), 418))} {
		b := apierror.EncodeError(e)
		d := apierror.DecodeError(b)
		var ae *apierror.Error
		st := -1
		if errors.As(d, &ae) {
			st = ae.Status()
		}
		fmt.Printf("apierr %q -> %s -> %q status=%d\n", e.Error(), b, d, st)
	}
}
