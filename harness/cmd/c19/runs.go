package main

import (
	"bytes"
	"context"
	"encoding/hex"
	"errors"
	"fmt"
	"net/http"
	"net/http/httptest"
	"net/url"
	"path"
	"strings"
	"unicode/utf8"

	"github.com/ipni/go-libipni/apierror"
	"github.com/ipni/go-libipni/find/client"
	"github.com/ipni/go-libipni/rwriter"
	"github.com/mr-tron/base58"
	"github.com/multiformats/go-multihash"
	"github.com/multiformats/go-varint"

	"verif/harness/vlib"
)

// ---------------------------------------------------------------------------
// direct call of rwriter.New (no network)

type newObs struct {
	rw       *rwriter.ResponseWriter
	err      error
	panicked string
	hdr      http.Header
}

func directNew(prefer bool, mhType, cidType string, accepts []string, p string) (o newObs) {
	rec := httptest.NewRecorder()
	req := &http.Request{Method: http.MethodGet, Header: http.Header{}, URL: &url.URL{Path: p}}
	for _, a := range accepts {
		req.Header.Add("Accept", a)
	}
	defer func() {
		if r := recover(); r != nil {
			o.panicked = fmt.Sprint(r)
		}
	}()
	o.rw, o.err = rwriter.New(rec, req, rwOptions(srvConfig{prefer: prefer, mhType: mhType, cidType: cidType})...)
	o.hdr = rec.Header()
	return
}

const goodPath = "/multihash/QmRN6wdp1S2A5EtjW9A3M1vKSBuQQGcgvuhoMUoEz4iiT5"

// probeTree: does this tree still have the old negotiation / the old key parsing?
func probeTree() (v0neg, v0key bool) {
	o := directNew(false, "", "", []string{"*/*,;bad"}, goodPath)
	v0neg = o.err == nil
	o = directNew(true, "", "", nil, "/multihash/"+witnessSha1Hex)
	v0key = o.err != nil
	return
}

// ---------------------------------------------------------------------------
// neg

type NegJ struct {
	Kind   string   `json:"kind"`
	Prefer bool     `json:"prefer_json"`
	Accept []string `json:"accept"`
}

var mtClasses = []string{"MTNd", "MTJson", "MTAny", "MTOther", "MTErr"}

var mtStrings = map[string][]string{
	"MTNd":    {"application/x-ndjson", " application/x-ndjson;q=0.9", "APPLICATION/X-NDJSON", "application/x-ndjson ; charset=utf-8"},
	"MTJson":  {"application/json", "application/json; charset=utf-8", " application/json;q=0", "Application/Json", "application/json;q=0.5"},
	"MTAny":   {"*/*", " */*;q=0.1", "*/* "},
	"MTOther": {"text/html", "application/*", "application/xml;q=0.9", "text/plain; format=flowed", "application/jsonx", "application/ndjson", "*"},
	"MTErr":   {";bad", "", "application/json;;", "a/b/c", "application/json; q", "/", "application/json; x=\"a", "text/ html", " "},
}

func checkMTStrings() {
	for cl, ss := range mtStrings {
		for _, s := range ss {
			if got := classifyMT(s); got != cl {
				panic(fmt.Sprintf("Accept element %q is %s, listed as %s", s, got, cl))
			}
		}
	}
}

func negSig(prefer bool, accepts []string) string {
	return fmt.Sprintf("accept:bad-header-accepted:prefer=%v:%v", prefer, classifyAccepts(accepts))
}

func doNeg(c *vlib.Ctx, n NegJ, verbose bool) {
	n.Kind = "neg"
	o := directNew(n.Prefer, "", "", n.Accept, goodPath)
	c.Eval()
	cl := classifyAccepts(n.Accept)
	var obs string
	switch {
	case o.panicked != "":
		obs = "(Panic 0)"
	case o.err != nil:
		obs = fmt.Sprintf("(Err %d)", errClass(o.err.Error(), false))
	case o.rw.IsND():
		obs = "(Ok ND)"
	default:
		obs = "(Ok JS)"
	}
	if verbose {
		fmt.Printf("rwriter.New preferJson=%v Accept=%q (elements %v): %s err=%v panic=%q\n", n.Prefer, n.Accept, cl, obs, o.err, o.panicked)
	}
	// direct oracles
	exp, allowND, allowJSON := acceptExpectation(n.Accept, n.Prefer)
	switch {
	case o.panicked != "":
		failOnce(c, "panic", "panic:New:"+o.panicked, "rwriter.New panicked: "+o.panicked, n)
	case exp == "bad" && o.err == nil:
		failOnce(c, "accept-malformed-accepted", negSig(n.Prefer, n.Accept),
			fmt.Sprintf("Accept header %q (elements %v) has a malformed element or only unsupported media types but rwriter.New accepted it", n.Accept, cl), n)
		if verbose {
			fmt.Println("ORACLE FAILURE: bad Accept header accepted")
		}
	case exp == "bad":
		var ae *apierror.Error
		if !errors.As(o.err, &ae) || ae.Status() != 400 {
			failOnce(c, "accept-status", fmt.Sprintf("accept:not-400:%v", cl), "bad Accept header not answered with a 400 API error", n)
		}
	case o.err != nil:
		failOnce(c, "accept-rejected", fmt.Sprintf("accept:good-header-rejected:prefer=%v:%v", n.Prefer, cl),
			fmt.Sprintf("well-formed Accept header %q with a supported media type rejected: %v", n.Accept, o.err), n)
	case o.rw.IsND() && !allowND || !o.rw.IsND() && !allowJSON:
		failOnce(c, "accept-mode", fmt.Sprintf("accept:mode-not-acceptable:prefer=%v:%v", n.Prefer, cl), "the chosen media type is not one the Accept header admits", n)
	default:
		want := "application/json"
		if o.rw.IsND() {
			want = "application/x-ndjson"
		}
		if o.hdr.Get("Content-Type") != want {
			failOnce(c, "ctype", "accept:content-type-header:"+o.hdr.Get("Content-Type"), "Content-Type header does not match the negotiated mode", n)
		}
	}
	nelem := 0
	for _, v := range cl {
		nelem += len(v)
	}
	c.Count("neg:" + strings.Fields(strings.Trim(obs, "()"))[0])
	if nelem >= 2 {
		c.Nontrivial(fmt.Sprintf("neg|%v|%q", n.Prefer, n.Accept))
	}
	c.Case("neg", fmt.Sprintf("((%s, %s, %s) : neg_case)", vlib.CoqBool(n.Prefer), coqAccepts(cl), obs), n)
}

func runNeg(c *vlib.Ctx) {
	checkMTStrings()
	canon := func(cls []string) string {
		parts := make([]string, len(cls))
		for i, cl := range cls {
			parts[i] = mtStrings[cl][0]
		}
		return strings.Join(parts, ",")
	}
	var seqs [][]string // all class sequences of length 1..4
	var rec func(prefix []string, n int)
	rec = func(prefix []string, n int) {
		if len(prefix) > 0 {
			seqs = append(seqs, append([]string(nil), prefix...))
		}
		if len(prefix) == n {
			return
		}
		for _, cl := range mtClasses {
			rec(append(prefix, cl), n)
		}
	}
	rec(nil, 4)
	// by increasing size, so that the first failure reported is a smallest one
	for size := 0; size <= 4; size++ {
		for _, prefer := range []bool{false, true} {
			if size == 0 {
				doNeg(c, NegJ{Prefer: prefer, Accept: nil}, false)
				continue
			}
			for _, s := range seqs {
				if len(s) == size {
					doNeg(c, NegJ{Prefer: prefer, Accept: []string{canon(s)}}, false)
				}
			}
			// two values
			for _, a := range seqs {
				for _, b := range seqs {
					if len(a) <= 2 && len(b) <= 2 && len(a)+len(b) == size {
						doNeg(c, NegJ{Prefer: prefer, Accept: []string{canon(a), canon(b)}}, false)
					}
				}
			}
			if size == 3 {
				for _, a := range mtClasses {
					for _, b := range mtClasses {
						for _, d := range mtClasses {
							doNeg(c, NegJ{Prefer: prefer, Accept: []string{canon([]string{a}), canon([]string{b}), canon([]string{d})}}, false)
						}
					}
				}
			}
		}
	}
	// seeded: spelling variants, longer headers
	r := c.Rng.Fork("neg")
	for i := 0; i < c.Pick(500, 6000); i++ {
		nv := 1 + r.Intn(3)
		var acc []string
		for v := 0; v < nv; v++ {
			ne := 1 + r.Intn(5)
			var parts []string
			for e := 0; e < ne; e++ {
				cl := mtClasses[r.Intn(5)]
				if cl == "MTErr" && r.Intn(3) != 0 {
					cl = mtClasses[r.Intn(4)]
				}
				ss := mtStrings[cl]
				parts = append(parts, ss[r.Intn(len(ss))])
			}
			acc = append(acc, strings.Join(parts, ","))
		}
		doNeg(c, NegJ{Prefer: r.Bool(), Accept: acc}, false)
	}
}

// ---------------------------------------------------------------------------
// path

func runPath(c *vlib.Ctx) {
	emit := func(p string) {
		if !pathModelable(p) {
			c.Count("path:skipped-unicode-space")
			return
		}
		b := path.Base(p)
		t := path.Base(path.Dir(p))
		k := strings.TrimSpace(b)
		c.Eval()
		c.Count("path:cases")
		if strings.Contains(p, "..") || strings.Contains(p, "//") {
			c.Nontrivial("path|" + p)
		}
		c.Case("path", fmt.Sprintf("((%s, %s, %s, %s) : path_case)", vlib.CoqBytes([]byte(p)), vlib.CoqBytes([]byte(b)),
			vlib.CoqBytes([]byte(t)), vlib.CoqBytes([]byte(k))), map[string]string{"kind": "path", "path_hex": hx([]byte(p))})
	}
	// exhaustive: up to 4 segments over a small alphabet, rooted and not, with and without trailing slash
	segs := []string{"", ".", "..", "a", "multihash", " k ", "...", "a.b"}
	var rec func(prefix []string, n int)
	rec = func(prefix []string, n int) {
		if len(prefix) > 0 {
			j := strings.Join(prefix, "/")
			emit(j)
			emit("/" + j)
		}
		if len(prefix) == n {
			return
		}
		for _, s := range segs {
			rec(append(prefix, s), n)
		}
	}
	rec(nil, c.Pick(3, 4))
	emit("")
	emit("/")
	// seeded byte strings over an alphabet rich in separators
	r := c.Rng.Fork("path")
	alpha := []byte("//..a b\tQm1\n-_%\x00\xff\xc2")
	for i := 0; i < c.Pick(400, 4000); i++ {
		n := r.Intn(14)
		b := make([]byte, n)
		for j := range b {
			b[j] = alpha[r.Intn(len(alpha))]
		}
		emit(string(b))
	}
}

// ---------------------------------------------------------------------------
// mhd

func runMhd(c *vlib.Ctx) {
	emit := func(b []byte) {
		c.Eval()
		var obs string
		func() {
			defer func() {
				if r := recover(); r != nil {
					obs = "(Panic 0)"
					failOnce(c, "panic", "panic:multihash.Decode:"+hx(b), "multihash.Decode panicked", map[string]string{"kind": "mhd", "bytes": hx(b)})
				}
			}()
			dm, err := multihash.Decode(b)
			if err != nil {
				obs = "(Err 8)"
				c.Count("mhd:err")
			} else {
				obs = fmt.Sprintf("(Ok %d)", dm.Code)
				c.Count("mhd:ok")
				c.Nontrivial("mhd|" + hx(b))
			}
		}()
		c.Case("mhd", fmt.Sprintf("((%s, %s) : mhd_case)", vlib.CoqBytes(b), obs), map[string]string{"kind": "mhd", "bytes": hx(b)})
	}
	r := c.Rng.Fork("mhd")
	for i := 0; i < c.Pick(150, 1500); i++ {
		mh := genMultihash(r)
		emit(mh)
		if i%10 == 0 {
			for k := 0; k < len(mh); k++ {
				emit(mh[:k])
			}
			emit(append(append([]byte{}, mh...), 0))
			emit(append(append([]byte{}, mh...), r.Bytes(1+r.Intn(3))...))
		}
		m2 := append([]byte{}, mh...)
		m2[r.Intn(2)] ^= byte(1 << r.Intn(8))
		emit(m2)
	}
	for _, h := range []string{"", "00", "0000", "000100", "0001", "1200", "12", "8000", "800100", "808000",
		"ffffffffffffffffff0100", "ffffffffffffffff7f00", "ffffffffffffffffffff", "12ffffffff0f", "12ffffffff07",
		"1280808080080000", "12808080800800", "11ff", "1180", "118000", "11810001", "8100", "810000"} {
		b, _ := hex.DecodeString(h)
		emit(b)
	}
	// every two- and three-byte string over boundary bytes
	bb := []byte{0, 1, 2, 0x7f, 0x80, 0x81, 0xff}
	for _, x := range bb {
		for _, y := range bb {
			emit([]byte{x, y})
			for _, z := range bb {
				emit([]byte{x, y, z})
			}
		}
	}
	_ = varint.ToUvarint
}

// ---------------------------------------------------------------------------
// new

type NewJ struct {
	Kind    string   `json:"kind"`
	Prefer  bool     `json:"prefer_json"`
	MhType  string   `json:"mh_type,omitempty"`
	CidType string   `json:"cid_type,omitempty"`
	Accept  []string `json:"accept"`
	Path    string   `json:"path_hex"`
	Key     string   `json:"key"` // good | bad | none
	WantMh  string   `json:"want_mh,omitempty"`
	Form    string   `json:"form,omitempty"`
}

func doNew(c *vlib.Ctx, n NewJ, verbose bool) {
	n.Kind = "new"
	p := string(unhx(n.Path))
	o := directNew(n.Prefer, n.MhType, n.CidType, n.Accept, p)
	c.Eval()
	isCid := typeIsCid(p, n.MhType, n.CidType)
	mhT := n.MhType
	if mhT == "" {
		mhT = "multihash"
	}
	var obs string
	switch {
	case o.panicked != "":
		obs = "(Panic 0)"
	case o.err != nil:
		obs = fmt.Sprintf("(Err %d)", errClass(o.err.Error(), isCid))
	default:
		mode, pt := "JS", "PMh"
		if o.rw.IsND() {
			mode = "ND"
		}
		if o.rw.PathType() != mhT {
			pt = "PCid"
		}
		obs = fmt.Sprintf("(Ok (W %s %s %s %d))", mode, pt, vlib.CoqBytes(o.rw.Multihash()), o.rw.MultihashCode())
	}
	if verbose {
		fmt.Printf("rwriter.New path=%q Accept=%q preferJson=%v types=%q/%q: %s err=%v panic=%q\n", p, n.Accept, n.Prefer, n.MhType, n.CidType, obs, o.err, o.panicked)
	}
	accExp, _, _ := acceptExpectation(n.Accept, n.Prefer)
	key := asciiTrim(lastElem(p))
	switch {
	case o.panicked != "":
		failOnce(c, "panic", "panic:New:"+o.panicked, "rwriter.New panicked: "+o.panicked, n)
	case accExp == "bad" || n.Key == "bad":
		var ae *apierror.Error
		if o.err == nil {
			failOnce(c, "bad-not-4xx", fmt.Sprintf("bad-request-accepted:path=%q:accept=%q", p, n.Accept), "bad request accepted by rwriter.New", n)
		} else if !errors.As(o.err, &ae) || ae.Status() < 400 || ae.Status() > 499 {
			failOnce(c, "bad-apierror", "bad-request:not-an-api-error", "rwriter.New's error is not a 4xx API error", n)
		}
	case n.Key == "good":
		want := unhx(n.WantMh)
		if o.err != nil {
			failOnce(c, "key-rejected-"+formBase(n.Form), fmt.Sprintf("key:%s-rejected:%s", formBase(n.Form), key),
				fmt.Sprintf("valid %s key for multihash %s rejected: %v", n.Form, hx(want), o.err), n)
			if verbose {
				fmt.Println("ORACLE FAILURE: valid key rejected")
			}
		} else if !bytes.Equal(o.rw.Multihash(), want) {
			failOnce(c, "key-other-"+formBase(n.Form), fmt.Sprintf("key:%s-read-as-other-multihash:%s", formBase(n.Form), key),
				fmt.Sprintf("%s key for multihash %s was read as multihash %s", n.Form, hx(want), hx(o.rw.Multihash())), n)
			if verbose {
				fmt.Println("ORACLE FAILURE: key read as another multihash")
			}
		} else {
			if !bytes.Equal(o.rw.Cid().Hash(), want) {
				failOnce(c, "key-cid", "key:cid-hash-differs:"+hx(want), "ResponseWriter.Cid().Hash() differs from Multihash()", n)
			}
			if dm, err := multihash.Decode(want); err != nil || dm.Code != o.rw.MultihashCode() {
				failOnce(c, "key-code", "key:code-differs:"+hx(want), "MultihashCode() is not the code of the multihash", n)
			}
		}
	}
	c.Count("new:key:" + n.Key)
	c.Count("new:form:" + formBase(n.Form))
	c.Count("new:shape:" + formShape(n.Form))
	if n.Key == "good" {
		c.Nontrivial("new|" + n.Path + "|" + fmt.Sprint(n.Accept))
	}
	if !pathModelable(p) {
		c.Count("new:not-modelled:unicode-space-in-key")
		return
	}
	req, kt := coqRequest(n.Prefer, n.MhType, n.CidType, n.Accept, p)
	c.Case("new", fmt.Sprintf("((%s, %s, %s) : new_case)", req, vlib.CoqBytes([]byte(kt)), obs), n)
}

type pathShape struct {
	name string
	good bool
	f    func(t, k string) string
}

var pathShapes = []pathShape{
	{"plain", true, func(t, k string) string { return "/" + t + "/" + k }},
	{"prefix", true, func(t, k string) string { return "/x/y/" + t + "/" + k }},
	{"double-slash", true, func(t, k string) string { return "/" + t + "//" + k }},
	{"dot", true, func(t, k string) string { return "/" + t + "/./" + k }},
	{"dotdot-prefix", true, func(t, k string) string { return "/a/../" + t + "/" + k }},
	{"spaces", true, func(t, k string) string { return "/" + t + "/ " + k + "\t " }},
	{"trailing-slash", false, func(t, k string) string { return "/" + t + "/" + k + "/" }},
	{"extra-element", false, func(t, k string) string { return "/" + t + "/" + k + "/x" }},
	{"missing-type", false, func(t, k string) string { return "/" + k }},
	{"missing-key", false, func(t, k string) string { return "/" + t }},
	{"unknown-type", false, func(t, k string) string { return "/unknown/" + k }},
	{"upper-type", false, func(t, k string) string { return "/" + strings.ToUpper(t) + "/" + k }},
	{"dotdot-key", false, func(t, k string) string { return "/" + t + "/" + k + "/.." }},
	{"type-dotdot", false, func(t, k string) string { return "/" + t + "/../" + k }},
	{"root", false, func(t, k string) string { return "/" }},
}

// the resource type a key form belongs under
func formIsCid(form string) bool { return strings.HasPrefix(form, "cid") }

// "HEX/spaces" -> "hex", "spaces"
func formBase(form string) string {
	if i := strings.IndexByte(form, '/'); i >= 0 {
		form = form[:i]
	}
	if form == "HEX" {
		return "hex"
	}
	return form
}

func formShape(form string) string {
	if i := strings.IndexByte(form, '/'); i >= 0 {
		return form[i+1:]
	}
	return "-"
}

type keyReq struct {
	path   string
	mhType string
	cdType string
	key    string // good | bad | none
	want   []byte
	form   string
}

// keyRequests enumerates (path, expectation) over key forms, path shapes and resource types.
func keyRequests(r *vlib.Rand, nmh int, direct bool) []keyReq {
	var out []keyReq
	add := func(k keyCase, shape pathShape, mhT, cdT string) {
		t := "multihash"
		if mhT != "" {
			t = mhT
		}
		if formIsCid(k.Form) {
			t = "cid"
			if cdT != "" {
				t = cdT
			}
		}
		kr := keyReq{path: shape.f(t, k.Text), mhType: mhT, cdType: cdT, form: k.Form + "/" + shape.name, key: "bad"}
		if k.Want != nil && shape.good {
			kr.key, kr.want = "good", k.Want
			if strings.Contains(k.Text, "/") {
				// base64 multibase text can contain '/': such a CID cannot be written as one path element
				kr.key, kr.want, kr.form = "none", nil, k.Form+"-with-slash/"+shape.name
			}
		}
		if formIsCid(k.Form) && mhT != "" && mhT == cdT {
			// both resource types configured to the same element: the multihash case wins
			kr.key, kr.want = "none", nil
		}
		out = append(out, kr)
	}
	mhs := [][]byte{unhx(witnessSha1Hex), unhx(witnessAmbiguousHex)}
	for i := 0; i < nmh; i++ {
		mhs = append(mhs, genMultihash(r))
	}
	for i, mh := range mhs {
		for _, k := range keyForms(mh, r) {
			add(k, pathShapes[0], "", "")
			if i < 4 {
				for _, sh := range pathShapes[1:] {
					add(k, sh, "", "")
				}
				add(k, pathShapes[0], "mh", "c")
				add(k, pathShapes[0], "same", "same")
			}
		}
		// cross-form: a multihash text under the cid type and the reverse (no expectation,
		// except that a base58 sha2-256 multihash IS a CIDv0)
		b58 := base58.Encode(mh)
		out = append(out, keyReq{path: "/cid/" + hex.EncodeToString(mh), key: "bad", form: "hex-under-cid"})
		out = append(out, keyReq{path: "/multihash/" + keyForms(mh, r)[len(keyForms(mh, r))-3].Text, key: "none", form: "cid-under-multihash"})
		_ = b58
	}
	for _, k := range badKeys(r) {
		add(k, pathShapes[0], "", "")
		out = append(out, keyReq{path: "/cid/" + k.Text, key: "bad", form: k.Form + "/under-cid"})
	}
	if direct {
		// paths the HTTP client cannot send
		mh := mhs[2]
		out = append(out, keyReq{path: "multihash/" + base58.Encode(mh), key: "good", want: mh, form: "b58/no-leading-slash"})
		out = append(out, keyReq{path: "", key: "bad", form: "empty-path"})
		out = append(out, keyReq{path: base58.Encode(mh), key: "bad", form: "b58/bare"})
		out = append(out, keyReq{path: "*", key: "bad", form: "star"})
	}
	return out
}

// searchAmbiguous looks for more hex keys (without the digit 0) whose base58 reading is a
// multihash too: truncated digests of registered functions.
func searchAmbiguous(r *vlib.Rand, tries int) [][]byte {
	var out [][]byte
	pre := [][2]uint64{{0x16, 30}, {0x17, 19}, {0x56, 27}, {0x22, 21}}
	for i := 0; i < tries && len(out) < 3; i++ {
		p := pre[r.Intn(len(pre))]
		mh := mhOf(p[0], nzBytes(r, int(p[1])))
		if b, err := base58.Decode(hex.EncodeToString(mh)); err == nil {
			if _, err := multihash.Decode(b); err == nil {
				out = append(out, mh)
			}
		}
	}
	return out
}

func runNew(c *vlib.Ctx) {
	r := c.Rng.Fork("new")
	accs := [][]string{{"application/json"}, {"application/x-ndjson"}, {"*/*"}}
	for i, kr := range keyRequests(r, c.Pick(14, 120), true) {
		doNew(c, NewJ{Prefer: i%2 == 0, MhType: kr.mhType, CidType: kr.cdType, Accept: accs[i%3],
			Path: hx([]byte(kr.path)), Key: kr.key, WantMh: hx(kr.want), Form: kr.form}, false)
	}
	for _, mh := range searchAmbiguous(r, c.Pick(20000, 400000)) {
		c.Count("new:ambiguous-hex-found-by-search")
		doNew(c, NewJ{Prefer: true, Accept: []string{"application/json"}, Path: hx([]byte("/multihash/" + hex.EncodeToString(mh))),
			Key: "good", WantMh: hx(mh), Form: "hex/plain"}, false)
	}
	// negotiation error before key error, and combinations
	for _, acc := range [][]string{nil, {"text/html"}, {";bad"}, {"application/json"}} {
		for _, p := range []string{goodPath, "/unknown/x", "/multihash/!!!", "/cid/bafy"} {
			for _, prefer := range []bool{false, true} {
				key := "bad"
				var want []byte
				if p == goodPath {
					key = "good"
					b, _ := base58.Decode(lastElem(p))
					want = b
				}
				doNew(c, NewJ{Prefer: prefer, Accept: acc, Path: hx([]byte(p)), Key: key, WantMh: hx(want), Form: "combo"}, false)
			}
		}
	}
}

// ---------------------------------------------------------------------------
// e2e

var e2eAccepts = [][]string{
	nil,
	{"application/json"},
	{"application/x-ndjson"},
	{"*/*"},
	{"application/json;q=0.5, text/html"},
	{"application/x-ndjson;q=0.9, application/json;q=0.1"},
	{"application/json, application/x-ndjson"},
	{"application/x-ndjson, */*"},
	{"*/*, application/x-ndjson"},
	{"text/html, */*;q=0.1"},
	{"text/html", "application/json"},
	{"application/x-ndjson", "application/json", "text/html"},
	{"application/json; charset=utf-8"},
	{"APPLICATION/X-NDJSON"},
	{"application/json;q=0"},
	{"text/html"},
	{"application/*"},
	{"text/html, application/xml;q=0.9"},
	{""},
	{";bad"},
	{"application/json;;"},
	{"application/json, ;bad"},
	{"application/x-ndjson,application/json,;bad"},
	{"*/*,;bad"},
	{"application/x-ndjson,*/*, ;bad"},
	{"application/json", ";bad"},
	{"application/json", "application/x-ndjson", ";bad"},
	{"a/b/c"},
	{"application/json; x=\"a,b\""},
	{"application/x-ndjson", "*/*"},
}

func runE2E(c *vlib.Ctx, s *server) {
	r := c.Rng.Fork("e2e")
	shapes := shapeResults()
	randList := func(n int, malformed bool) []ResJ {
		var rs []ResJ
		for i := 0; i < n; i++ {
			rs = append(rs, genResult(r, false))
		}
		if malformed && n > 0 {
			rs[r.Intn(n)] = genResult(r, true)
		}
		return rs
	}
	// 1. the real client, as it is
	for _, prefer := range []bool{false, true} {
		mh := genMultihash(r)
		runScn(c, s, Scn{Prefer: prefer, Client: true, Mh: hx(mh), Results: nil}, false)
		for _, sh := range shapes {
			runScn(c, s, Scn{Prefer: prefer, Client: true, Mh: hx(genMultihash(r)), Results: []ResJ{sh}}, false)
		}
		for i := 0; i < c.Pick(40, 600); i++ {
			runScn(c, s, Scn{Prefer: prefer, Client: true, Mh: hx(genMultihash(r)), Results: randList(2+r.Intn(4), false)}, false)
		}
		for i := 0; i < c.Pick(8, 80); i++ {
			runScn(c, s, Scn{Prefer: prefer, Client: true, Mh: hx(genMultihash(r)), Results: randList(1+r.Intn(4), true)}, false)
		}
		runScn(c, s, Scn{Prefer: prefer, Client: true, Mh: hx(genMultihash(r)), Results: shapes}, false)
	}
	// 2. Accept headers x preferJson x result counts (raw requests)
	mh := mhOf(multihash.SHA2_256, r.Bytes(32))
	p := "/multihash/" + base58.Encode(mh)
	for _, acc := range e2eAccepts {
		for _, prefer := range []bool{false, true} {
			for _, n := range []int{0, 1, 3} {
				runScn(c, s, Scn{Prefer: prefer, Accept: acc, Path: hx([]byte(p)), Results: randList(n, false),
					Key: "good", WantMh: hx(mh), Form: "b58/plain"}, false)
			}
		}
	}
	// every result shape alone, streaming
	for _, sh := range shapes {
		runScn(c, s, Scn{Prefer: false, Accept: []string{"application/x-ndjson"}, Path: hx([]byte(p)), Results: []ResJ{sh},
			Key: "good", WantMh: hx(mh), Form: "b58/plain"}, false)
	}
	runScn(c, s, Scn{Prefer: false, Accept: []string{"application/x-ndjson"}, Path: hx([]byte(p)), Results: shapes,
		Key: "good", WantMh: hx(mh), Form: "b58/plain"}, false)
	for i := 0; i < c.Pick(10, 100); i++ {
		runScn(c, s, Scn{Prefer: r.Bool(), Accept: []string{"application/x-ndjson"}, Path: hx([]byte(p)), Results: randList(1+r.Intn(5), true),
			Key: "good", WantMh: hx(mh), Form: "b58/plain"}, false)
	}
	// 3. key forms and path shapes
	accs := [][]string{{"application/json"}, {"application/x-ndjson"}, {"*/*"}}
	for i, kr := range keyRequests(r, c.Pick(6, 60), false) {
		if !strings.HasPrefix(kr.path, "/") {
			continue
		}
		runScn(c, s, Scn{Prefer: i%2 == 1, MhType: kr.mhType, CidType: kr.cdType, Accept: accs[i%3], Path: hx([]byte(kr.path)),
			Results: randList([]int{2, 0, 1}[i%3], false), Key: kr.key, WantMh: hx(kr.want), Form: kr.form}, false)
	}
	// 4. seeded combinations
	krs := keyRequests(r, 3, false)
	for i := 0; i < c.Pick(150, 3000); i++ {
		kr := krs[r.Intn(len(krs))]
		if !strings.HasPrefix(kr.path, "/") {
			continue
		}
		acc := e2eAccepts[r.Intn(len(e2eAccepts))]
		runScn(c, s, Scn{Prefer: r.Bool(), MhType: kr.mhType, CidType: kr.cdType, Accept: acc, Path: hx([]byte(kr.path)),
			Results: randList(r.Intn(6), r.Intn(8) == 0), Key: kr.key, WantMh: hx(kr.want), Form: kr.form}, false)
	}
}

// ---------------------------------------------------------------------------
// batch

type BatchItem struct {
	Mh      string `json:"mh"`
	Results []ResJ `json:"results"`
}

type BatchJ struct {
	Kind   string      `json:"kind"`
	Prefer bool        `json:"prefer_json"`
	Items  []BatchItem `json:"items"`
}

func doBatch(c *vlib.Ctx, s *server, b BatchJ, verbose bool) {
	b.Kind = "batch"
	cfg := srvConfig{prefer: b.Prefer, byMh: map[string][]ResJ{}}
	var mhs []multihash.Multihash
	for _, it := range b.Items {
		mh := unhx(it.Mh)
		cfg.byMh[string(mh)] = it.Results
		mhs = append(mhs, mh)
	}
	// the same multihash listed twice holds one result list on the server: the last one
	for i := range b.Items {
		b.Items[i].Results = cfg.byMh[string(unhx(b.Items[i].Mh))]
	}
	s.configure(cfg)
	cl, err := client.New(s.ts.URL, client.WithClient(s.ts.Client()))
	if err != nil {
		panic(err)
	}
	resp, ferr := client.FindBatch(context.Background(), cl, mhs)
	seen := s.takeSeen()
	c.Eval()
	if verbose {
		fmt.Printf("FindBatch over %d multihashes, preferJson=%v: resp=%v err=%v (%d requests)\n", len(mhs), b.Prefer, resp, ferr, len(seen))
	}
	// oracle: the non-empty entries, in request order, each with its multihash and results
	wf := true
	for _, it := range b.Items {
		wf = wf && allWf(it.Results)
	}
	for _, sn := range seen {
		if sn.panicked != "" {
			failOnce(c, "panic", "panic:handler:"+sn.panicked, "the handler panicked", b)
		}
	}
	if wf {
		if ferr != nil {
			failOnce(c, "batch-error", fmt.Sprintf("batch:client-error:preferJson=%v:%s", b.Prefer, ferr), "client.FindBatch failed: "+ferr.Error(), b)
			if verbose {
				fmt.Println("ORACLE FAILURE: FindBatch returned an error")
			}
		} else {
			i := 0
			ok := true
			for _, it := range b.Items {
				if len(it.Results) == 0 {
					continue
				}
				if i >= len(resp.MultihashResults) || !bytes.Equal(resp.MultihashResults[i].Multihash, unhx(it.Mh)) ||
					!sameResults(buildAll(it.Results), resp.MultihashResults[i].ProviderResults) {
					ok = false
					break
				}
				i++
			}
			if !ok || i != len(resp.MultihashResults) {
				failOnce(c, "batch-results", fmt.Sprintf("batch:results-differ:%d-multihashes", len(b.Items)), "FindBatch returned other results than were written", b)
			}
		}
	}
	c.Count(fmt.Sprintf("batch:size:%d", len(b.Items)))
	if len(b.Items) >= 2 {
		c.Nontrivial(fmt.Sprintf("batch|%v|%v", b.Prefer, b.Items))
	}
	// the Coq case: one (request, results) per request the server saw, in order.  The
	// client stops at the first error, so the server may have seen fewer requests.
	var it []string
	for i, sn := range seen {
		if i >= len(b.Items) {
			break
		}
		req, _ := coqRequest(b.Prefer, "", "", sn.accepts, sn.path)
		it = append(it, fmt.Sprintf("(%s, %s)", req, coqResList(b.Items[i].Results)))
	}
	c.Case("batch", fmt.Sprintf("((%s, %s) : batch_case)", vlib.CoqList(it), coqFindResp(resp, ferr)), b)
}

func runBatch(c *vlib.Ctx, s *server) {
	r := c.Rng.Fork("batch")
	for i := 0; i < c.Pick(120, 1500); i++ {
		n := r.Intn(5)
		if i < 10 {
			n = i % 5
		}
		b := BatchJ{Prefer: i%2 == 0}
		for j := 0; j < n; j++ {
			var rs []ResJ
			k := r.Intn(4)
			if r.Intn(3) == 0 {
				k = 0
			}
			for q := 0; q < k; q++ {
				rs = append(rs, genResult(r, r.Intn(25) == 0))
			}
			b.Items = append(b.Items, BatchItem{Mh: hx(genMultihash(r)), Results: rs})
		}
		if i%17 == 3 && len(b.Items) >= 2 {
			b.Items[1].Mh = b.Items[0].Mh // the same multihash twice
			b.Items[1].Results = b.Items[0].Results
		}
		doBatch(c, s, b, false)
	}
}

// ---------------------------------------------------------------------------
// apierr

type ApiErrJ struct {
	Kind   string `json:"kind"`
	Shape  string `json:"shape"` // nil | plain | api | api-nil | wrapped
	Msg    string `json:"msg_hex"`
	Status int    `json:"status"`
}

func (a ApiErrJ) build() error {
	msg := string(unhx(a.Msg))
	switch a.Shape {
	case "nil":
		return nil
	case "plain":
		return errors.New(msg)
	case "api":
		return apierror.New(errors.New(msg), a.Status)
	case "api-nil":
		return apierror.New(nil, a.Status)
	case "wrapped":
		return fmt.Errorf("%s: %w", msg, apierror.New(errors.New("inner"), a.Status))
	}
	panic("shape " + a.Shape)
}

func coqAerr(e error) string {
	if e == nil {
		return "None"
	}
	st := "None"
	var ae *apierror.Error
	if errors.As(e, &ae) {
		st = "(Some " + vlib.CoqZ(int64(ae.Status())) + ")"
	}
	return fmt.Sprintf("(Some (AE %s %s))", vlib.CoqBytes([]byte(e.Error())), st)
}

func doApiErr(c *vlib.Ctx, a ApiErrJ, verbose bool) {
	a.Kind = "apierr"
	e := a.build()
	var data []byte
	var back error
	var pan string
	func() {
		defer func() {
			if r := recover(); r != nil {
				pan = fmt.Sprint(r)
			}
		}()
		data = apierror.EncodeError(e)
		back = apierror.DecodeError(data)
	}()
	c.Eval()
	if verbose {
		fmt.Printf("EncodeError(%v) = %q; DecodeError = %v panic=%q\n", e, data, back, pan)
	}
	if pan != "" {
		failOnce(c, "panic", "panic:apierror:"+pan, "EncodeError/DecodeError panicked", a)
		return
	}
	valid := e == nil || utf8.ValidString(e.Error())
	if !valid {
		c.Count("apierr:invalid-utf8-message (coerced by encoding/json; outside the round-trip statement)")
		return
	}
	// direct oracle: status and message preserved
	status := func(x error) int {
		var ae *apierror.Error
		if errors.As(x, &ae) {
			return ae.Status()
		}
		return 0
	}
	switch {
	case e == nil:
		if back != nil || data != nil {
			failOnce(c, "apierr", "apierr:nil-not-nil", "a nil error does not stay nil", a)
		}
	case back == nil:
		failOnce(c, "apierr", "apierr:lost:"+a.Shape, "the error was lost", a)
	case back.Error() != e.Error() || status(back) != status(e):
		failOnce(c, "apierr", fmt.Sprintf("apierr:changed:%s:status=%d:msg=%q", a.Shape, a.Status, e.Error()),
			fmt.Sprintf("message/status changed: %q/%d -> %q/%d", e.Error(), status(e), back.Error(), status(back)), a)
		if verbose {
			fmt.Println("ORACLE FAILURE: API error changed through EncodeError/DecodeError")
		}
	}
	c.Count("apierr:" + a.Shape)
	if e != nil && status(e) != 0 && e.Error() != "" {
		c.Nontrivial("apierr|" + a.Shape + "|" + a.Msg + fmt.Sprint(a.Status))
	}
	tree := "None"
	if data != nil {
		t, err := wireTree(data, "errmsg")
		if err != nil {
			failOnce(c, "wire", "wire:apierror:"+err.Error(), "EncodeError output is not an ErrorMessage object", a)
			return
		}
		tree = "(Some " + t + ")"
	}
	c.Case("apierr", fmt.Sprintf("((%s, %s, (Ok %s)) : apierr_case)", coqAerr(e), tree, coqAerr(back)), a)
}

func runApiErr(c *vlib.Ctx) {
	r := c.Rng.Fork("apierr")
	msgs := []string{"", "x", "not found", "input isn't valid multihash", "a \"quoted\" \\ back", "<html>&amp;", "line\nbreak\ttab\x00nul\x1f",
		"unicode é世界   \U0001F600", " padded ", "404 Not Found", strings.Repeat("long ", 200), "\xff\xfe invalid utf8", "{\"Message\":\"x\"}"}
	statuses := []int{0, 1, 200, 400, 404, 418, 499, 500, 503, 999, 1000, -1, -400, 1 << 40}
	doApiErr(c, ApiErrJ{Shape: "nil"}, false)
	for _, m := range msgs {
		doApiErr(c, ApiErrJ{Shape: "plain", Msg: hx([]byte(m))}, false)
		for _, st := range statuses {
			doApiErr(c, ApiErrJ{Shape: "api", Msg: hx([]byte(m)), Status: st}, false)
		}
		doApiErr(c, ApiErrJ{Shape: "wrapped", Msg: hx([]byte(m)), Status: statuses[r.Intn(len(statuses))]}, false)
	}
	for _, st := range statuses {
		doApiErr(c, ApiErrJ{Shape: "api-nil", Status: st}, false)
	}
	for i := 0; i < c.Pick(150, 2000); i++ {
		n := r.Intn(12)
		var sb strings.Builder
		for j := 0; j < n; j++ {
			sb.WriteRune(rune([]int{0x20, 0x22, 0x5c, 0x3c, 0x7f, 0xe9, 0x2028, 0x1f600, 0x61, 0x0a}[r.Intn(10)]))
		}
		doApiErr(c, ApiErrJ{Shape: []string{"plain", "api", "wrapped"}[r.Intn(3)], Msg: hx([]byte(sb.String())), Status: r.Intn(1200) - 100}, false)
	}
}

// ---------------------------------------------------------------------------
// httperr: the text/plain form rwriter's errors actually travel in

func runHTTPErr(c *vlib.Ctx) {
	r := c.Rng.Fork("httperr")
	emit := func(msg string, status int) {
		rec := httptest.NewRecorder()
		http.Error(rec, msg, 400) // the body does not depend on the status
		body := rec.Body.Bytes()
		if strings.TrimSpace(string(body)) != asciiTrim(string(body)) {
			c.Count("httperr:skipped-unicode-space")
			return
		}
		c.Eval()
		err := apierror.FromResponse(status, body)
		obs := "None"
		if err != nil {
			m := "None"
			st := 0
			var ae *apierror.Error
			if errors.As(err, &ae) {
				st = ae.Status()
				if ae.Unwrap() != nil {
					m = "(Some " + vlib.CoqBytes([]byte(ae.Unwrap().Error())) + ")"
				}
			} else {
				m = "(Some " + vlib.CoqBytes([]byte(err.Error())) + ")"
			}
			obs = fmt.Sprintf("(Some (%s, %s))", m, vlib.CoqZ(int64(st)))
		}
		// oracle: a trimmed non-empty message and a non-zero status survive
		if msg != "" && msg == asciiTrim(msg) && status != 0 {
			var ae *apierror.Error
			if !errors.As(err, &ae) || ae.Status() != status || ae.Error() != msg {
				failOnce(c, "httperr", fmt.Sprintf("httperr:changed:status=%d:msg=%q", status, msg), "http.Error + FromResponse changed the API error", map[string]interface{}{"kind": "httperr", "msg": msg, "status": status})
			}
		}
		c.Count("httperr:cases")
		c.Case("httperr", fmt.Sprintf("((%s, %s, %s) : httperr_case)", vlib.CoqBytes([]byte(msg)), vlib.CoqZ(int64(status)), obs),
			map[string]interface{}{"kind": "httperr", "msg_hex": hx([]byte(msg)), "status": status})
	}
	msgs := []string{"", "x", "invalid Accept header", "accept header must be specified", "unsupported resource type", "404 Not Found",
		" padded ", "\n", "two\nlines", "tab\t", "\x00"}
	for _, m := range msgs {
		for _, st := range []int{0, 400, 404, 500, -1, 99999} {
			emit(m, st)
		}
	}
	for i := 0; i < c.Pick(100, 1000); i++ {
		n := r.Intn(10)
		b := make([]byte, n)
		for j := range b {
			const alpha = " \t\nab:\r\x0b\x0c\x01~"
			b[j] = alpha[r.Intn(len(alpha))]
		}
		emit(string(b), []int{0, 400, 404, 418, 503}[r.Intn(5)])
	}
}
