package main

import (
	"bytes"
	"encoding/base32"
	"encoding/base64"
	"encoding/hex"
	"fmt"
	"math/big"
	"strings"

	"github.com/ipfs/go-cid"
	"github.com/ipni/go-libipni/find/model"
	"github.com/libp2p/go-libp2p/core/crypto"
	"github.com/libp2p/go-libp2p/core/peer"
	"github.com/mr-tron/base58"
	"github.com/multiformats/go-multiaddr"
	"github.com/multiformats/go-multihash"

	"verif/harness/vlib"
)

// ---------------------------------------------------------------------------
// Peer IDs and multiaddrs are opaque to the Coq model: a rank (index in these pools)
// and a flag saying whether the text the JSON encoder writes is accepted back by the
// decoder.  The flag is computed here by calling the real functions.

type peerEnt struct {
	id   peer.ID
	ok   bool
	text string
}

type addrEnt struct {
	a    multiaddr.Multiaddr
	ok   bool
	text string
}

var (
	peers      []peerEnt
	peerByText = map[string]int{}
	peerByID   = map[string]int{}
	addrs      []addrEnt
	addrByText = map[string]int{}
)

type rngReader struct{ r *vlib.Rand }

func (r rngReader) Read(p []byte) (int, error) {
	copy(p, r.r.Bytes(len(p)))
	return len(p), nil
}

func initPools(c *vlib.Ctx) {
	add := func(id peer.ID) {
		text := id.String()
		back, err := peer.Decode(text)
		e := peerEnt{id: id, ok: err == nil && back == id, text: text}
		if _, dup := peerByText[text]; dup {
			panic("duplicate peer text " + text)
		}
		peerByText[text] = len(peers)
		peerByID[string(id)] = len(peers)
		peers = append(peers, e)
	}
	add(peer.ID("")) // rank 0: the zero peer ID (not decodable)
	for _, s := range []string{
		"12D3KooWKRyzVWW6ChFjQjK4miCty85Niy48tpPV95XdKu1BcvMA",
		"QmYyQSo1c1Ym7orWxLYvCrM2EmxFTANf8wXmmE7DWjhx5N",
	} {
		id, err := peer.Decode(s)
		if err != nil {
			panic(err)
		}
		add(id)
	}
	kr := rngReader{vlib.NewRand(77)} // fixed: the pool does not depend on the run seed
	for i := 0; i < 4; i++ {
		_, pub, err := crypto.GenerateEd25519Key(kr)
		if err != nil {
			panic(err)
		}
		id, err := peer.IDFromPublicKey(pub)
		if err != nil {
			panic(err)
		}
		add(id)
	}
	add(peer.ID("not-a-multihash")) // last rank: arbitrary bytes cast to a peer ID

	addA := func(a multiaddr.Multiaddr) {
		text := a.String()
		back, err := multiaddr.NewMultiaddr(text)
		e := addrEnt{a: a, ok: err == nil && back.Equal(a), text: text}
		if _, dup := addrByText[text]; dup {
			panic("duplicate addr text " + text)
		}
		addrByText[text] = len(addrs)
		addrs = append(addrs, e)
	}
	addA(nil) // rank 0: a nil multiaddr (text "", not decodable)
	for _, s := range []string{
		"/ip4/1.2.3.4/tcp/80",
		"/ip4/127.0.0.1/tcp/3104/http",
		"/dns4/example.com/tcp/443/https",
		"/ip6/::1/udp/4001/quic-v1",
		"/dns/a.example/tcp/80/http/http-path/x%2Fy%20z",
		"/ip4/8.8.8.8/udp/1",
		"/ip4/10.0.0.1/tcp/1/p2p/12D3KooWKRyzVWW6ChFjQjK4miCty85Niy48tpPV95XdKu1BcvMA",
		"/dns6/xn--bcher-kva.example/tcp/65535/tls/ws",
	} {
		a, err := multiaddr.NewMultiaddr(s)
		if err != nil {
			panic(err)
		}
		addA(a)
	}
	if peers[0].ok || addrs[0].ok {
		panic("zero peer ID / nil multiaddr unexpectedly decodable")
	}
	for i := 1; i < len(peers)-1; i++ {
		if !peers[i].ok {
			panic("pool peer not decodable: " + peers[i].text)
		}
	}
	for i := 1; i < len(addrs); i++ {
		if !addrs[i].ok {
			panic("pool addr not decodable: " + addrs[i].text)
		}
	}
}

// ---------------------------------------------------------------------------
// Results

// ResJ is one model.ProviderResult as written by the handler (replayable).
type ResJ struct {
	Ctx   *string `json:"ctx"`             // hex; null = nil slice
	Md    *string `json:"md"`              // hex; null = nil slice
	Prov  int     `json:"prov"`            // peer rank; -1 = nil Provider
	Addrs []int   `json:"addrs,omitempty"` // addr ranks
}

func hx(b []byte) string { return hex.EncodeToString(b) }

func unhx(s string) []byte {
	b, err := hex.DecodeString(s)
	if err != nil {
		panic(err)
	}
	if b == nil {
		b = []byte{}
	}
	return b
}

func (r ResJ) build() model.ProviderResult {
	var pr model.ProviderResult
	if r.Ctx != nil {
		pr.ContextID = unhx(*r.Ctx)
	}
	if r.Md != nil {
		pr.Metadata = unhx(*r.Md)
	}
	if r.Prov >= 0 {
		ai := &peer.AddrInfo{ID: peers[r.Prov].id}
		for _, a := range r.Addrs {
			ai.Addrs = append(ai.Addrs, addrs[a].a)
		}
		pr.Provider = ai
	}
	return pr
}

func (r ResJ) wf() bool {
	if r.Prov < 0 {
		return true
	}
	if !peers[r.Prov].ok {
		return false
	}
	for _, a := range r.Addrs {
		if !addrs[a].ok {
			return false
		}
	}
	return true
}

func allWf(rs []ResJ) bool {
	for _, r := range rs {
		if !r.wf() {
			return false
		}
	}
	return true
}

func coqMbytes(b []byte) string {
	if b == nil {
		return "None"
	}
	return "(Some " + vlib.CoqBytes(b) + ")"
}

func coqAddr(rank int) string {
	return fmt.Sprintf("(A %d %s)", rank, vlib.CoqBool(addrs[rank].ok))
}

func (r ResJ) coq() string {
	var ctx, md []byte
	if r.Ctx != nil {
		ctx = unhx(*r.Ctx)
	}
	if r.Md != nil {
		md = unhx(*r.Md)
	}
	prov := "None"
	if r.Prov >= 0 {
		var as []string
		for _, a := range r.Addrs {
			as = append(as, coqAddr(a))
		}
		prov = fmt.Sprintf("(Some (PI %d %s %s))", r.Prov, vlib.CoqBool(peers[r.Prov].ok), vlib.CoqList(as))
	}
	return fmt.Sprintf("(PR %s %s %s)", coqMbytes(ctx), coqMbytes(md), prov)
}

func coqResList(rs []ResJ) string {
	it := make([]string, len(rs))
	for i, r := range rs {
		it[i] = r.coq()
	}
	return vlib.CoqList(it)
}

// a decoded model.ProviderResult as a Coq presult (nil-ness as Go decoded it)
func coqDecoded(pr model.ProviderResult) string {
	prov := "None"
	if pr.Provider != nil {
		rank, ok := peerByID[string(pr.Provider.ID)]
		if !ok {
			rank = 999
		}
		var as []string
		for _, a := range pr.Provider.Addrs {
			ar, ok := addrByText[a.String()]
			if !ok {
				as = append(as, "(A 999 true)")
				continue
			}
			as = append(as, coqAddr(ar))
		}
		pok := "true"
		if rank < len(peers) {
			pok = vlib.CoqBool(peers[rank].ok)
		}
		prov = fmt.Sprintf("(Some (PI %d %s %s))", rank, pok, vlib.CoqList(as))
	}
	return fmt.Sprintf("(PR %s %s %s)", coqMbytes(pr.ContextID), coqMbytes(pr.Metadata), prov)
}

// sameResult is the property's notion of "the same result": context ID and metadata
// equal as byte strings (nil = empty), provider nil-ness, peer ID, and the addresses in
// order.
func sameResult(w, g model.ProviderResult) bool {
	if !bytes.Equal(w.ContextID, g.ContextID) || !bytes.Equal(w.Metadata, g.Metadata) {
		return false
	}
	if (w.Provider == nil) != (g.Provider == nil) {
		return false
	}
	if w.Provider == nil {
		return true
	}
	if w.Provider.ID != g.Provider.ID || len(w.Provider.Addrs) != len(g.Provider.Addrs) {
		return false
	}
	for i := range w.Provider.Addrs {
		if !w.Provider.Addrs[i].Equal(g.Provider.Addrs[i]) {
			return false
		}
	}
	return true
}

func sameResults(w, g []model.ProviderResult) bool {
	if len(w) != len(g) {
		return false
	}
	for i := range w {
		if !sameResult(w[i], g[i]) {
			return false
		}
	}
	return true
}

// genResult draws one result.  malformed: allow the zero peer ID / nil multiaddr.
func genResult(r *vlib.Rand, malformed bool) ResJ {
	var out ResJ
	bs := func() *string {
		switch r.Intn(8) {
		case 0:
			return nil
		case 1:
			s := ""
			return &s
		case 2:
			s := hx([]byte{0})
			return &s
		case 3:
			s := hx([]byte{0xff, 0xfe, 0x00, 0x0a, 0x22, 0x5c, 0x3c})
			return &s
		case 4:
			s := hx([]byte("ctx-" + fmt.Sprint(r.Intn(5))))
			return &s
		case 5:
			s := hx(r.Bytes(1 + r.Intn(3)))
			return &s
		default:
			s := hx(r.Bytes(r.Intn(40)))
			return &s
		}
	}
	out.Ctx = bs()
	out.Md = bs()
	switch k := r.Intn(10); {
	case k == 0:
		out.Prov = -1
	default:
		out.Prov = 1 + r.Intn(len(peers)-2)
		n := r.Intn(4)
		for i := 0; i < n; i++ {
			out.Addrs = append(out.Addrs, 1+r.Intn(len(addrs)-1))
		}
	}
	if malformed {
		switch r.Intn(3) {
		case 0:
			out.Prov = 0
		case 1:
			out.Prov = len(peers) - 1
		default:
			if out.Prov < 0 {
				out.Prov = 1
			}
			out.Addrs = append(out.Addrs, 0)
			if r.Bool() && len(out.Addrs) > 1 {
				out.Addrs[0], out.Addrs[len(out.Addrs)-1] = out.Addrs[len(out.Addrs)-1], out.Addrs[0]
			}
		}
	}
	return out
}

// the fixed list every result-shape appears in (nil / empty / binary x provider shapes)
func shapeResults() []ResJ {
	e := ""
	z := hx([]byte{0})
	b := hx([]byte{0xff, 0x00, 0x22, 0x0a})
	var out []ResJ
	for _, ctx := range []*string{nil, &e, &z, &b} {
		for _, md := range []*string{nil, &e, &b} {
			out = append(out, ResJ{Ctx: ctx, Md: md, Prov: -1})
			out = append(out, ResJ{Ctx: ctx, Md: md, Prov: 1})
			out = append(out, ResJ{Ctx: ctx, Md: md, Prov: 2, Addrs: []int{1}})
			out = append(out, ResJ{Ctx: ctx, Md: md, Prov: 3, Addrs: []int{2, 3, 2}})
		}
	}
	return out
}

// ---------------------------------------------------------------------------
// Keys

type keyCase struct {
	Text string // key text as it appears in the path (before percent-encoding)
	Want []byte // the multihash this text denotes according to its form; nil: not a key
	Form string // b58 | hex | HEX | hexmix | cidv0 | cidv1-<base> | bad-<why>
}

func mhOf(code uint64, digest []byte) []byte {
	b, err := multihash.Encode(digest, code)
	if err != nil {
		panic(err)
	}
	return b
}

// nibbles 1..f only
func nzBytes(r *vlib.Rand, n int) []byte {
	b := make([]byte, n)
	for i := range b {
		b[i] = byte((1+r.Intn(15))<<4 | (1 + r.Intn(15)))
	}
	return b
}

var b36alphabet = "0123456789abcdefghijklmnopqrstuvwxyz"

func base36(b []byte) string {
	var zeros int
	for zeros < len(b) && b[zeros] == 0 {
		zeros++
	}
	n := new(big.Int).SetBytes(b)
	s := ""
	if n.Sign() != 0 {
		s = n.Text(36)
	}
	return strings.Repeat("0", zeros) + s
}

// multibase text of raw CID bytes, written out here (go-multibase is not imported)
func multibaseText(base string, raw []byte) string {
	switch base {
	case "b":
		return "b" + strings.ToLower(base32.StdEncoding.WithPadding(base32.NoPadding).EncodeToString(raw))
	case "B":
		return "B" + base32.StdEncoding.WithPadding(base32.NoPadding).EncodeToString(raw)
	case "z":
		return "z" + base58.Encode(raw)
	case "f":
		return "f" + hex.EncodeToString(raw)
	case "F":
		return "F" + strings.ToUpper(hex.EncodeToString(raw))
	case "k":
		return "k" + base36(raw)
	case "m":
		return "m" + base64.RawStdEncoding.EncodeToString(raw)
	case "u":
		return "u" + base64.RawURLEncoding.EncodeToString(raw)
	}
	panic("base " + base)
}

var cidBases = []string{"b", "B", "z", "f", "F", "k", "m", "u"}

// every text form of one multihash
func keyForms(mh []byte, r *vlib.Rand) []keyCase {
	out := []keyCase{
		{Text: base58.Encode(mh), Want: mh, Form: "b58"},
		{Text: hex.EncodeToString(mh), Want: mh, Form: "hex"},
		{Text: strings.ToUpper(hex.EncodeToString(mh)), Want: mh, Form: "HEX"},
	}
	dm, err := multihash.Decode(mh)
	if err != nil {
		panic(err)
	}
	if dm.Code == multihash.SHA2_256 && dm.Length == 32 {
		out = append(out, keyCase{Text: cid.NewCidV0(mh).String(), Want: mh, Form: "cidv0"})
	}
	codec := []uint64{cid.Raw, cid.DagProtobuf, cid.DagCBOR}[r.Intn(3)]
	raw := cid.NewCidV1(codec, mh).Bytes()
	for _, b := range cidBases {
		out = append(out, keyCase{Text: multibaseText(b, raw), Want: mh, Form: "cidv1-" + b})
	}
	return out
}

// hex text without the digit 0 (so that it is base58 text too)
func noZeroHex(s string) bool { return !strings.ContainsRune(s, '0') }

// fixed witnesses kept in every run
const (
	// sha1 multihash whose hex form has no digit 0
	witnessSha1Hex = "11141224f553d7fdb43b526ad988132299dc72f2ac7f"
	// sha3-256 truncated to 30 bytes whose hex form base58-decodes to a valid identity multihash
	witnessAmbiguousHex = "161eafe7a3b4ccd8b24eaf247b36416c1bda89a8f456fd111e9f48ff62fb13c6"
)

func genMultihash(r *vlib.Rand) []byte {
	switch r.Intn(12) {
	case 0:
		return mhOf(multihash.IDENTITY, r.Bytes(r.Intn(12)))
	case 1:
		return mhOf(multihash.SHA1, r.Bytes(20))
	case 2:
		return mhOf(multihash.SHA2_512, r.Bytes(64))
	case 3:
		return mhOf(multihash.SHA3_224, r.Bytes(28))
	case 4:
		return mhOf(0xb220, r.Bytes(32)) // blake2b-256: two-byte code varint
	case 5:
		return mhOf(0x300000, r.Bytes(1+r.Intn(40))) // private-use code, three-byte varint
	case 6:
		return mhOf(multihash.SHA1, nzBytes(r, 20)) // hex without 0
	case 7:
		return mhOf(multihash.SHA3_224, nzBytes(r, 28))
	default:
		return mhOf(multihash.SHA2_256, r.Bytes(32))
	}
}

func badKeys(r *vlib.Rand) []keyCase {
	mh := mhOf(multihash.SHA2_256, r.Bytes(32))
	h := hex.EncodeToString(mh)
	b := base58.Encode(mh)
	c1 := cid.NewCidV1(cid.Raw, mh).String()
	return []keyCase{
		{Text: "!!!", Form: "bad-alphabet"},
		{Text: "aflk324vecr-903r-0", Form: "bad-alphabet"},
		{Text: h[:len(h)-1], Form: "bad-odd-hex"},
		{Text: h[:len(h)-2], Form: "bad-truncated-hex"},
		{Text: h + "00", Form: "bad-extended-hex"},
		{Text: b[:len(b)-3], Form: "bad-truncated-b58"},
		{Text: base58.Encode(r.Bytes(20)), Form: "bad-b58-garbage"},
		{Text: base58.Encode([]byte{0x12}), Form: "bad-b58-one-byte"},
		{Text: "0x" + h, Form: "bad-0x-prefix"},
		{Text: c1[:len(c1)-4], Form: "bad-truncated-cid"},
		{Text: "Qm" + strings.Repeat("1", 44), Form: "bad-qm"},
		{Text: "bafy", Form: "bad-short-cid"},
		{Text: "ffffffffffffffffffffffffffff", Form: "bad-varint-overflow"},
		{Text: hex.EncodeToString([]byte{0x12, 0xff, 0xff, 0xff, 0xff, 0x0f, 0x01}), Form: "bad-huge-length"},
		{Text: strings.Repeat("1", 3000), Form: "bad-long"},
		{Text: ".", Form: "bad-dot"},
	}
}
