package main

// Oracle tables: the SHA-256 / AES-GCM results the Coq model's recipe needs for one
// case, computed with Go's crypto/sha256 and crypto/aes + crypto/cipher directly —
// never through the dhash package.  The recipe mirror below (ref*) exists only to make
// the queries; it is written from the property text and the design, not from dhash.go.
// If it differs from the Coq model the model misses a table entry (Panic EMiss, a
// mismatch); if dhash differs from the model the bytes differ (a mismatch).

import (
	"bytes"
	"crypto/aes"
	"crypto/cipher"
	"crypto/sha256"
	"encoding/binary"
	"encoding/hex"
	"fmt"
	"strings"

	"github.com/multiformats/go-multihash"

	"verif/harness/vlib"
)

type shaEnt struct{ in, out []byte }
type sealEnt struct{ k, n, p, c []byte }
type openEnt struct {
	k, n, c, p []byte
	ok         bool
}

type table struct {
	sha  []shaEnt
	seal []sealEnt
	open []openEnt
	seen map[string]bool
}

func newTable() *table { return &table{seen: map[string]bool{}} }

func key3(tag string, a, b, c []byte) string {
	var sb strings.Builder
	sb.WriteString(tag)
	for _, x := range [][]byte{a, b, c} {
		var l [8]byte
		binary.LittleEndian.PutUint64(l[:], uint64(len(x)))
		sb.Write(l[:])
		sb.Write(x)
	}
	return sb.String()
}

func (t *table) Sha(in []byte) []byte {
	d := sha256.Sum256(in)
	k := key3("s", in, nil, nil)
	if !t.seen[k] {
		t.seen[k] = true
		t.sha = append(t.sha, shaEnt{clone(in), d[:]})
	}
	return d[:]
}

func gcm(key []byte) cipher.AEAD {
	b, err := aes.NewCipher(key)
	if err != nil {
		panic(err)
	}
	g, err := cipher.NewGCM(b)
	if err != nil {
		panic(err)
	}
	return g
}

// Seal: key must be 32 bytes and nonce 12 (the only way the recipe calls it).
func (t *table) Seal(k, n, p []byte) []byte {
	c := gcm(k).Seal(nil, n, p, nil)
	kk := key3("e", k, n, p)
	if !t.seen[kk] {
		t.seen[kk] = true
		t.seal = append(t.seal, sealEnt{clone(k), clone(n), clone(p), c})
	}
	return c
}

func (t *table) Open(k, n, c []byte) ([]byte, bool) {
	p, err := gcm(k).Open(nil, n, c, nil)
	kk := key3("d", k, n, c)
	if !t.seen[kk] {
		t.seen[kk] = true
		t.open = append(t.open, openEnt{clone(k), clone(n), clone(c), p, err == nil})
	}
	return p, err == nil
}

func (t *table) Coq() string {
	sh := make([]string, len(t.sha))
	for i, e := range t.sha {
		sh[i] = "(" + coqBytes(e.in) + ", " + coqBytes(e.out) + ")"
	}
	se := make([]string, len(t.seal))
	for i, e := range t.seal {
		se[i] = "(" + coqBytes(e.k) + ", (" + coqBytes(e.n) + ", (" + coqBytes(e.p) + ", " + coqBytes(e.c) + ")))"
	}
	op := make([]string, len(t.open))
	for i, e := range t.open {
		op[i] = "(" + coqBytes(e.k) + ", (" + coqBytes(e.n) + ", (" + coqBytes(e.c) + ", " + vlib.CoqOpt(coqBytes(e.p), e.ok) + ")))"
	}
	return "(Build_table " + vlib.CoqList(sh) + " " + vlib.CoqList(se) + " " + vlib.CoqList(op) + ")"
}

// caseHeader opens every generated case file: the model, and the decoder of the packed
// byte literals the cases are written in.  A Coq string literal costs about 50
// microseconds per hex digit to elaborate (each character becomes ten constructors);
// a primitive 63-bit integer literal carrying 7 bytes is one node, which makes the case
// files 25 times cheaper.  The decoder lives here, in the case files, so that nothing
// the theorems depend on imports Uint63; pk_selftest is conjoined to every case check.
var caseHeader = []string{
	"From Coq Require Import Uint63.",
	"From Coq Require Import List NArith.",
	"From Lib Require Import Bytes.",
	"From Model Require Import C12_DHash.",
	"Definition bitv (c i : int) (w : N) : N := if PrimInt63.eqb (PrimInt63.land (PrimInt63.lsr c i) 1%uint63) 0%uint63 then 0%N else w.",
	"Definition byteN (c : int) : N := (bitv c 0%uint63 1 + bitv c 1%uint63 2 + bitv c 2%uint63 4 + bitv c 3%uint63 8 + bitv c 4%uint63 16 + bitv c 5%uint63 32 + bitv c 6%uint63 64 + bitv c 7%uint63 128)%N.",
	"Definition chunk_bytes (c : int) (r : bytes) : bytes := byteN (PrimInt63.lsr c 48%uint63) :: byteN (PrimInt63.lsr c 40%uint63) :: byteN (PrimInt63.lsr c 32%uint63) :: byteN (PrimInt63.lsr c 24%uint63) :: byteN (PrimInt63.lsr c 16%uint63) :: byteN (PrimInt63.lsr c 8%uint63) :: byteN c :: r.",
	"(* pk n chunks: 7 bytes per chunk, big-endian, last chunk left-aligned, n = length *)",
	"Definition pk (n : N) (chunks : list int) : bytes := firstn (N.to_nat n) (fold_right chunk_bytes nil chunks).",
	"Definition pk_selftest : bool := (bytes_eqb (pk 9 (0x01020304050607 :: 0x0809ff00000000 :: nil)%uint63) (1 :: 2 :: 3 :: 4 :: 5 :: 6 :: 7 :: 8 :: 9 :: nil)%N && bytes_eqb (pk 0 nil) nil && bytes_eqb (pk 3 (0xfffe8000000000 :: nil)%uint63) (255 :: 254 :: 128 :: nil)%N)%bool.",
}

// xfindHeader: the same over the composed model C12 x C17 (C12 names live in module D,
// C17 names in module G there)
var xfindHeader = func() []string {
	h := append([]string{}, caseHeader...)
	for i, l := range h {
		if l == "From Model Require Import C12_DHash." {
			h[i] = "From Model Require Import Compose_C12_C17."
		}
	}
	return h
}()

// coqBytes prints a byte string as a packed literal: (pk len [7-byte big-endian chunks]).
func coqBytes(b []byte) string {
	if len(b) == 0 {
		return "(pk 0 [])"
	}
	var sb strings.Builder
	fmt.Fprintf(&sb, "(pk %d [", len(b))
	for i := 0; i < len(b); i += 7 {
		var chunk [7]byte
		copy(chunk[:], b[i:])
		if i > 0 {
			sb.WriteString(";")
		}
		sb.WriteString("0x")
		sb.WriteString(hex.EncodeToString(chunk[:]))
	}
	sb.WriteString("]%uint63)")
	return sb.String()
}

func clone(b []byte) []byte { return append([]byte{}, b...) }

func cat(parts ...[]byte) []byte {
	var out []byte
	for _, p := range parts {
		out = append(out, p...)
	}
	return out
}

// ---------------------------------------------------------------------------
// the recipe, from the property text

func pad64(tag string) []byte {
	b := make([]byte, 64)
	copy(b, tag)
	return b
}

var (
	refSecondPrefix = pad64("CR_DOUBLEHASH")
	refKeyPrefix    = pad64("CR_ENCRYPTIONKEY")
	refNoncePrefix  = pad64("CR_NONCE")
)

const refNonceLen = 12

func (t *table) refKey(pass []byte) []byte { return t.Sha(cat(refKeyPrefix, pass)) }

func (t *table) refEncrypt(payload, pass []byte) (nonce, ct []byte) {
	k := t.refKey(pass)
	var l [8]byte
	binary.LittleEndian.PutUint64(l[:], uint64(len(payload)))
	nonce = t.Sha(cat(refNoncePrefix, l[:], payload, pass))[:refNonceLen]
	ct = t.Seal(k, nonce, payload)
	return
}

func (t *table) refDecryptAES(nonce, ct, pass []byte) ([]byte, bool) {
	if len(nonce) != refNonceLen {
		return nil, false
	}
	return t.Open(t.refKey(pass), nonce, ct)
}

func (t *table) refDecryptBlob(blob, pass []byte) ([]byte, bool) {
	if len(blob) <= refNonceLen {
		return nil, false
	}
	return t.refDecryptAES(blob[:refNonceLen], blob[refNonceLen:], pass)
}

func (t *table) refSecond(mh []byte) []byte {
	d := t.Sha(cat(refSecondPrefix, mh))
	return cat([]byte{0x56, 0x20}, d)
}

// refCall makes the queries of one dhash call.
func (t *table) refCall(fn string, a [][]byte) {
	switch fn {
	case "SHA256":
		t.Sha(a[0])
	case "SecondMultihash":
		t.refSecond(a[0])
	case "EncryptAES", "EncryptValueKey", "EncryptMetadata":
		t.refEncrypt(a[0], a[1])
	case "DecryptAES":
		t.refDecryptAES(a[0], a[1], a[2])
	case "DecryptValueKey", "DecryptMetadata":
		t.refDecryptBlob(a[0], a[1])
	}
}

// refSplit: a value key is a multihash followed by the context ID.
func refSplit(vk []byte) (pid, ctx []byte, ok bool) {
	n, _, err := multihash.MHFromBytes(vk)
	if err != nil {
		return nil, nil, false
	}
	return vk[:n], vk[n:], true
}

// refFind makes the queries of the find workflow over the fake store.
func (t *table) refFind(st *fakeStore, mh []byte) {
	smh := t.refSecond(mh)
	resp, ok := st.mh[string(smh)]
	if !ok || resp.err {
		return
	}
	for _, g := range resp.groups {
		for _, evk := range g {
			vk, ok := t.refDecryptBlob(evk, mh)
			if !ok {
				continue
			}
			if _, _, ok := refSplit(vk); !ok {
				continue
			}
			h := t.Sha(vk)
			md, ok := st.md[string(h)]
			if !ok || md.err || len(md.val) == 0 {
				continue
			}
			t.refDecryptBlob(md.val, vk)
		}
	}
}

var _ = bytes.Equal
