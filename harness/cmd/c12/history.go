package main

// Call HISTORIES with caller-owned buffers.  Every other family hands each call fresh
// slices; here the passphrase (and payload / ciphertext / nonce) of consecutive calls
// lives in ONE buffer that is refilled in place between the calls, with contents of the
// same and of different lengths, the way a caller that recycles buffers does.
//
// The property is about argument VALUES: each call of a history must give what the same
// call gives on fresh slices (computed beforehand, before any buffer was reused), so in
// particular decrypting with a different passphrase still fails and encrypting the same
// inputs still gives the same bytes; the callee never modifies its inputs; slices it
// returned never change afterwards.  Every call is also a Coq case (the model is a
// function of the values).

import (
	"bytes"
	"fmt"
	"strings"
	"sync"

	"github.com/multiformats/go-multihash"

	"verif/harness/vlib"
)

type hcall struct {
	Fn    string   `json:"fn"`
	Args  []string `json:"args"`  // hex of the argument values
	Share []int    `json:"share"` // per argument: caller buffer it is passed in, -1 = a fresh slice
}

type chistory struct {
	Kind  string  `json:"kind"` // "history"
	Calls []hcall `json:"calls"`
}

func (h *chistory) sig() string {
	var parts []string
	for _, c := range h.Calls {
		var as []string
		for i, a := range c.Args {
			s := fmt.Sprint(len(a) / 2)
			if c.Share[i] >= 0 {
				s += fmt.Sprintf("@buf%d", c.Share[i])
			}
			as = append(as, s)
		}
		parts = append(parts, c.Fn+"("+strings.Join(as, ",")+")")
	}
	return "history:" + strings.Join(parts, ";")
}

var neutral int

func sameOutcome(a, b outcome) bool {
	if a.Kind != b.Kind || len(a.Vals) != len(b.Vals) {
		return false
	}
	if a.Kind != "ok" {
		return true
	}
	for i := range a.Vals {
		if !bytes.Equal(a.Vals[i], b.Vals[i]) {
			return false
		}
	}
	return true
}

// clean: what a call gives on fresh slices.  Filled before any history runs.
type cleanTable map[string]outcome

func ckey(fn string, args [][]byte) string { return fn + "|" + strings.Join(hexes(args), "|") }

func (ct cleanTable) get(fn string, args ...[]byte) outcome {
	k := ckey(fn, args)
	if o, ok := ct[k]; ok {
		return o
	}
	o, _ := doCall(fn, args)
	ct[k] = o
	return o
}

// runHistory executes the calls on shared buffers.  clean == nil: compute nothing, only
// report what happened (replay prints it).
func (r *run) runHistory(h *chistory, clean cleanTable, emit bool) (failed string) {
	bufs := make([][]byte, 4)
	for i := range bufs {
		bufs[i] = make([]byte, 0, 4096)
	}
	type kept struct {
		call int
		live []byte // the slice the callee returned
		copy []byte
	}
	var returned []kept
	// Start from a neutral library state, so that a history means the same in this run, while
	// shrinking and in a replay: whatever per-process state earlier histories left behind
	// (it would refer to their buffers) is displaced by calls on fresh, never reused slices.
	neutral++
	for i := 0; i < 3; i++ {
		invoke("EncryptAES", [][]byte{{byte(i)}, []byte(fmt.Sprintf("c12-neutral-%d-%d", neutral, i))})
	}
	fail := func(s string) {
		if failed == "" {
			failed = s
		}
	}
	for k, c := range h.Calls {
		vals := unhexes(c.Args)
		a := make([][]byte, len(vals))
		for i, v := range vals {
			if c.Share[i] >= 0 {
				b := bufs[c.Share[i]][:len(v)] // refill the caller's buffer in place
				copy(b, v)
				a[i] = b
			} else {
				a[i] = append(make([]byte, 0, len(v)), v...)
			}
		}
		out := invoke(c.Fn, a)
		for i := range a {
			if !bytes.Equal(a[i], vals[i]) {
				fail(fmt.Sprintf("call %d: %s modified its argument %d", k, c.Fn, i))
			}
		}
		for _, v := range out.Vals {
			returned = append(returned, kept{k, v, clone(v)})
		}
		if emit {
			r.emitCall(c.Fn, vals, out)
		}
		if out.Kind == "panic" {
			fail(fmt.Sprintf("call %d: %s panicked: %s", k, c.Fn, out.Msg))
		}
		if clean != nil {
			want := clean.get(c.Fn, vals...)
			if !sameOutcome(out, want) {
				what := "gives " + out.String() + " on a reused buffer, " + want.String() + " on fresh slices"
				switch {
				case strings.HasPrefix(c.Fn, "Decrypt") && want.Kind == "err" && out.Kind == "ok":
					what = "decryption with a different passphrase (or altered input) returned data: " + out.String()
				case strings.HasPrefix(c.Fn, "Encrypt"):
					what = "encrypting the same payload with the same passphrase gave different bytes depending on the calls made before: " + out.String() + " / " + want.String()
				}
				fail(fmt.Sprintf("call %d: %s %s", k, c.Fn, what))
			}
		}
	}
	for _, kp := range returned {
		if !bytes.Equal(kp.live, kp.copy) {
			fail(fmt.Sprintf("the slice call %d returned changed after later calls", kp.call))
		}
	}
	return failed
}

// emitCall: one call of a history as a Coq case of the call family
func (r *run) emitCall(fn string, vals [][]byte, out outcome) {
	r.c.Eval()
	r.c.Count("history-call:" + fn + ":" + out.Kind)
	t := newTable()
	t.refCall(fn, vals)
	as := make([]string, len(vals))
	for i := range vals {
		as[i] = coqBytes(vals[i])
	}
	term := "(CC " + t.Coq() + " (" + coqCtor[fn] + " " + strings.Join(as, " ") + ") " + coqOutcome(out) + ")"
	if r.histSeen[term] {
		return
	}
	r.histSeen[term] = true
	r.c.Case("call", term, callReplay{Kind: "call", Fn: fn, Args: hexes(vals), Orc: "model", Obs: out.String()})
}

func (r *run) shrinkHistory(h *chistory, clean cleanTable) *chistory {
	cur := &chistory{Kind: "history", Calls: append([]hcall{}, h.Calls...)}
	for changed := true; changed && len(cur.Calls) > 1; {
		changed = false
		for i := range cur.Calls {
			t := &chistory{Kind: "history", Calls: append(append([]hcall{}, cur.Calls[:i]...), cur.Calls[i+1:]...)}
			if r.runHistory(t, clean, false) != "" {
				cur, changed = t, true
				break
			}
		}
	}
	return cur
}

var encOf = map[string]string{"AES": "EncryptAES", "ValueKey": "EncryptValueKey", "Metadata": "EncryptMetadata"}
var decOf = map[string]string{"AES": "DecryptAES", "ValueKey": "DecryptValueKey", "Metadata": "DecryptMetadata"}

func (r *run) historyCases() {
	rng := r.c.Rng.Fork("hist")
	clean := cleanTable{}
	mhA, _ := multihash.Sum(rng.Bytes(20), multihash.SHA2_256, -1)
	mhB, _ := multihash.Sum(rng.Bytes(20), multihash.SHA2_256, -1)
	passes := [][]byte{mhA, mhB, rng.Bytes(5), rng.Bytes(70)} // two of equal length, a shorter, a longer
	payloads := [][]byte{{}, rng.Bytes(9), rng.Bytes(40)}

	// builders; derived values (ciphertexts) come from clean calls on fresh slices
	enc := func(x string, p, pass []byte, sharePayload bool) hcall {
		sh := []int{-1, 0}
		if sharePayload {
			sh[0] = 1
		}
		return hcall{Fn: encOf[x], Args: hexes([][]byte{p, pass}), Share: sh}
	}
	dec := func(x string, p, passEnc, passDec []byte, shareCt bool) hcall {
		o := clean.get(encOf[x], p, passEnc)
		if o.Kind != "ok" {
			panic("clean encryption failed: " + o.String())
		}
		if x == "AES" {
			sh := []int{-1, -1, 0}
			if shareCt {
				sh = []int{2, 1, 0}
			}
			return hcall{Fn: "DecryptAES", Args: hexes([][]byte{o.Vals[0], o.Vals[1], passDec}), Share: sh}
		}
		sh := []int{-1, 0}
		if shareCt {
			sh[0] = 1
		}
		return hcall{Fn: decOf[x], Args: hexes([][]byte{o.Vals[0], passDec}), Share: sh}
	}

	var hs []*chistory
	add := func(calls ...hcall) { hs = append(hs, &chistory{Kind: "history", Calls: calls}) }
	kinds := []string{"AES", "ValueKey", "Metadata"}
	for xi, x := range kinds {
		y := kinds[(xi+1)%3]
		for i, A := range passes {
			for j, B := range passes {
				if i == j {
					continue
				}
				p, q := payloads[(i+j)%3], payloads[(i+2*j+1)%3]
				add(enc(x, p, A, false), dec(x, p, A, B, false))                                              // made with A, opened "with B"
				add(dec(x, p, A, A, false), dec(x, p, A, B, false))                                           // opened with A, then "with B"
				add(enc(x, p, A, false), enc(x, p, B, false))                                                 // same payload, next passphrase
				add(enc(x, p, A, false), enc(y, p, B, false), dec(y, p, B, B, false), dec(y, p, B, A, false)) // across entry points
				add(enc(x, p, A, true), dec(x, p, A, A, true), enc(x, q, B, true), dec(x, q, B, A, true))     // payload / ciphertext / nonce buffers reused too
				add(dec(x, p, A, B, false), dec(x, p, A, A, false), enc(x, q, A, false))                      // a failing call first
			}
		}
		// payload buffer reused under one passphrase
		for _, A := range passes {
			add(enc(x, payloads[1], A, true), enc(x, payloads[2], A, true), enc(x, payloads[0], A, true), enc(x, payloads[1], A, true))
			add(dec(x, payloads[1], A, A, true), dec(x, payloads[2], A, A, true))
		}
	}
	// seeded random histories of 2..4 calls
	for n := 0; n < r.c.Pick(150, 3000); n++ {
		var calls []hcall
		for k := 2 + rng.Intn(3); k > 0; k-- {
			x := kinds[rng.Intn(3)]
			p := payloads[rng.Intn(3)]
			A, B := passes[rng.Intn(4)], passes[rng.Intn(4)]
			var c hcall
			if rng.Bool() {
				c = enc(x, p, A, rng.Bool())
			} else {
				c = dec(x, p, A, B, rng.Bool())
			}
			if rng.Intn(5) == 0 { // now and then a fresh passphrase slice in between
				c.Share[len(c.Share)-1] = -1
			}
			calls = append(calls, c)
		}
		add(calls...)
	}
	// fill the clean table for every call BEFORE any buffer is reused
	for _, h := range hs {
		for _, c := range h.Calls {
			clean.get(c.Fn, unhexes(c.Args)...)
		}
	}
	fails := 0
	for _, h := range hs {
		r.c.Count("histories")
		r.c.Nontrivial(h.sig())
		if msg := r.runHistory(h, clean, true); msg != "" {
			fails++
			r.c.Count("oracle-failed:history")
			if fails <= 3 {
				s := r.shrinkHistory(h, clean)
				m2 := r.runHistory(s, clean, false)
				if m2 == "" {
					s, m2 = h, msg
				}
				r.c.Fail(s.sig(), m2, s)
			}
		}
	}
	r.concurrentHistories(rng, clean, passes, payloads)
}

// concurrentHistories: goroutines with different passphrases, each recycling a buffer of
// its own, at the same time.
func (r *run) concurrentHistories(rng *vlib.Rand, clean cleanTable, passes, payloads [][]byte) {
	type job struct {
		fn   string
		vals [][]byte
		want outcome
	}
	const workers = 8
	jobs := make([][]job, workers)
	for w := 0; w < workers; w++ {
		wr := rng.Fork(fmt.Sprint("w", w))
		for k := 0; k < r.c.Pick(60, 600); k++ {
			x := []string{"ValueKey", "Metadata"}[wr.Intn(2)]
			p := payloads[wr.Intn(len(payloads))]
			A, B := passes[(w+wr.Intn(2))%len(passes)], passes[wr.Intn(len(passes))]
			var j job
			if wr.Bool() {
				j = job{fn: encOf[x], vals: [][]byte{p, A}}
			} else {
				ct := clean.get(encOf[x], p, A)
				j = job{fn: decOf[x], vals: [][]byte{ct.Vals[0], B}}
			}
			j.want = clean.get(j.fn, j.vals...)
			jobs[w] = append(jobs[w], j)
		}
	}
	bad := make([]string, workers)
	var wg sync.WaitGroup
	for w := 0; w < workers; w++ {
		wg.Add(1)
		go func(w int) {
			defer wg.Done()
			buf := make([]byte, 0, 4096)
			for _, j := range jobs[w] {
				pass := buf[:len(j.vals[1])]
				copy(pass, j.vals[1])
				got := invoke(j.fn, [][]byte{append([]byte{}, j.vals[0]...), pass})
				if !sameOutcome(got, j.want) && bad[w] == "" {
					bad[w] = fmt.Sprintf("%s(%s) gave %s with other calls running and its passphrase buffer recycled, %s on fresh slices", j.fn, strings.Join(hexes(j.vals), ", "), got, j.want)
				}
			}
		}(w)
	}
	wg.Wait()
	r.c.CountN("oracle:concurrent-histories", workers*len(jobs[0]))
	for _, b := range bad {
		if b != "" {
			r.c.Fail("history:concurrent", b, map[string]string{"kind": "concurrent-history"})
			break
		}
	}
}
