package main

// The find workflow with provider RECORDS: the scripted provider source behind the
// client's pcache returns records with chain-level and contextual extended providers
// (override on/off, metadata nil / empty / equal to the looked-up / different, metadata
// lists shorter and longer than the provider lists).  DHashClient.Find's results are
// compared with the composed model (model/Compose_C12_C17.v: C12's find with C17's
// GetResults) and with an independent Go expansion written from the IPNI rules.

import (
	"bytes"
	"context"
	"encoding/hex"
	"encoding/json"
	"fmt"
	"net/http"
	"net/http/httptest"
	"strings"
	"time"

	"github.com/ipni/go-libipni/find/client"
	"github.com/ipni/go-libipni/find/model"
	"github.com/libp2p/go-libp2p/core/peer"
	"github.com/multiformats/go-multiaddr"
	"github.com/multiformats/go-multihash"

	"verif/harness/vlib"
)

// ---- scenario (replayable)

type xSet struct {
	Pids []int `json:"pids"` // pool indices
	Tags []int `json:"tags"`
	Mds  []int `json:"mds"` // per metadata slot: 0 nil, 1 empty, 2 equal to the looked-up one, 3.. different
}
type xCtx struct {
	Ctx      string `json:"ctx"` // context ID (ASCII)
	Override bool   `json:"override"`
	Set      xSet   `json:"set"`
}
type xRec struct {
	Pid    int    `json:"pid"`
	Tag    int    `json:"tag"`
	HasExt bool   `json:"has_ext"`
	Chain  xSet   `json:"chain"`
	Ctxs   []xCtx `json:"ctxs"`
}
type xEntry struct {
	Pid int    `json:"pid"`
	Ctx string `json:"ctx"`
	Md  string `json:"md"` // hex
}
type xScenario struct {
	Kind    string     `json:"kind"` // "xfind"
	Mhs     []string   `json:"mhs"`  // hex multihashes, row i
	Entries [][]xEntry `json:"entries"`
	Query   int        `json:"query"` // row index, -1: a multihash that is not indexed
	Recs    []xRec     `json:"recs"`  // providers the source knows
	MdOnly  bool       `json:"md_only"`
}

type xResult struct {
	ctx []byte
	md  []byte // nil = Go nil
	id  int    // pool index, 999999 unknown
	tag int
}

func (x xResult) String() string {
	md := "nil"
	if x.md != nil {
		md = hex.EncodeToString(x.md)
	}
	return fmt.Sprintf("(%s,%s,p%d,t%d)", x.ctx, md, x.id, x.tag)
}

func sameX(a, b []xResult) bool {
	if len(a) != len(b) {
		return false
	}
	for i := range a {
		if !bytes.Equal(a[i].ctx, b[i].ctx) || !bytes.Equal(a[i].md, b[i].md) || a[i].id != b[i].id || a[i].tag != b[i].tag {
			return false
		}
	}
	return true
}

// ---- records

func xMd(kind int, looked []byte) []byte {
	switch kind {
	case 0:
		return nil
	case 1:
		return []byte{}
	case 2:
		return clone(looked)
	}
	return []byte{0xee, byte(kind)}
}

// mdFor: the metadata a slot of kind 2 ("equal") refers to: the one indexed for (pid, ctx)
// when there is one, else that of any entry of pid
func (sc *xScenario) lookedUp(pid int, ctx string) []byte {
	var any []byte
	for _, row := range sc.Entries {
		for _, e := range row {
			if e.Pid == pid {
				if e.Ctx == ctx {
					return unhexs(e.Md)
				}
				any = unhexs(e.Md)
			}
		}
	}
	return any
}

func (sc *xScenario) info(pool []pidInfo, rec xRec) *model.ProviderInfo {
	ai := func(p, t int) peer.AddrInfo {
		return peer.AddrInfo{ID: pool[p].ID, Addrs: []multiaddr.Multiaddr{tagAddr(t)}}
	}
	set := func(s xSet, ctx string) ([]peer.AddrInfo, [][]byte) {
		var ps []peer.AddrInfo
		for i := range s.Pids {
			ps = append(ps, ai(s.Pids[i], s.Tags[i]))
		}
		var ms [][]byte
		for _, k := range s.Mds {
			ms = append(ms, xMd(k, sc.lookedUp(rec.Pid, ctx)))
		}
		return ps, ms
	}
	pi := &model.ProviderInfo{AddrInfo: ai(rec.Pid, rec.Tag), LastAdvertisementTime: "2024-01-01T00:00:00Z"}
	if rec.HasExt {
		x := &model.ExtendedProviders{}
		// chain-level "equal" slots refer to the first context of this provider
		first := ""
		for _, row := range sc.Entries {
			for _, e := range row {
				if e.Pid == rec.Pid && first == "" {
					first = e.Ctx
				}
			}
		}
		x.Providers, x.Metadatas = set(rec.Chain, first)
		for _, c := range rec.Ctxs {
			ps, ms := set(c.Set, c.Ctx)
			x.Contextual = append(x.Contextual, model.ContextualExtendedProviders{Override: c.Override, ContextID: c.Ctx, Providers: ps, Metadatas: ms})
		}
		pi.ExtendedProviders = x
	}
	return pi
}

// received: the record as the cache gets it (through JSON)
func received(pi *model.ProviderInfo) (*model.ProviderInfo, []byte) {
	b, err := json.Marshal(pi)
	if err != nil {
		panic(err)
	}
	var out model.ProviderInfo
	if err := json.Unmarshal(b, &out); err != nil {
		panic(err)
	}
	return &out, b
}

// ---- the IPNI rules, independently of the model and of pcache

func refExpand(info *model.ProviderInfo, pid peer.ID, ctx, md []byte, idx func(peer.ID) int) []xResult {
	mk := func(m []byte, ai peer.AddrInfo) xResult { return xResult{ctx, m, idx(ai.ID), addrTag(&ai)} }
	out := []xResult{mk(md, info.AddrInfo)}
	if info.ExtendedProviders == nil {
		return out
	}
	set := func(ps []peer.AddrInfo, ms [][]byte) []xResult {
		var rs []xResult
		for i, p := range ps {
			var own []byte
			if i < len(ms) {
				own = ms[i]
			}
			hasOwn := len(own) > 0
			if p.ID == pid && (!hasOwn || bytes.Equal(own, md)) {
				continue // the provider's own entry adds no new metadata
			}
			if hasOwn {
				rs = append(rs, mk(own, p))
			} else {
				rs = append(rs, mk(md, p))
			}
		}
		return rs
	}
	x := info.ExtendedProviders
	var reg *model.ContextualExtendedProviders
	for i := range x.Contextual {
		if x.Contextual[i].ContextID == string(ctx) {
			reg = &x.Contextual[i] // the last set registered under the ID
		}
	}
	chain := set(x.Providers, x.Metadatas)
	if reg == nil {
		return append(out, chain...)
	}
	out = append(out, set(reg.Providers, reg.Metadatas)...)
	if !reg.Override {
		out = append(out, chain...)
	}
	return out
}

// ---- Coq printing

func coqMbytes(m []byte) string {
	if m == nil {
		return "None"
	}
	return "(Some " + coqBytes(m) + ")"
}

func coqAIs(ps []peer.AddrInfo, idx func(peer.ID) int) string {
	it := make([]string, len(ps))
	for i, p := range ps {
		it[i] = fmt.Sprintf("(G.AI %d %d)", idx(p.ID), addrTag(&ps[i]))
	}
	return vlib.CoqList(it)
}

func coqMds(ms [][]byte) string {
	it := make([]string, len(ms))
	for i, m := range ms {
		it[i] = coqMbytes(m)
	}
	return vlib.CoqList(it)
}

func coqRecord(pi *model.ProviderInfo, idx func(peer.ID) int) string {
	ext := "None"
	if x := pi.ExtendedProviders; x != nil {
		cs := make([]string, len(x.Contextual))
		for i, c := range x.Contextual {
			cs[i] = fmt.Sprintf("(G.CX %s %s %s %s)", coqBytes([]byte(c.ContextID)), vlib.CoqBool(c.Override), coqAIs(c.Providers, idx), coqMds(c.Metadatas))
		}
		ext = fmt.Sprintf("(Some (G.XP %s %s %s))", coqAIs(x.Providers, idx), coqMds(x.Metadatas), vlib.CoqList(cs))
	}
	return fmt.Sprintf("(G.REC (G.AI %d %d) %s)", idx(pi.AddrInfo.ID), addrTag(&pi.AddrInfo), ext)
}

// ---- running

func (r *run) runX(sc *xScenario, pool []pidInfo, emit bool) (failed string) {
	idx := func(id peer.ID) int {
		for i, p := range pool {
			if p.ID == id {
				return i + 1
			}
		}
		return 999999
	}
	// the plaintext index as a find scenario, store built through the dhash functions
	fs := &findScenario{Kind: "find", PCache: !sc.MdOnly}
	for i, mh := range sc.Mhs {
		row := fRow{Mh: mh, Groups: 1 + i%2}
		for _, e := range sc.Entries[i] {
			row.Entries = append(row.Entries, fEntry{Pid: hex.EncodeToString([]byte(pool[e.Pid].ID)), Ctx: hex.EncodeToString([]byte(e.Ctx)), Md: e.Md})
		}
		fs.Rows = append(fs.Rows, row)
	}
	if sc.Query >= 0 {
		fs.Query = sc.Mhs[sc.Query]
	} else {
		m, _ := multihash.Sum([]byte("c12-not-indexed"), multihash.SHA2_256, -1)
		fs.Query = hex.EncodeToString(m)
	}
	st, _, _ := buildStore(fs, map[peer.ID]int{})
	mh := unhexs(fs.Query)

	// provider source
	recs := map[peer.ID]*model.ProviderInfo{}
	blobs := map[peer.ID][]byte{}
	var recOrder []peer.ID
	for _, rec := range sc.Recs {
		got, blob := received(sc.info(pool, rec))
		id := pool[rec.Pid].ID
		if _, dup := recs[id]; !dup {
			recOrder = append(recOrder, id)
		}
		recs[id], blobs[id] = got, blob
	}
	srv := httptest.NewServer(http.HandlerFunc(func(w http.ResponseWriter, req *http.Request) {
		id, err := peer.Decode(strings.TrimPrefix(req.URL.Path, "/providers/"))
		if err != nil {
			http.Error(w, "bad id", http.StatusBadRequest)
			return
		}
		b, ok := blobs[id]
		if !ok {
			http.Error(w, "unknown provider", http.StatusNotFound)
			return
		}
		w.Header().Set("Content-Type", "application/json")
		_, _ = w.Write(b)
	}))
	defer srv.Close()
	swap := &swapStore{cur: st}
	opts := []client.Option{client.WithDHStoreAPI(swap)}
	if sc.MdOnly {
		opts = append(opts, client.WithMetadataOnly(true))
	} else {
		opts = append(opts, client.WithProvidersURL(srv.URL), client.WithPcachePreload(false))
	}
	cl, err := client.NewDHashClient(opts...)
	if err != nil {
		return "NewDHashClient: " + err.Error()
	}

	// FindAsync in a goroutine of our own (a panic must be observable), then Find
	ctx, cancel := context.WithTimeout(context.Background(), 20*time.Second)
	defer cancel()
	resChan := make(chan model.ProviderResult)
	type ret struct {
		err error
		pan interface{}
	}
	done := make(chan ret, 1)
	go func() {
		var rr ret
		defer func() {
			if p := recover(); p != nil {
				rr.pan = p
			}
			done <- rr
		}()
		rr.err = cl.FindAsync(ctx, clone(mh), resChan)
	}()
	var got []xResult
	for pr := range resChan {
		x := xResult{ctx: pr.ContextID, md: pr.Metadata, id: 999999}
		if pr.Provider != nil {
			x.id, x.tag = idx(pr.Provider.ID), addrTag(pr.Provider)
		}
		got = append(got, x)
	}
	rr := <-done
	obs := ""
	switch {
	case rr.pan != nil:
		obs = "(Panic 0)"
		failed = fmt.Sprintf("FindAsync panicked: %v", rr.pan)
	case rr.err != nil:
		obs = "(Err 0)"
		failed = "find failed: " + rr.err.Error()
	default:
		it := make([]string, len(got))
		for i, g := range got {
			it[i] = fmt.Sprintf("(G.PR %s %s (G.AI %d %d))", coqBytes(g.ctx), coqMbytes(g.md), g.id, g.tag)
		}
		obs = "(Ok " + vlib.CoqList(it) + ")"
	}
	// what the rules demand, from the plaintext index and the records
	var want []xResult
	if sc.Query >= 0 {
		for _, e := range sc.Entries[sc.Query] {
			id := pool[e.Pid].ID
			if sc.MdOnly {
				want = append(want, xResult{[]byte(e.Ctx), unhexs(e.Md), idx(id), 0})
				continue
			}
			if info, ok := recs[id]; ok {
				want = append(want, refExpand(info, id, []byte(e.Ctx), unhexs(e.Md), idx)...)
			}
		}
	}
	if failed == "" && !sameX(got, want) {
		failed = fmt.Sprintf("find returned %v, the index and the provider records give %v", got, want)
	}
	if failed == "" && rr.pan == nil {
		resp, err := cl.Find(ctx, clone(mh))
		n := 0
		if err == nil {
			for _, m := range resp.MultihashResults {
				n += len(m.ProviderResults)
			}
		}
		if err != nil || n != len(got) {
			failed = fmt.Sprintf("Find disagrees with FindAsync (%v, %d results vs %d)", err, n, len(got))
		}
	}
	if emit {
		r.c.Eval()
		r.c.Count("xfind")
		t := newTable()
		t.refFind(st, mh)
		names := make([]string, len(pool))
		for i, p := range pool {
			names[i] = fmt.Sprintf("(%s, %d)", coqBytes([]byte(p.ID)), i+1)
		}
		recT := "None"
		if !sc.MdOnly {
			it := make([]string, 0, len(recOrder))
			for _, id := range recOrder {
				it = append(it, "("+coqBytes([]byte(id))+", "+coqRecord(recs[id], idx)+")")
			}
			recT = "(Some " + vlib.CoqList(it) + ")"
		}
		r.c.Case("xfind", fmt.Sprintf("(XFC %s %s %s %s %s %s %s)", strings.Replace(t.Coq(), "(Build_table", "(D.Build_table", 1), coqMht(st), coqMdt(st), vlib.CoqList(names), recT, coqBytes(mh), obs), sc)
	}
	return failed
}

func coqMht(st *fakeStore) string {
	mht := make([]string, 0, len(st.mhOrder))
	for _, k := range st.mhOrder {
		r := st.mh[k]
		val := "(Err 30)"
		if !r.err {
			gs := make([]string, len(r.groups))
			for i, g := range r.groups {
				es := make([]string, len(g))
				for j, e := range g {
					es[j] = coqBytes(e)
				}
				gs[i] = vlib.CoqList(es)
			}
			val = "(Ok " + vlib.CoqList(gs) + ")"
		}
		mht = append(mht, "("+coqBytes([]byte(k))+", "+val+")")
	}
	return vlib.CoqList(mht)
}

func coqMdt(st *fakeStore) string {
	mdt := make([]string, 0, len(st.mdOrder))
	for _, k := range st.mdOrder {
		r := st.md[k]
		val := "(Err 30)"
		if !r.err {
			val = "(Ok " + coqBytes(r.val) + ")"
		}
		mdt = append(mdt, "("+coqBytes([]byte(k))+", "+val+")")
	}
	return vlib.CoqList(mdt)
}

// ---- generation

func genXSet(rng *vlib.Rand, npool, self int) xSet {
	var s xSet
	n := rng.Intn(4)
	for i := 0; i < n; i++ {
		p := rng.Intn(npool)
		if rng.Intn(3) == 0 {
			p = self // the provider's own entry
		}
		s.Pids = append(s.Pids, p)
		s.Tags = append(s.Tags, 10+rng.Intn(200))
	}
	m := n
	switch rng.Intn(5) {
	case 0:
		m = rng.Intn(n + 1) // shorter
	case 1:
		m = n + 1 + rng.Intn(2) // longer
	}
	for i := 0; i < m; i++ {
		s.Mds = append(s.Mds, rng.Intn(5))
	}
	return s
}

func (r *run) genX(rng *vlib.Rand, npool int) *xScenario {
	sc := &xScenario{Kind: "xfind", MdOnly: rng.Intn(8) == 0}
	nRows := 1 + rng.Intn(2)
	used := map[string]bool{}
	ctxsOf := map[int][]string{}
	for i := 0; i < nRows; i++ {
		m, _ := multihash.Sum(rng.Bytes(16), multihash.SHA2_256, -1)
		sc.Mhs = append(sc.Mhs, hex.EncodeToString(m))
		var es []xEntry
		for j := 1 + rng.Intn(3); j > 0; j-- {
			p := rng.Intn(npool)
			ctx := fmt.Sprintf("ctx-%d", rng.Intn(4))
			if used[fmt.Sprint(p, ctx)] {
				continue
			}
			used[fmt.Sprint(p, ctx)] = true
			ctxsOf[p] = append(ctxsOf[p], ctx)
			es = append(es, xEntry{Pid: p, Ctx: ctx, Md: hex.EncodeToString(rng.Bytes(1 + rng.Intn(12)))})
		}
		sc.Entries = append(sc.Entries, es)
	}
	sc.Query = rng.Intn(nRows)
	if rng.Intn(12) == 0 {
		sc.Query = -1
	}
	for p := 0; p < npool; p++ {
		if rng.Intn(6) == 0 {
			continue // unknown to the source
		}
		rec := xRec{Pid: p, Tag: 1 + p, HasExt: rng.Intn(4) != 0}
		if rec.HasExt {
			rec.Chain = genXSet(rng, npool, p)
			for k := rng.Intn(3); k > 0; k-- {
				ctx := fmt.Sprintf("ctx-%d", rng.Intn(4))
				if len(ctxsOf[p]) > 0 && rng.Intn(3) != 0 {
					ctx = ctxsOf[p][rng.Intn(len(ctxsOf[p]))]
				}
				rec.Ctxs = append(rec.Ctxs, xCtx{Ctx: ctx, Override: rng.Bool(), Set: genXSet(rng, npool, p)})
			}
		}
		sc.Recs = append(sc.Recs, rec)
	}
	return sc
}

func xSig(sc *xScenario) string {
	var parts []string
	for _, rec := range sc.Recs {
		if !rec.HasExt {
			continue
		}
		s := fmt.Sprintf("p%d:chain%d/%d", rec.Pid, len(rec.Chain.Pids), len(rec.Chain.Mds))
		for _, c := range rec.Ctxs {
			s += fmt.Sprintf(",ctx%d/%d", len(c.Set.Pids), len(c.Set.Mds))
			if c.Override {
				s += "!"
			}
		}
		parts = append(parts, s)
	}
	n := 0
	if sc.Query >= 0 {
		n = len(sc.Entries[sc.Query])
	}
	return fmt.Sprintf("xfind:entries=%d:recs=[%s]:mdonly=%v", n, strings.Join(parts, ";"), sc.MdOnly)
}

func (r *run) xfindCases() {
	rng := r.c.Rng.Fork("xfind")
	pool := makePeerPool(r.c.Rng.Fork("findpool"), 5, 1, 2)
	fails := 0
	for i := 0; i < r.c.Pick(160, 2500); i++ {
		sc := r.genX(rng, len(pool))
		msg := r.runX(sc, pool, true)
		r.c.Nontrivial(xSig(sc))
		if msg != "" {
			fails++
			r.c.Count("oracle-failed:xfind")
			if fails <= 3 {
				s := r.shrinkX(sc, pool)
				m2 := r.runX(s, pool, false)
				if m2 == "" {
					s, m2 = sc, msg
				}
				r.c.Fail(xSig(s), "DHashClient.Find with provider records: "+m2, s)
			}
		}
	}
}

// shrinkX: fewest records / sets / entries on which the oracle still fails
func (r *run) shrinkX(sc *xScenario, pool []pidInfo) *xScenario {
	cp := func(s *xScenario) *xScenario {
		b, _ := json.Marshal(s)
		var out xScenario
		_ = json.Unmarshal(b, &out)
		return &out
	}
	fails := func(s *xScenario) bool {
		defer func() { _ = recover() }()
		return r.runX(s, pool, false) != ""
	}
	cur := cp(sc)
	try := func(f func(s *xScenario) bool) {
		for {
			t := cp(cur)
			if !f(t) || !fails(t) {
				return
			}
			cur = t
		}
	}
	try(func(s *xScenario) bool { // drop a record's contextual set
		for i := range s.Recs {
			if len(s.Recs[i].Ctxs) > 0 {
				s.Recs[i].Ctxs = s.Recs[i].Ctxs[1:]
				return true
			}
		}
		return false
	})
	for i := range cur.Recs {
		i := i
		try(func(s *xScenario) bool {
			if i >= len(s.Recs) || !s.Recs[i].HasExt {
				return false
			}
			s.Recs[i].HasExt = false
			s.Recs[i].Chain, s.Recs[i].Ctxs = xSet{}, nil
			return true
		})
	}
	if cur.Query >= 0 {
		try(func(s *xScenario) bool {
			if len(s.Entries[s.Query]) <= 1 {
				return false
			}
			s.Entries[s.Query] = s.Entries[s.Query][1:]
			return true
		})
		try(func(s *xScenario) bool {
			n := len(s.Entries[s.Query])
			if n <= 1 {
				return false
			}
			s.Entries[s.Query] = s.Entries[s.Query][:n-1]
			return true
		})
	}
	return cur
}
