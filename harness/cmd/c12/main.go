// c12: double-hash encryption round-trips, is deterministic, and fails closed.
//
// Every dhash function is called on structured and malformed inputs under recover();
// direct oracles taken from the property text run on every call; each call and what it
// returned is written as a Coq case, together with the SHA-256 / AES-GCM table the
// model's recipe needs (ref.go).  find.go drives DHashClient end to end.
package main

import (
	"bytes"
	"crypto/sha256"
	"encoding/hex"
	"fmt"
	"io"
	"net/http"
	"runtime/debug"
	"sort"
	"strings"
	"sync"

	"github.com/ipni/go-libipni/dhash"
	"github.com/libp2p/go-libp2p/core/peer"
	"github.com/multiformats/go-multihash"

	"verif/harness/vlib"
)

// ---------------------------------------------------------------------------
// calling the real implementation

type outcome struct {
	Kind string   // ok | err | panic
	Vals [][]byte // results (ok)
	Msg  string
}

func (o outcome) String() string {
	switch o.Kind {
	case "ok":
		s := make([]string, len(o.Vals))
		for i, v := range o.Vals {
			s[i] = hex.EncodeToString(v)
		}
		return "ok[" + strings.Join(s, ",") + "]"
	default:
		return o.Kind + "(" + o.Msg + ")"
	}
}

var arity = map[string]int{
	"SHA256": 2, "SecondMultihash": 1, "EncryptAES": 2, "EncryptValueKey": 2, "EncryptMetadata": 2,
	"DecryptAES": 3, "DecryptValueKey": 2, "DecryptMetadata": 2, "CreateValueKey": 2, "SplitValueKey": 1,
}

var coqCtor = map[string]string{
	"SHA256": "CSha256", "SecondMultihash": "CSecondMultihash", "EncryptAES": "CEncryptAES",
	"EncryptValueKey": "CEncryptValueKey", "EncryptMetadata": "CEncryptMetadata", "DecryptAES": "CDecryptAES",
	"DecryptValueKey": "CDecryptValueKey", "DecryptMetadata": "CDecryptMetadata",
	"CreateValueKey": "CCreateValueKey", "SplitValueKey": "CSplitValueKey",
}

// doCall runs one dhash function on private copies of the arguments and reports
// whether it modified them.
func doCall(fn string, args [][]byte) (out outcome, mutated bool) {
	a := make([][]byte, len(args))
	for i := range args {
		// exact-capacity copies: appending to an argument must not write into a neighbour
		a[i] = make([]byte, len(args[i]))
		copy(a[i], args[i])
	}
	out = invoke(fn, a)
	for i := range args {
		if !bytes.Equal(a[i], args[i]) {
			mutated = true
		}
	}
	return
}

// invoke calls one dhash function on exactly the slices given (callers that want to
// share or reuse buffers pass them here) and maps the result.
func invoke(fn string, a [][]byte) (out outcome) {
	defer func() {
		if p := recover(); p != nil {
			out = outcome{Kind: "panic", Msg: fmt.Sprint(p)}
		}
	}()
	ret := func(b []byte, err error) outcome {
		if err != nil {
			return outcome{Kind: "err", Msg: err.Error()}
		}
		return outcome{Kind: "ok", Vals: [][]byte{b}}
	}
	switch fn {
	case "SHA256":
		// dest gets spare capacity so that h.Sum(dest) appends in place, as callers do
		dest := append(make([]byte, 0, len(a[1])+40), a[1]...)
		out = ret(dhash.SHA256(a[0], dest), nil)
	case "SecondMultihash":
		out = ret(dhash.SecondMultihash(a[0]), nil)
	case "EncryptAES":
		n, c, err := dhash.EncryptAES(a[0], a[1])
		if err != nil {
			out = outcome{Kind: "err", Msg: err.Error()}
		} else {
			out = outcome{Kind: "ok", Vals: [][]byte{n, c}}
		}
	case "EncryptValueKey":
		out = ret(dhash.EncryptValueKey(a[0], a[1]))
	case "EncryptMetadata":
		out = ret(dhash.EncryptMetadata(a[0], a[1]))
	case "DecryptAES":
		out = ret(dhash.DecryptAES(a[0], a[1], a[2]))
	case "DecryptValueKey":
		out = ret(dhash.DecryptValueKey(a[0], a[1]))
	case "DecryptMetadata":
		out = ret(dhash.DecryptMetadata(a[0], a[1]))
	case "CreateValueKey":
		out = ret(dhash.CreateValueKey(peer.ID(a[0]), a[1]), nil)
	case "SplitValueKey":
		pid, ctx, err := dhash.SplitValueKey(a[0])
		if err != nil {
			out = outcome{Kind: "err", Msg: err.Error()}
		} else {
			out = outcome{Kind: "ok", Vals: [][]byte{[]byte(pid), ctx}}
		}
	default:
		panic("unknown fn " + fn)
	}
	return
}

func coqOutcome(o outcome) string {
	switch o.Kind {
	case "ok":
		vs := make([]string, len(o.Vals))
		for i, v := range o.Vals {
			vs[i] = coqBytes(v)
		}
		return "(Ok " + vlib.CoqList(vs) + ")"
	case "err":
		return "(Err 0)"
	}
	return "(Panic 0)"
}

type callReplay struct {
	Kind string   `json:"kind"` // "call"
	Fn   string   `json:"fn"`
	Args []string `json:"args"`          // hex
	Orc  string   `json:"oracle"`        // which oracle the replay re-checks
	Aux  []string `json:"aux,omitempty"` // oracle-specific extra inputs (hex)
	Obs  string   `json:"observed,omitempty"`
}

func hexes(a [][]byte) []string {
	s := make([]string, len(a))
	for i := range a {
		s[i] = hex.EncodeToString(a[i])
	}
	return s
}
func unhexes(s []string) [][]byte {
	a := make([][]byte, len(s))
	for i := range s {
		a[i] = unhexs(s[i])
	}
	return a
}

// ---------------------------------------------------------------------------
// the run

type run struct {
	c        *vlib.Ctx
	failed   map[string]int
	histSeen map[string]bool
}

// call = run the implementation, apply the call-level oracles, emit the Coq case.
func (r *run) call(fn string, args ...[]byte) outcome {
	out, mutated := doCall(fn, args)
	r.c.Eval()
	r.c.Count("fn:" + fn)
	r.c.Count("outcome:" + out.Kind)
	t := newTable()
	t.refCall(fn, args)
	ctor := coqCtor[fn]
	as := make([]string, len(args))
	for i := range args {
		as[i] = coqBytes(args[i])
	}
	r.c.Case("call", "(CC "+t.Coq()+" ("+ctor+" "+strings.Join(as, " ")+") "+coqOutcome(out)+")",
		callReplay{Kind: "call", Fn: fn, Args: hexes(args), Orc: "model", Obs: out.String()})
	if out.Kind == "panic" {
		r.fail("never-panics", fn, args, nil, "panicked: "+out.Msg)
	}
	if mutated {
		r.fail("inputs-unchanged", fn, args, nil, "modified one of its arguments")
	}
	return out
}

// oracles by name: true = the property holds on these inputs
func checkOracle(orc, fn string, args, aux [][]byte) (ok bool, why string) {
	out, mutated := doCall(fn, args)
	switch orc {
	case "never-panics":
		return out.Kind != "panic", "panicked: " + out.Msg
	case "inputs-unchanged":
		return !mutated, "modified one of its arguments"
	case "must-fail": // altered / truncated / wrong-passphrase input: an error, never data, never a panic
		return out.Kind == "err", "returned " + out.String() + ", want an error"
	case "round-trip": // fn = Encrypt*, decrypt(encrypt(p)) == p
		if out.Kind != "ok" {
			return false, "encryption failed: " + out.String()
		}
		var d outcome
		switch fn {
		case "EncryptAES":
			d, _ = doCall("DecryptAES", [][]byte{out.Vals[0], out.Vals[1], args[1]})
		case "EncryptValueKey":
			d, _ = doCall("DecryptValueKey", [][]byte{out.Vals[0], args[1]})
		case "EncryptMetadata":
			d, _ = doCall("DecryptMetadata", [][]byte{out.Vals[0], args[1]})
		}
		if d.Kind != "ok" || !bytes.Equal(d.Vals[0], args[0]) {
			return false, "decrypting the encryption gave " + d.String()
		}
		return true, ""
	case "deterministic":
		out2, _ := doCall(fn, args)
		if out.Kind != "ok" || out2.Kind != "ok" || len(out.Vals) != len(out2.Vals) {
			return false, "two runs: " + out.String() + " / " + out2.String()
		}
		for i := range out.Vals {
			if !bytes.Equal(out.Vals[i], out2.Vals[i]) {
				return false, "two runs differ: " + out.String() + " / " + out2.String()
			}
		}
		return true, ""
	case "split-create": // fn = CreateValueKey(pid, ctx)
		if out.Kind != "ok" {
			return false, out.String()
		}
		s, _ := doCall("SplitValueKey", [][]byte{out.Vals[0]})
		if s.Kind != "ok" || !bytes.Equal(s.Vals[0], args[0]) || !bytes.Equal(s.Vals[1], args[1]) {
			return false, "split of the created key gave " + s.String()
		}
		return true, ""
	case "second-hash": // fn = SecondMultihash(mh)
		if out.Kind != "ok" {
			return false, out.String()
		}
		smh := out.Vals[0]
		dm, err := multihash.Decode(smh)
		if err != nil {
			return false, "second hash is not a multihash: " + err.Error()
		}
		want := sha256.Sum256(cat(refSecondPrefix, args[0]))
		if dm.Code != multihash.DBL_SHA2_256 || !bytes.Equal(dm.Digest, want[:]) {
			return false, fmt.Sprintf("second hash has code %#x digest %x", dm.Code, dm.Digest)
		}
		if bytes.Equal(smh, args[0]) {
			return false, "second hash equals the original"
		}
		return true, ""
	}
	panic("unknown oracle " + orc)
}

// shrinkArgs: shortest arguments (then most zero bytes) on which the oracle still fails.
func shrinkArgs(orc, fn string, args, aux [][]byte) [][]byte {
	fails := func(a [][]byte) bool { ok, _ := checkOracle(orc, fn, a, aux); return !ok }
	cur := make([][]byte, len(args))
	for i := range args {
		cur[i] = clone(args[i])
	}
	for changed := true; changed; {
		changed = false
		for i := range cur {
			// drop a suffix / a prefix / one byte
			for n := 0; n < len(cur[i]); n++ {
				for _, cand := range [][]byte{cur[i][:n], cur[i][len(cur[i])-n:]} {
					try := append([][]byte{}, cur...)
					try[i] = clone(cand)
					if fails(try) {
						cur, changed = try, true
						break
					}
				}
				if changed {
					break
				}
			}
			if changed {
				break
			}
		}
	}
	for i := range cur {
		for j := range cur[i] {
			if cur[i][j] != 0 {
				try := append([][]byte{}, cur...)
				try[i] = clone(cur[i])
				try[i][j] = 0
				if fails(try) {
					cur = try
				}
			}
		}
	}
	return cur
}

func (r *run) fail(orc, fn string, args, aux [][]byte, why string) {
	key := orc + ":" + fn
	r.failed[key]++
	r.c.Count("oracle-failed:" + key)
	if r.failed[key] > 2 { // shrink the first ones only; signatures coincide after shrinking
		return
	}
	s := shrinkArgs(orc, fn, args, aux)
	_, why2 := checkOracle(orc, fn, s, aux)
	if why2 != "" {
		why = why2
	}
	sig := "call:" + orc + ":" + fn + ":" + strings.Join(hexes(s), ":")
	r.c.Fail(sig, fn+"("+strings.Join(hexes(s), ", ")+") "+why,
		callReplay{Kind: "call", Fn: fn, Args: hexes(s), Orc: orc, Aux: hexes(aux)})
}

// oracle = apply a named direct oracle to the implementation
func (r *run) oracle(orc, fn string, args ...[]byte) {
	r.c.Count("oracle:" + orc)
	if ok, why := checkOracle(orc, fn, args, nil); !ok {
		r.fail(orc, fn, args, nil, why)
	}
}

func main() {
	debug.SetMemoryLimit(2 << 30)
	c := vlib.Init("C12")
	defer c.Finish()
	c.Family("call", caseHeader, "fun c => andb pk_selftest (call_case_ok c)", c.Pick(400, 500))
	c.Family("hfind", caseHeader, "fun c => andb pk_selftest (hfind_case_ok c)", 50)
	c.Family("xfind", xfindHeader, "fun c => andb pk_selftest (xfind_case_ok c)", 40)
	c.Family("find", caseHeader, "fun c => andb pk_selftest (find_case_ok c)", c.Pick(60, 80))
	r := &run{c: c, failed: map[string]int{}, histSeen: map[string]bool{}}

	if c.Replay != "" {
		r.replay()
		return
	}

	c.Res.Rule = "dhash calls: every payload length 0..80 and sampled lengths up to 2000 x passphrases (round trip, determinism); every truncation length, every single-bit flip, extensions and wrong passphrases of nonce||ciphertext for short payloads through all three decrypt entry points; nonce lengths 0..24; random blobs; CreateValueKey/SplitValueKey for identity-hashed (ed25519, secp256k1), sha256-hashed (RSA-2048) and synthetic peer IDs x context IDs of 0..64 bytes; malformed value keys (all 1-byte, structured and random); SecondMultihash over 12 multihash codes. find: random small indexes through DHashClient.Find/FindAsync against an in-memory DHStoreAPI, metadata-only and with a pcache over a scripted provider source, with damaged / hostile store contents. non-trivial = a call that exercises a distinct (function, outcome, input-shape) class, or a find whose store holds at least one entry for the queried multihash"
	c.Res.Exhaustive = false

	r.encryptCases()
	r.historyCases()
	r.concurrentCases()
	r.tamperCases()
	r.valueKeyCases()
	r.secondHashCases()
	r.findCases()
	r.xfindCases()
	r.hfindCases()
}

// ---------------------------------------------------------------------------
// generators

var encFns = []string{"EncryptAES", "EncryptValueKey", "EncryptMetadata"}
var decBlobFns = []string{"DecryptValueKey", "DecryptMetadata"}

func (r *run) passphrases(rng *vlib.Rand) [][]byte {
	m, _ := multihash.Sum(rng.Bytes(20), multihash.SHA2_256, -1)
	return [][]byte{
		m,              // a multihash, as for value keys
		{},             // empty
		rng.Bytes(1),   // one byte
		rng.Bytes(70),  // a value key sized passphrase (peer ID + context ID), as for metadata
		rng.Bytes(300), // long
	}
}

func (r *run) encryptCases() {
	rng := r.c.Rng.Fork("enc")
	passes := r.passphrases(rng)
	var lens []int
	for n := 0; n <= 80; n++ {
		lens = append(lens, n)
	}
	for _, n := range []int{95, 96, 97, 127, 128, 129, 255, 256, 257, 511, 512, 1000, 1023, 1024, 1025, 1999, 2000} {
		lens = append(lens, n)
	}
	for i := 0; i < r.c.Pick(10, 300); i++ {
		lens = append(lens, 81+rng.Intn(1920))
	}
	if r.c.Thorough() {
		for n := 81; n <= 2000; n += 7 {
			lens = append(lens, n)
		}
	}
	for i, n := range lens {
		payload := rng.Bytes(n)
		if i%5 == 0 {
			payload = make([]byte, n) // all zero
		}
		np := 2
		if n > 80 {
			np = 1
		}
		for k := 0; k < np; k++ {
			pass := passes[(i+k*2)%len(passes)]
			enc := encFns[(i+k)%3]
			out := r.call(enc, payload, pass)
			r.oracle("round-trip", enc, payload, pass)
			r.oracle("deterministic", enc, payload, pass)
			r.c.Nontrivial(fmt.Sprintf("enc:%s:len%d:pass%d", enc, n, len(pass)))
			if out.Kind != "ok" {
				r.fail("round-trip", enc, [][]byte{payload, pass}, nil, "encryption failed: "+out.String())
				continue
			}
			// the decryption of what was produced, as a model case of its own
			switch enc {
			case "EncryptAES":
				if len(out.Vals[0]) != 12 {
					r.fail("round-trip", enc, [][]byte{payload, pass}, nil, fmt.Sprintf("nonce has %d bytes", len(out.Vals[0])))
				}
				r.call("DecryptAES", out.Vals[0], out.Vals[1], pass)
			case "EncryptValueKey":
				r.call("DecryptValueKey", out.Vals[0], pass)
			case "EncryptMetadata":
				r.call("DecryptMetadata", out.Vals[0], pass)
			}
			// the three entry points must agree on the bytes (one recipe)
			if n <= 16 {
				a, _ := doCall("EncryptValueKey", [][]byte{payload, pass})
				b, _ := doCall("EncryptMetadata", [][]byte{payload, pass})
				if a.Kind == "ok" && b.Kind == "ok" && !bytes.Equal(a.Vals[0], b.Vals[0]) {
					r.fail("deterministic", "EncryptValueKey", [][]byte{payload, pass}, nil, "EncryptValueKey and EncryptMetadata differ on equal inputs")
				}
			}
		}
	}
	// equal ciphertext <=> equal payload, on pairs
	for i := 0; i < r.c.Pick(40, 400); i++ {
		pass := passes[i%len(passes)]
		p1 := rng.Bytes(rng.Intn(40))
		p2 := clone(p1)
		if len(p2) > 0 && i%2 == 0 {
			p2[rng.Intn(len(p2))] ^= byte(1 << rng.Intn(8))
		}
		a, _ := doCall("EncryptValueKey", [][]byte{p1, pass})
		b, _ := doCall("EncryptValueKey", [][]byte{p2, pass})
		r.c.Count("oracle:comparable")
		if a.Kind == "ok" && b.Kind == "ok" && bytes.Equal(a.Vals[0], b.Vals[0]) != bytes.Equal(p1, p2) {
			r.fail("deterministic", "EncryptValueKey", [][]byte{p1, pass}, nil, "ciphertext equality does not follow payload equality")
		}
	}
	// SHA256 with and without a destination prefix
	for i := 0; i < r.c.Pick(12, 60); i++ {
		p := rng.Bytes(rng.Intn(100))
		d := rng.Bytes((i % 4) * 5)
		out := r.call("SHA256", p, d)
		want := sha256.Sum256(p)
		if out.Kind != "ok" || !bytes.Equal(out.Vals[0], cat(d, want[:])) {
			r.fail("deterministic", "SHA256", [][]byte{p, d}, nil, "SHA256(payload, dest) is not dest||sha256(payload): "+out.String())
		}
	}
}

// concurrentCases: the functions append to package-level prefixes and to slices of
// fresh digests; calls running at the same time must not see each other's bytes.
func (r *run) concurrentCases() {
	rng := r.c.Rng.Fork("conc")
	type job struct {
		fn   string
		args [][]byte
		want outcome
	}
	var jobs []job
	for i := 0; i < r.c.Pick(400, 4000); i++ {
		var j job
		switch i % 3 {
		case 0:
			j = job{fn: "SecondMultihash", args: [][]byte{rng.Bytes(1 + rng.Intn(40))}}
		case 1:
			j = job{fn: "EncryptValueKey", args: [][]byte{rng.Bytes(rng.Intn(6)), rng.Bytes(rng.Intn(40))}}
		default:
			j = job{fn: "EncryptMetadata", args: [][]byte{rng.Bytes(rng.Intn(60)), rng.Bytes(rng.Intn(80))}}
		}
		j.want, _ = doCall(j.fn, j.args)
		jobs = append(jobs, j)
	}
	const workers = 8
	bad := make([]int, workers)
	for w := range bad {
		bad[w] = -1
	}
	var wg sync.WaitGroup
	for w := 0; w < workers; w++ {
		wg.Add(1)
		go func(w int) {
			defer wg.Done()
			for round := 0; round < 3; round++ {
				for i := w; i < len(jobs); i += workers {
					got, _ := doCall(jobs[i].fn, jobs[i].args)
					if got.String() != jobs[i].want.String() && bad[w] < 0 {
						bad[w] = i
					}
				}
			}
		}(w)
	}
	wg.Wait()
	r.c.CountN("oracle:concurrent-consistency", 3*len(jobs))
	r.c.CountN("evaluations-without-model-case", 3*len(jobs))
	for _, i := range bad {
		if i >= 0 {
			r.c.Fail("call:concurrent:"+jobs[i].fn+":"+strings.Join(hexes(jobs[i].args), ":"),
				jobs[i].fn+" returned different bytes when other calls ran at the same time",
				callReplay{Kind: "call", Fn: jobs[i].fn, Args: hexes(jobs[i].args), Orc: "deterministic"})
		}
	}
}

func (r *run) mustFail(fn string, args ...[]byte) {
	out := r.call(fn, args...)
	if out.Kind == "panic" {
		// already reported by the never-panics oracle on this very input
		r.c.Count("oracle:must-fail")
		return
	}
	r.oracle("must-fail", fn, args...)
}

func (r *run) tamperCases() {
	rng := r.c.Rng.Fork("tamper")
	passes := r.passphrases(rng)
	plens := []int{0, 1, 2, 5}
	if r.c.Thorough() {
		plens = []int{0, 1, 2, 3, 4, 5, 8, 15, 16, 17, 33}
	}
	for pi, n := range plens {
		payload := rng.Bytes(n)
		pass := passes[pi%len(passes)]
		enc, _ := doCall("EncryptAES", [][]byte{payload, pass})
		if enc.Kind != "ok" {
			continue
		}
		nonce, ct := enc.Vals[0], enc.Vals[1]
		blob := cat(nonce, ct)
		// every truncation length
		for k := 0; k < len(blob); k++ {
			fn := decBlobFns[(k+pi)%2]
			r.mustFail(fn, blob[:k], pass)
			r.mustFail(decBlobFns[(k+pi+1)%2], blob[:k], pass)
			r.c.Nontrivial(fmt.Sprintf("trunc:%d:%d", n, k))
			// the same cut seen by DecryptAES: nonce and ciphertext are separate arguments
			if k < 12 {
				r.mustFail("DecryptAES", blob[:k], ct, pass)  // short nonce, whole ciphertext
				r.mustFail("DecryptAES", blob[:k], nil, pass) // short nonce, nothing else
			} else {
				r.mustFail("DecryptAES", nonce, blob[12:k], pass)
			}
		}
		// cut from the front
		for k := 1; k <= len(blob); k++ {
			r.mustFail(decBlobFns[(k+pi)%2], blob[k:], pass)
		}
		// every single-bit flip
		for bit := 0; bit < 8*len(blob); bit++ {
			m := clone(blob)
			m[bit/8] ^= 1 << (bit % 8)
			switch bit % 3 {
			case 0:
				r.mustFail("DecryptValueKey", m, pass)
			case 1:
				r.mustFail("DecryptMetadata", m, pass)
			default:
				r.mustFail("DecryptAES", m[:12], m[12:], pass)
			}
			r.c.Nontrivial(fmt.Sprintf("flip:%d:%d", n, bit))
		}
		// extension
		for _, extra := range [][]byte{{0}, {0xff}, rng.Bytes(16), rng.Bytes(12)} {
			r.mustFail(decBlobFns[pi%2], cat(blob, extra), pass)
			r.mustFail("DecryptAES", nonce, cat(ct, extra), pass)
			r.mustFail("DecryptAES", cat(nonce, extra), ct, pass)
			r.mustFail(decBlobFns[pi%2], cat(extra, blob), pass)
		}
		// wrong passphrase
		for _, wp := range [][]byte{{}, cat(pass, []byte{0}), rng.Bytes(len(pass)), rng.Bytes(34)} {
			if bytes.Equal(wp, pass) {
				continue
			}
			if len(pass) > 0 {
				w2 := clone(pass)
				w2[rng.Intn(len(w2))] ^= byte(1 << rng.Intn(8))
				r.mustFail("DecryptAES", nonce, ct, w2)
				r.mustFail(decBlobFns[pi%2], blob, pass[:len(pass)-1])
			}
			r.mustFail(decBlobFns[pi%2], blob, wp)
			r.mustFail(decBlobFns[(pi+1)%2], blob, wp)
			r.c.Nontrivial(fmt.Sprintf("wrongpass:%d:%d", n, len(wp)))
		}
	}
	// nonce of every length 0..24 with a genuine ciphertext, and with garbage
	{
		payload, pass := rng.Bytes(9), passes[0]
		enc, _ := doCall("EncryptAES", [][]byte{payload, pass})
		for k := 0; k <= 24; k++ {
			if k == 12 {
				continue
			}
			nn := rng.Bytes(k)
			copy(nn, enc.Vals[0])
			r.mustFail("DecryptAES", nn, enc.Vals[1], pass)
			r.mustFail("DecryptAES", nn, rng.Bytes(rng.Intn(40)), rng.Bytes(rng.Intn(5)))
			r.c.Nontrivial(fmt.Sprintf("noncelen:%d", k))
		}
	}
	// random blobs of every small length, nil and empty arguments
	for n := 0; n <= 45; n++ {
		for k := 0; k < r.c.Pick(2, 20); k++ {
			b := rng.Bytes(n)
			r.mustFail(decBlobFns[(n+k)%2], b, passes[(n+k)%len(passes)])
		}
		r.c.Nontrivial(fmt.Sprintf("garbage:%d", n))
	}
	for i := 0; i < r.c.Pick(30, 600); i++ {
		r.mustFail("DecryptAES", rng.Bytes(rng.Intn(20)), rng.Bytes(rng.Intn(60)), rng.Bytes(rng.Intn(40)))
	}
	r.mustFail("DecryptValueKey", nil, nil)
	r.mustFail("DecryptMetadata", nil, nil)
	r.mustFail("DecryptAES", nil, nil, nil)
}

// malformed value keys
func malformedValueKeys(rng *vlib.Rand, pool []pidInfo, thorough bool) [][]byte {
	var out [][]byte
	out = append(out, []byte{})
	for b := 0; b < 256; b++ {
		out = append(out, []byte{byte(b)})
	}
	// structured: varint edge cases for code and length
	varints := [][]byte{
		{0x00}, {0x7f}, {0x80, 0x01}, {0x80, 0x00}, {0x80}, {0xff}, {0xff, 0xff},
		{0x80, 0x80, 0x00}, {0x81, 0x80, 0x80, 0x00},
		{0xff, 0xff, 0xff, 0xff, 0x07},                               // MaxInt32
		{0x80, 0x80, 0x80, 0x80, 0x08},                               // MaxInt32+1
		{0xff, 0xff, 0xff, 0xff, 0xff, 0xff, 0xff, 0xff, 0x7f},       // 2^63-1
		{0xff, 0xff, 0xff, 0xff, 0xff, 0xff, 0xff, 0xff, 0x80, 0x00}, // 9th byte continues
		{0xff, 0xff, 0xff, 0xff, 0xff, 0xff, 0xff, 0xff, 0xff, 0x01}, // 10 bytes
		{0x80, 0x80, 0x80, 0x80, 0x80, 0x80, 0x80, 0x80, 0x80},       // underflow after 9
	}
	for _, cv := range varints {
		for _, lv := range varints {
			for _, tail := range [][]byte{{}, {0x01}, rng.Bytes(3), rng.Bytes(40)} {
				out = append(out, cat(cv, lv, tail))
			}
		}
	}
	// length field against what follows
	for l := 0; l <= 6; l++ {
		for have := 0; have <= 6; have++ {
			out = append(out, cat([]byte{0x12, byte(l)}, rng.Bytes(have)))
			out = append(out, cat([]byte{0x00, byte(l)}, rng.Bytes(have)))
		}
	}
	// every cut of a few genuine value keys
	for i, p := range pool {
		if i%3 != 0 && !thorough {
			continue
		}
		vk := cat([]byte(p.ID), rng.Bytes(5))
		for k := 0; k < len(vk); k++ {
			out = append(out, vk[:k])
		}
		for k := 1; k < len(vk) && k < 8; k++ {
			out = append(out, vk[k:])
		}
	}
	n := 300
	if thorough {
		n = 6000
	}
	for i := 0; i < n; i++ {
		out = append(out, rng.Bytes(2+rng.Intn(6)))
	}
	return out
}

func (r *run) valueKeyCases() {
	rng := r.c.Rng.Fork("vk")
	pool := makePeerPool(r.c.Rng, 6, 3, 2)
	syn := syntheticPids(rng)
	// each key-derived kind with every context length 0..64
	kinds := map[string]bool{}
	for _, p := range pool {
		all := !kinds[p.Kind]
		kinds[p.Kind] = true
		for n := 0; n <= 64; n++ {
			if !all && n%8 != 3 && !r.c.Thorough() {
				continue
			}
			ctx := rng.Bytes(n)
			out := r.call("CreateValueKey", []byte(p.ID), ctx)
			r.oracle("split-create", "CreateValueKey", []byte(p.ID), ctx)
			if out.Kind == "ok" {
				r.call("SplitValueKey", out.Vals[0])
			}
			r.c.Count("pid:" + p.Kind)
			r.c.Nontrivial(fmt.Sprintf("vk:%s:%d", p.Kind, n))
		}
	}
	for _, p := range syn {
		for _, n := range []int{0, 1, 33, 64, 200} {
			ctx := rng.Bytes(n)
			// a context ID that itself looks like a multihash must not confuse the split
			if n == 33 {
				ctx = cat([]byte{0x12, 0x20}, rng.Bytes(32))[:33]
			}
			out := r.call("CreateValueKey", []byte(p.ID), ctx)
			r.oracle("split-create", "CreateValueKey", []byte(p.ID), ctx)
			if out.Kind == "ok" {
				r.call("SplitValueKey", out.Vals[0])
			}
			r.c.Count("pid:" + p.Kind)
			r.c.Nontrivial(fmt.Sprintf("vk:%s:%d", p.Kind, n))
		}
	}
	// malformed stream
	for _, vk := range malformedValueKeys(rng, pool, r.c.Thorough()) {
		out := r.call("SplitValueKey", vk)
		r.c.Count("split-malformed:" + out.Kind)
		if out.Kind == "ok" {
			// whatever is accepted must be a faithful split: pid||ctx == input and pid is one multihash
			if !bytes.Equal(cat(out.Vals[0], out.Vals[1]), vk) {
				r.fail("split-create", "CreateValueKey", [][]byte{out.Vals[0], out.Vals[1]}, nil, "split of "+hex.EncodeToString(vk)+" does not concatenate back")
			} else {
				r.oracle("split-create", "CreateValueKey", out.Vals[0], out.Vals[1])
			}
		}
	}
	// never-panics on every input of at most 2 bytes (implementation only, no model case)
	for a := 0; a < 256; a++ {
		for b := 0; b < 256; b++ {
			if o, _ := doCall("SplitValueKey", [][]byte{{byte(a), byte(b)}}); o.Kind == "panic" {
				r.fail("never-panics", "SplitValueKey", [][]byte{{byte(a), byte(b)}}, nil, o.Msg)
			}
		}
	}
	r.c.CountN("oracle:never-panics-split-2byte-exhaustive", 65536)
}

func (r *run) secondHashCases() {
	rng := r.c.Rng.Fork("second")
	type hc struct {
		code uint64
		n    int
	}
	codes := []hc{{multihash.SHA2_256, 32}, {multihash.SHA2_512, 64}, {multihash.SHA3_256, 32}, {multihash.SHA1, 20},
		{multihash.IDENTITY, 10}, {multihash.IDENTITY, 0}, {multihash.DBL_SHA2_256, 32}, {0xb220, 32}, {multihash.BLAKE3, 32},
		{multihash.MD5, 16}, {multihash.MURMUR3X64_64, 8}, {multihash.SHA2_256_TRUNC254_PADDED, 32}}
	for _, h := range codes {
		for k := 0; k < r.c.Pick(3, 20); k++ {
			mh, _ := multihash.Encode(rng.Bytes(h.n), h.code)
			r.call("SecondMultihash", mh)
			r.oracle("second-hash", "SecondMultihash", mh)
			r.oracle("deterministic", "SecondMultihash", mh)
			r.c.Nontrivial(fmt.Sprintf("second:%x", h.code))
		}
	}
	// genuinely hashed data
	for k := 0; k < 5; k++ {
		mh, err := multihash.Sum(rng.Bytes(50), multihash.SHA2_256, -1)
		if err != nil {
			panic(err)
		}
		out := r.call("SecondMultihash", mh)
		r.oracle("second-hash", "SecondMultihash", mh)
		// the second hash of the second hash is again different
		if out.Kind == "ok" {
			r.call("SecondMultihash", out.Vals[0])
			r.oracle("second-hash", "SecondMultihash", out.Vals[0])
		}
	}
	// not multihashes at all: the function is total on bytes
	for _, b := range [][]byte{nil, {}, {0x56}, {0x56, 0x20}, rng.Bytes(3), rng.Bytes(100)} {
		r.call("SecondMultihash", b)
		r.oracle("second-hash", "SecondMultihash", b)
	}
}

// ---------------------------------------------------------------------------
// find

var corruptions = []string{"evk-flip", "evk-flip-nonce", "evk-trunc-tag", "evk-trunc-11", "evk-trunc-12", "evk-trunc-20",
	"evk-empty", "evk-extend", "evk-wrong-mh", "vk-garbage", "vk-truncated", "md-missing", "md-err", "md-flip",
	"md-trunc-12", "md-trunc-5", "md-trunc-tag", "md-wrong-key", "md-empty-plaintext"}

func (r *run) genScenario(rng *vlib.Rand, pool []pidInfo, hostile bool, pcache bool) *findScenario {
	sc := &findScenario{Kind: "find", PCache: pcache}
	nRows := 1 + rng.Intn(3)
	used := map[string]bool{}
	mdOf := map[string][]byte{}
	var intact []fEntry
	for i := 0; i < nRows; i++ {
		var mh []byte
		if rng.Intn(4) == 0 {
			mh, _ = multihash.Encode(rng.Bytes(64), multihash.SHA2_512)
		} else {
			mh, _ = multihash.Sum(rng.Bytes(16), multihash.SHA2_256, -1)
		}
		row := fRow{Mh: hex.EncodeToString(mh)}
		nEnt := rng.Intn(5)
		for j := 0; j < nEnt; j++ {
			if len(intact) > 0 && rng.Intn(5) == 0 { // the same provider+context under another multihash
				e := intact[rng.Intn(len(intact))]
				dup := false
				for _, x := range row.Entries {
					if x.Pid == e.Pid && x.Ctx == e.Ctx {
						dup = true
					}
				}
				if !dup {
					row.Entries = append(row.Entries, e)
					continue
				}
			}
			p := pool[rng.Intn(len(pool))]
			var ctx []byte
			for {
				switch rng.Intn(6) {
				case 0:
					ctx = []byte{}
				case 1:
					ctx = rng.Bytes(64)
				default:
					ctx = rng.Bytes(rng.Intn(65))
				}
				if !used[string(p.ID)+"/"+string(ctx)] {
					break
				}
			}
			k := string(p.ID) + "/" + string(ctx)
			used[k] = true
			md := rng.Bytes(1 + rng.Intn(40))
			mdOf[k] = md
			e := fEntry{Pid: hex.EncodeToString([]byte(p.ID)), Ctx: hex.EncodeToString(ctx), Md: hex.EncodeToString(md)}
			if hostile && rng.Intn(2) == 0 {
				e.Corrupt = corruptions[rng.Intn(len(corruptions))]
			} else {
				intact = append(intact, e)
			}
			row.Entries = append(row.Entries, e)
		}
		if hostile {
			for j := rng.Intn(3); j > 0; j-- {
				row.Junk = append(row.Junk, hex.EncodeToString(rng.Bytes(rng.Intn(45))))
			}
			if rng.Intn(12) == 0 {
				row.Err = true
			}
		}
		row.Groups = 1 + rng.Intn(3)
		sc.Rows = append(sc.Rows, row)
	}
	q := rng.Intn(nRows + 1)
	if q == nRows || rng.Intn(10) == 0 { // a multihash that was never indexed
		m, _ := multihash.Sum(rng.Bytes(16), multihash.SHA2_256, -1)
		sc.Query = hex.EncodeToString(m)
	} else {
		sc.Query = sc.Rows[q].Mh
	}
	return sc
}

func (r *run) runScenario(env *findEnv, sc *findScenario, emit bool) (failed string) {
	st, want, wantErr := buildStore(sc, env.known)
	mh := unhexs(sc.Query)
	out, disagree := env.runFind(st, mh, sc.PCache)
	if emit {
		r.c.Eval()
		r.c.Count("find:" + out.kind)
		t := newTable()
		t.refFind(st, mh)
		r.c.Case("find", coqFindCase(t, st, env.known, env.knownSeq, sc.PCache, mh, out), sc)
	}
	switch {
	case out.kind == "panic":
		return "panicked: " + out.msg
	case wantErr && out.kind != "err":
		return "the store failed the multihash lookup but find returned " + fmt.Sprint(out.results)
	case !wantErr && out.kind == "err":
		return "find failed: " + out.msg
	case !wantErr && !samePresults(out.results, want):
		return fmt.Sprintf("find returned %v, indexed (and intact) for this multihash: %v", out.results, want)
	case disagree != "":
		return disagree
	}
	return ""
}

// shrinkScenario: fewest rows / entries / junk on which the find oracle still fails
func (r *run) shrinkScenario(env *findEnv, sc *findScenario) *findScenario {
	return shrinkScenarioWith(sc, func(s *findScenario) bool {
		defer func() { _ = recover() }()
		return r.runScenario(env, s, false) != ""
	})
}

func shrinkScenarioWith(sc *findScenario, fails func(*findScenario) bool) *findScenario {
	cp := func(s *findScenario) *findScenario {
		n := *s
		n.Rows = nil
		for _, row := range s.Rows {
			nr := row
			nr.Entries = append([]fEntry{}, row.Entries...)
			nr.Junk = append([]string{}, row.Junk...)
			n.Rows = append(n.Rows, nr)
		}
		return &n
	}
	cur := cp(sc)
	if cur.PCache {
		t := cp(cur)
		t.PCache = false
		if fails(t) {
			cur = t
		}
	}
	for changed := true; changed; {
		changed = false
		for i := range cur.Rows {
			if cur.Rows[i].Mh != cur.Query || len(cur.Rows) > 1 {
				t := cp(cur)
				t.Rows = append(t.Rows[:i], t.Rows[i+1:]...)
				if len(t.Rows) > 0 && fails(t) {
					cur, changed = t, true
					break
				}
			}
			for j := range cur.Rows[i].Entries {
				t := cp(cur)
				t.Rows[i].Entries = append(t.Rows[i].Entries[:j], t.Rows[i].Entries[j+1:]...)
				if fails(t) {
					cur, changed = t, true
					break
				}
			}
			if changed {
				break
			}
			for j := range cur.Rows[i].Junk {
				t := cp(cur)
				t.Rows[i].Junk = append(t.Rows[i].Junk[:j], t.Rows[i].Junk[j+1:]...)
				if fails(t) {
					cur, changed = t, true
					break
				}
			}
			if changed {
				break
			}
			if cur.Rows[i].Groups > 1 {
				t := cp(cur)
				t.Rows[i].Groups = 1
				if fails(t) {
					cur, changed = t, true
					break
				}
			}
		}
	}
	// canonical small values
	for i := range cur.Rows {
		for j := range cur.Rows[i].Junk {
			for n := 0; n < len(cur.Rows[i].Junk[j])/2; n++ {
				t := cp(cur)
				t.Rows[i].Junk[j] = strings.Repeat("00", n)
				if fails(t) {
					cur = t
					break
				}
			}
		}
		for j := range cur.Rows[i].Entries {
			for _, f := range []func(e *fEntry){func(e *fEntry) { e.Ctx = "" }, func(e *fEntry) { e.Md = "01" }} {
				t := cp(cur)
				f(&t.Rows[i].Entries[j])
				if fails(t) {
					cur = t
				}
			}
		}
	}
	{
		// a fixed multihash in place of the random one
		t := cp(cur)
		fixed, _ := multihash.Sum([]byte("c12"), multihash.SHA2_256, -1)
		for i := range t.Rows {
			if t.Rows[i].Mh == t.Query {
				t.Rows[i].Mh = hex.EncodeToString(fixed)
			}
		}
		t.Query = hex.EncodeToString(fixed)
		if fails(t) {
			cur = t
		}
	}
	return cur
}

func scenarioSig(sc *findScenario) string {
	var parts []string
	for _, row := range sc.Rows {
		var es []string
		for _, e := range row.Entries {
			c := e.Corrupt
			if c == "" {
				c = "intact"
			}
			es = append(es, fmt.Sprintf("%s(pid%d,ctx%d,md%d)", c, len(e.Pid)/2, len(e.Ctx)/2, len(e.Md)/2))
		}
		for _, j := range row.Junk {
			es = append(es, "junk="+j)
		}
		q := ""
		if row.Mh == sc.Query {
			q = "*"
		}
		if row.Err {
			q += "!"
		}
		parts = append(parts, q+"["+strings.Join(es, ",")+"]")
	}
	sort.Strings(parts)
	m := "mdonly"
	if sc.PCache {
		m = "pcache"
	}
	return "find:" + m + ":" + strings.Join(parts, "")
}

func (r *run) findCases() {
	rng := r.c.Rng.Fork("find")
	pool := makePeerPool(r.c.Rng.Fork("findpool"), 5, 1, 2)
	known := map[peer.ID]int{}
	var knownSeq []peer.ID
	for i, p := range pool {
		if i%4 != 3 { // every fourth provider is unknown to the provider source
			known[p.ID] = i + 1
			knownSeq = append(knownSeq, p.ID)
		}
	}
	env := newFindEnv(known, knownSeq)
	defer env.prov.srv.Close()
	n := r.c.Pick(240, 4000)
	fails := 0
	for i := 0; i < n; i++ {
		hostile := i%3 == 2
		pcache := i%4 == 1
		sc := r.genScenario(rng, pool, hostile, pcache)
		msg := r.runScenario(env, sc, true)
		for _, row := range sc.Rows {
			if row.Mh == sc.Query && len(row.Entries) > 0 {
				r.c.Nontrivial(fmt.Sprintf("find:%d", i))
			}
			for _, e := range row.Entries {
				if e.Corrupt != "" {
					r.c.Count("find-corrupt:" + e.Corrupt)
				}
			}
		}
		r.c.Count(fmt.Sprintf("find-mode:pcache=%v,hostile=%v", pcache, hostile))
		if i%97 == 3 {
			r.c.Sample(sc)
		}
		if msg != "" {
			fails++
			r.c.Count("oracle-failed:find")
			if fails <= 3 {
				s := r.shrinkScenario(env, sc)
				m2 := r.runScenario(env, s, false)
				if m2 == "" {
					s, m2 = sc, msg
				}
				r.c.Fail(scenarioSig(s), "DHashClient.Find: "+m2, s)
			}
		}
	}
}

// ---------------------------------------------------------------------------
// replay

func (r *run) replay() {
	var probe struct {
		Kind string `json:"kind"`
	}
	if err := r.c.LoadReplay(&probe); err != nil {
		panic(err)
	}
	switch probe.Kind {
	case "history":
		var h chistory
		if err := r.c.LoadReplay(&h); err != nil {
			panic(err)
		}
		clean := cleanTable{}
		for _, c := range h.Calls {
			clean.get(c.Fn, unhexes(c.Args)...)
		}
		msg := r.runHistory(&h, clean, true)
		fmt.Println("replay", h.sig())
		if msg != "" {
			fmt.Println("ORACLE-FAIL:", msg)
			r.c.Fail("replay", msg, h)
		} else {
			fmt.Println("oracles hold")
		}
	case "hfind":
		var h hScenario
		if err := r.c.LoadReplay(&h); err != nil {
			panic(err)
		}
		env := newHEnv(r.c.Rng)
		defer env.close()
		// once on a cold client, then again on its now warm keep-alive connection (where the
		// transport may re-send a request the server hung up on)
		msg := r.runH(env, &h, true)
		if resp, err := http.Get(env.dh.srv.URL + "/providers"); err == nil { // leaves an idle keep-alive connection
			_, _ = io.Copy(io.Discard, resp.Body)
			resp.Body.Close()
		}
		if m2 := r.runH(env, &h, false); msg == "" {
			msg = m2
		}
		fmt.Println("replay", hSig(&h))
		if msg != "" {
			fmt.Println("ORACLE-FAIL:", msg)
			r.c.Fail("replay", msg, h)
		} else {
			fmt.Println("oracles hold")
		}
	case "xfind":
		var sc xScenario
		if err := r.c.LoadReplay(&sc); err != nil {
			panic(err)
		}
		pool := makePeerPool(r.c.Rng.Fork("findpool"), 5, 1, 2)
		msg := r.runX(&sc, pool, true)
		fmt.Println("replay", xSig(&sc))
		if msg != "" {
			fmt.Println("ORACLE-FAIL:", msg)
			r.c.Fail("replay", msg, sc)
		} else {
			fmt.Println("oracles hold")
		}
	case "late-provider":
		r.lateProviderCases(r.c.Rng.Fork("hfind"))
		fmt.Println("replayed the late-provider histories (all variants)")
	case "constructor":
		fmt.Println("constructor / cancellation cases are not replayable one by one; run the check")
	case "concurrent-history":
		fmt.Println("concurrent histories are not replayable one by one; run the check")
	case "find":
		var sc findScenario
		if err := r.c.LoadReplay(&sc); err != nil {
			panic(err)
		}
		pool := makePeerPool(r.c.Rng.Fork("findpool"), 5, 1, 2)
		known := map[peer.ID]int{}
		var knownSeq []peer.ID
		for i, p := range pool {
			if i%4 != 3 {
				known[p.ID] = i + 1
				knownSeq = append(knownSeq, p.ID)
			}
		}
		env := newFindEnv(known, knownSeq)
		defer env.prov.srv.Close()
		msg := r.runScenario(env, &sc, true)
		fmt.Printf("replay find: query=%s rows=%d pcache=%v\n", sc.Query, len(sc.Rows), sc.PCache)
		if msg != "" {
			fmt.Println("ORACLE-FAIL:", msg)
			r.c.Fail("replay", msg, sc)
		} else {
			fmt.Println("oracle holds")
		}
	default:
		var cr callReplay
		if err := r.c.LoadReplay(&cr); err != nil {
			panic(err)
		}
		args := unhexes(cr.Args)
		if len(args) != arity[cr.Fn] {
			panic("bad replay: arity")
		}
		out, _ := doCall(cr.Fn, args)
		fmt.Printf("replay %s(%s) -> %s\n", cr.Fn, strings.Join(cr.Args, ", "), out)
		t := newTable()
		t.refCall(cr.Fn, args)
		as := make([]string, len(args))
		for i := range args {
			as[i] = coqBytes(args[i])
		}
		r.c.Case("call", "(CC "+t.Coq()+" ("+coqCtor[cr.Fn]+" "+strings.Join(as, " ")+") "+coqOutcome(out)+")", cr)
		r.c.Eval()
		orc := cr.Orc
		if orc == "" || orc == "model" {
			orc = "never-panics"
		}
		if ok, why := checkOracle(orc, cr.Fn, args, unhexes(cr.Aux)); !ok {
			fmt.Println("ORACLE-FAIL:", orc, why)
			r.c.Fail("replay", cr.Fn+": "+why, cr)
		} else {
			fmt.Println("oracle", orc, "holds")
		}
	}
}
