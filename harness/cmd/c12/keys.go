package main

// Peer IDs of every kind, generated deterministically from the run's PRNG:
// ed25519 and secp256k1 public keys are short enough to be inlined (identity
// multihash), RSA-2048 keys are hashed (sha2-256 multihash).

import (
	"crypto/rsa"
	"crypto/x509"
	"fmt"
	"math/big"

	ic "github.com/libp2p/go-libp2p/core/crypto"
	"github.com/libp2p/go-libp2p/core/peer"
	"github.com/multiformats/go-multihash"

	"verif/harness/vlib"
)

type rngReader struct{ r *vlib.Rand }

func (r rngReader) Read(p []byte) (int, error) {
	copy(p, r.r.Bytes(len(p)))
	return len(p), nil
}

// detPrime returns a deterministic prime of the given bit size (top two bits set so
// that a product of two has exactly 2*bits bits).  rsa.GenerateKey deliberately
// defeats deterministic readers, hence this.
func detPrime(r *vlib.Rand, bits int) *big.Int {
	for {
		b := r.Bytes(bits / 8)
		b[0] |= 0xC0
		b[len(b)-1] |= 1
		p := new(big.Int).SetBytes(b)
		if p.ProbablyPrime(20) {
			return p
		}
	}
}

type pidInfo struct {
	ID   peer.ID
	Kind string // ed25519-identity | secp256k1-identity | rsa2048-sha256 | synthetic-<x>
}

func rsaPeerID(r *vlib.Rand) (peer.ID, error) {
	p, q := detPrime(r, 1024), detPrime(r, 1024)
	pub := &rsa.PublicKey{N: new(big.Int).Mul(p, q), E: 65537}
	der, err := x509.MarshalPKIXPublicKey(pub)
	if err != nil {
		return "", err
	}
	pk, err := ic.UnmarshalRsaPublicKey(der)
	if err != nil {
		return "", err
	}
	return peer.IDFromPublicKey(pk)
}

func makePeerPool(r *vlib.Rand, nEd, nSecp, nRSA int) []pidInfo {
	var pool []pidInfo
	rd := rngReader{r.Fork("keys")}
	for i := 0; i < nEd; i++ {
		_, pub, err := ic.GenerateEd25519Key(rd)
		if err != nil {
			panic(err)
		}
		id, err := peer.IDFromPublicKey(pub)
		if err != nil {
			panic(err)
		}
		pool = append(pool, pidInfo{id, "ed25519-identity"})
	}
	for i := 0; i < nSecp; i++ {
		_, pub, err := ic.GenerateSecp256k1Key(rd)
		if err != nil {
			panic(err)
		}
		id, err := peer.IDFromPublicKey(pub)
		if err != nil {
			panic(err)
		}
		pool = append(pool, pidInfo{id, "secp256k1-identity"})
	}
	rr := r.Fork("rsa")
	for i := 0; i < nRSA; i++ {
		id, err := rsaPeerID(rr)
		if err != nil {
			panic(err)
		}
		pool = append(pool, pidInfo{id, "rsa2048-sha256"})
	}
	for _, p := range pool {
		dm, err := multihash.Decode([]byte(p.ID))
		if err != nil {
			panic(err)
		}
		want := uint64(multihash.IDENTITY)
		if p.Kind == "rsa2048-sha256" {
			want = multihash.SHA2_256
		}
		if dm.Code != want {
			panic(fmt.Sprintf("peer ID kind %s has multihash code %#x", p.Kind, dm.Code))
		}
	}
	return pool
}

// syntheticPids: valid multihashes that libp2p accepts as peer IDs without being
// derived from a key (other codes, multi-byte varint code, empty and long digests).
func syntheticPids(r *vlib.Rand) []pidInfo {
	var out []pidInfo
	mk := func(code uint64, n int, kind string) {
		m, _ := multihash.Encode(r.Bytes(n), code)
		out = append(out, pidInfo{peer.ID(m), "synthetic-" + kind})
	}
	mk(multihash.IDENTITY, 0, "identity-empty")
	mk(multihash.IDENTITY, 1, "identity-1")
	mk(multihash.IDENTITY, 36, "identity-36")
	mk(multihash.SHA2_256, 32, "sha256-32")
	mk(multihash.SHA2_512, 64, "sha512-64")
	mk(0xb220, 32, "blake2b256-2bytecode")
	mk(multihash.SHA2_256, 127, "len-127")
	mk(multihash.SHA2_256, 128, "len-128-2bytelen")
	mk(multihash.SHA2_256, 300, "len-300")
	mk(0x7fffffffffffffff, 4, "max-code")
	return out
}
