package main

// The find workflow through the REAL HTTP dhstore client: NewDHashClient with
// WithDHStoreURL, dhstoreHTTP.FindMultihash / FindMetadata against an httptest server that
// serves what a dhstore would — a store populated only through the dhash functions — and
// that can misbehave per key (404, 5xx, 204, garbage / truncated / mistyped bodies, a
// short-counted body, a text/plain content type).
//
// Oracles: find returns exactly the providers and metadata indexed (intact) for the
// multihash; 404 is "nothing", every other failure of the multihash lookup is an error of
// find and of a metadata lookup a skipped entry, never a panic; every request the server
// receives is a GET without body for <base>/encrypted/multihash/<b58 second hash> or
// <base>/metadata/<b58 sha256(value key)> of an indexed entry, and no request (path,
// query, headers, body) contains the multihash, a value key, a provider ID, a context ID
// or metadata in any of the usual spellings.  The Coq case compares the results and the
// request paths with the model (find, find_queries, request_path with base58 in Coq).

import (
	"bytes"
	"context"
	"crypto/sha256"
	"encoding/base64"
	"encoding/hex"
	"encoding/json"
	"fmt"
	"io"
	"net/http"
	"net/http/httptest"
	"os"
	"strings"
	"sync"
	"time"

	"github.com/ipni/go-libipni/find/client"
	"github.com/ipni/go-libipni/find/model"
	"github.com/ipni/go-libipni/ingest/schema"
	"github.com/libp2p/go-libp2p/core/peer"
	"github.com/mr-tron/base58/base58"
	"github.com/multiformats/go-multiaddr"
	"github.com/multiformats/go-multihash"

	"verif/harness/vlib"
)

type hScenario struct {
	Kind   string       `json:"kind"` // "hfind"
	Sc     findScenario `json:"sc"`
	Mode   int          `json:"mode"`   // 0 metadata only; 1 separate providers URL; 2 providers from the dhstore URL; 3 dhstore taken from the providers URL
	Prefix string       `json:"prefix"` // path prefix of the dhstore base URL
}

type reqRec struct {
	Method, Path, Query string
	Body                []byte
	Headers             string
}

type dhServer struct {
	mu    sync.Mutex
	st    *fakeStore
	times map[peer.ID]string // LastAdvertisementTime per provider; absent: a fixed valid time
	known map[peer.ID]int
	pfx   string
	reqs  []reqRec
	srv   *httptest.Server
}

// failure modes of a row the store "fails" on, chosen by the key
var failModes = []string{"500", "503", "400", "204", "garbage", "truncated-json", "mistyped", "short-body", "empty-200", "hangup"}

func failMode(key []byte) string {
	h := sha256.Sum256(key)
	return failModes[int(h[0])%len(failModes)]
}

func writeFailure(w http.ResponseWriter, mode string, good []byte) {
	switch mode {
	case "500", "503", "400", "204":
		var code int
		fmt.Sscanf(mode, "%d", &code)
		w.Header().Set("Content-Type", "application/json")
		w.WriteHeader(code)
		if code != 204 {
			_, _ = w.Write([]byte(`{"Message":"scripted failure"}`))
		}
	case "garbage":
		_, _ = w.Write([]byte("\x00\xff not json at all {{{"))
	case "truncated-json":
		_, _ = w.Write(good[:len(good)/2])
	case "mistyped":
		_, _ = w.Write([]byte(`{"EncryptedMultihashResults": 5, "EncryptedMetadata": {"a": 1}}`))
	case "short-body": // fewer bytes than announced: the transport reports an unexpected EOF
		w.Header().Set("Content-Length", fmt.Sprint(len(good)+50))
		_, _ = w.Write(good)
	case "empty-200":
		// nothing at all
	case "hangup": // the connection is closed without a response: a transport error
		if hj, ok := w.(http.Hijacker); ok {
			if conn, _, err := hj.Hijack(); err == nil {
				_ = conn.Close()
				return
			}
		}
		w.WriteHeader(http.StatusBadGateway)
	}
}

func (d *dhServer) handle(w http.ResponseWriter, r *http.Request) {
	body, _ := io.ReadAll(r.Body)
	var hs []string
	for k, v := range r.Header {
		hs = append(hs, k+": "+strings.Join(v, ","))
	}
	d.mu.Lock()
	st, pfx := d.st, d.pfx
	path := r.URL.EscapedPath()
	d.reqs = append(d.reqs, reqRec{r.Method, strings.TrimPrefix(path, pfx), r.URL.RawQuery, body, strings.Join(hs, "\n")})
	d.mu.Unlock()
	path = strings.TrimPrefix(path, pfx)
	switch {
	case strings.HasPrefix(path, "/encrypted/multihash/"):
		key, err := base58.Decode(strings.TrimPrefix(path, "/encrypted/multihash/"))
		if err != nil {
			http.Error(w, "bad multihash", http.StatusBadRequest)
			return
		}
		resp, ok := st.mh[string(key)]
		if !ok {
			http.Error(w, `{"Message":"not found"}`, http.StatusNotFound)
			return
		}
		var out model.FindResponse
		for _, g := range resp.groups {
			out.EncryptedMultihashResults = append(out.EncryptedMultihashResults, model.EncryptedMultihashResult{Multihash: key, EncryptedValueKeys: g})
		}
		good, _ := json.Marshal(&out)
		if resp.err {
			writeFailure(w, failMode(key), good)
			return
		}
		if key[len(key)-1]%2 == 0 {
			w.Header().Set("Content-Type", "application/json")
		} else {
			w.Header().Set("Content-Type", "text/plain") // the client does not look
		}
		_, _ = w.Write(good)
	case strings.HasPrefix(path, "/metadata/"):
		key, err := base58.Decode(strings.TrimPrefix(path, "/metadata/"))
		if err != nil {
			http.Error(w, "bad key", http.StatusBadRequest)
			return
		}
		resp, ok := st.md[string(key)]
		if !ok {
			http.Error(w, `{"Message":"not found"}`, http.StatusNotFound)
			return
		}
		good, _ := json.Marshal(map[string][]byte{"EncryptedMetadata": resp.val})
		if resp.err {
			writeFailure(w, failMode(key), good)
			return
		}
		w.Header().Set("Content-Type", "application/json")
		_, _ = w.Write(good)
	case path == "/providers":
		all := []*model.ProviderInfo{}
		d.mu.Lock()
		for id, tag := range d.known {
			all = append(all, d.infoOf(id, tag))
		}
		d.mu.Unlock()
		_ = json.NewEncoder(w).Encode(all)
	case strings.HasPrefix(path, "/providers/"):
		id, err := peer.Decode(strings.TrimPrefix(path, "/providers/"))
		d.mu.Lock()
		tag, ok := d.known[id]
		var pi *model.ProviderInfo
		if ok {
			pi = d.infoOf(id, tag)
		}
		d.mu.Unlock()
		if err != nil || !ok {
			http.Error(w, "unknown provider", http.StatusNotFound)
			return
		}
		_ = json.NewEncoder(w).Encode(pi)
	default:
		http.Error(w, "no such endpoint", http.StatusNotFound)
	}
}

// infoOf: the record the provider source serves (caller holds d.mu)
func (d *dhServer) infoOf(id peer.ID, tag int) *model.ProviderInfo {
	t, ok := d.times[id]
	if !ok {
		t = "2024-01-01T00:00:00Z"
	}
	return &model.ProviderInfo{AddrInfo: peer.AddrInfo{ID: id, Addrs: []multiaddr.Multiaddr{tagAddr(tag)}}, LastAdvertisementTime: t}
}

type hEnv struct {
	pool     []pidInfo
	known    map[peer.ID]int
	knownSeq []peer.ID
	dh       *dhServer
	prov     *provSrc
	clients  map[string]*client.DHashClient
}

func newHEnv(rng *vlib.Rand) *hEnv {
	e := &hEnv{pool: makePeerPool(rng.Fork("findpool"), 5, 1, 2), known: map[peer.ID]int{}, clients: map[string]*client.DHashClient{}}
	for i, p := range e.pool {
		if i%4 != 3 {
			e.known[p.ID] = i + 1
			e.knownSeq = append(e.knownSeq, p.ID)
		}
	}
	e.dh = &dhServer{st: newFakeStore(), known: e.known}
	e.dh.srv = httptest.NewServer(http.HandlerFunc(e.dh.handle))
	e.prov = newProvSrc(e.known)
	return e
}

func (e *hEnv) close() { e.dh.srv.Close(); e.prov.srv.Close() }

// clientFor: one client per (mode, prefix); the option paths of NewDHashClient differ by mode
func (e *hEnv) clientFor(mode int, prefix string) (*client.DHashClient, error) {
	k := fmt.Sprint(mode, prefix)
	if c, ok := e.clients[k]; ok {
		return c, nil
	}
	base := e.dh.srv.URL + prefix
	var opts []client.Option
	switch mode {
	case 0:
		opts = []client.Option{client.WithDHStoreURL(base), client.WithMetadataOnly(true), client.WithClient(&http.Client{Timeout: 10 * time.Second})}
	case 1:
		opts = []client.Option{client.WithDHStoreURL(base), client.WithProvidersURL(e.prov.srv.URL), client.WithPcacheTTL(time.Minute), client.WithPcachePreload(false)}
	case 2:
		opts = []client.Option{client.WithDHStoreURL(base), client.WithPcachePreload(true), client.WithClient(nil)}
	default:
		opts = []client.Option{client.WithProvidersURL(base)} // metadata and multihash lookups go to the providers URL
	}
	c, err := client.NewDHashClient(opts...)
	if err != nil {
		return nil, err
	}
	if (c.PCache() == nil) != (mode == 0) {
		return nil, fmt.Errorf("PCache() is %v in mode %d", c.PCache(), mode)
	}
	e.clients[k] = c
	return c, nil
}

func spellings(b []byte) []string {
	if len(b) < 6 {
		return nil // too short to search for meaningfully
	}
	return []string{string(b), base58.Encode(b), hex.EncodeToString(b), strings.ToUpper(hex.EncodeToString(b)),
		base64.StdEncoding.EncodeToString(b), base64.URLEncoding.EncodeToString(b), base64.RawStdEncoding.EncodeToString(b), base64.RawURLEncoding.EncodeToString(b)}
}

func (r *run) runH(env *hEnv, h *hScenario, emit bool) (failed string) {
	sc := &h.Sc
	sc.PCache = h.Mode != 0
	st, want, wantErr := buildStore(sc, env.known)
	mh := unhexs(sc.Query)
	cl, err := env.clientFor(h.Mode, h.Prefix)
	if err != nil {
		return "NewDHashClient: " + err.Error()
	}
	env.dh.mu.Lock()
	env.dh.st, env.dh.pfx, env.dh.reqs = st, h.Prefix, nil
	env.dh.mu.Unlock()

	ctx, cancel := context.WithTimeout(context.Background(), 20*time.Second)
	defer cancel()
	resChan := make(chan model.ProviderResult)
	type ret struct {
		err error
		pan interface{}
	}
	done := make(chan ret, 1)
	go func() {
		var rr ret
		defer func() {
			if p := recover(); p != nil {
				rr.pan = p
			}
			done <- rr
		}()
		rr.err = cl.FindAsync(ctx, clone(mh), resChan)
	}()
	var got []presult
	for pr := range resChan {
		got = append(got, toPresult(pr))
	}
	rr := <-done
	env.dh.mu.Lock()
	reqs := append([]reqRec{}, env.dh.reqs...)
	env.dh.mu.Unlock()
	out := findOutcome{kind: "ok", results: got}
	switch {
	case rr.pan != nil:
		out = findOutcome{kind: "panic", msg: fmt.Sprint(rr.pan)}
	case rr.err != nil:
		out = findOutcome{kind: "err", msg: rr.err.Error()}
	}
	// the dhstore requests, in order
	var paths [][]byte
	var dhReqs []reqRec
	repeats := 0
	for _, q := range reqs {
		if strings.HasPrefix(q.Path, "/providers") {
			continue
		}
		// net/http transparently re-sends an idempotent GET when a REUSED keep-alive
		// connection dies before any response byte (our hang-up / short-body answers do
		// that): the server then sees the same request twice in a row.  A transport-level
		// retry asks nothing new, so immediate repeats of the same request are one request;
		// anything that is not an exact repeat is judged as before.
		if n := len(dhReqs); n > 0 && os.Getenv("VERIF_C12_RAW_LOG") == "" && dhReqs[n-1].Method == q.Method && dhReqs[n-1].Path == q.Path &&
			dhReqs[n-1].Query == q.Query && bytes.Equal(dhReqs[n-1].Body, q.Body) {
			repeats++
			continue
		}
		dhReqs = append(dhReqs, q)
		paths = append(paths, []byte(q.Path))
	}
	if emit && repeats > 0 {
		r.c.CountN("hfind-transport-retries-collapsed", repeats)
	}
	if emit {
		r.c.Eval()
		r.c.Count("hfind:" + out.kind)
		r.c.Count(fmt.Sprintf("hfind-mode:%d", h.Mode))
		t := newTable()
		t.refFind(st, mh)
		ps := make([]string, len(paths))
		for i, p := range paths {
			ps[i] = coqBytes(p)
		}
		fc := coqFindCase(t, st, env.known, env.knownSeq, sc.PCache, mh, out) // (FC table mht mdt known mh obs)
		r.c.Case("hfind", "(HFC"+strings.TrimSuffix(strings.TrimPrefix(fc, "(FC"), ")")+" "+vlib.CoqList(ps)+")", h)
	}
	if out.kind == "panic" {
		return "panicked: " + out.msg
	}
	// what the server was asked
	smh := refSecondOf(mh)
	allowedMd := map[string]bool{}
	var secrets [][]byte
	secrets = append(secrets, mh)
	for _, row := range sc.Rows {
		if row.Mh != sc.Query {
			continue
		}
		for _, e := range row.Entries {
			vk := cat(unhexs(e.Pid), unhexs(e.Ctx))
			d := sha256.Sum256(vk)
			allowedMd["/metadata/"+base58.Encode(d[:])] = true
			secrets = append(secrets, vk, unhexs(e.Pid), unhexs(e.Ctx), unhexs(e.Md))
		}
	}
	if len(dhReqs) == 0 || dhReqs[0].Path != "/encrypted/multihash/"+base58.Encode(smh) {
		first := "none"
		if len(dhReqs) > 0 {
			first = dhReqs[0].Path
		}
		return fmt.Sprintf("the first dhstore request is %q, want the lookup of the second hash %q", first, "/encrypted/multihash/"+base58.Encode(smh))
	}
	for i, q := range dhReqs {
		if q.Method != http.MethodGet || len(q.Body) != 0 || q.Query != "" {
			return fmt.Sprintf("dhstore request %d is %s %s?%s with %d body bytes", i, q.Method, q.Path, q.Query, len(q.Body))
		}
		if i > 0 && !allowedMd[q.Path] {
			return fmt.Sprintf("dhstore request %d asks for %s, which is not the hash of a value key indexed for this multihash", i, q.Path)
		}
		all := q.Path + "\n" + q.Query + "\n" + q.Headers + "\n" + string(q.Body)
		for _, s := range secrets {
			for _, sp := range spellings(s) {
				if strings.Contains(all, sp) {
					return fmt.Sprintf("dhstore request %d (%s) reveals %x to the server", i, q.Path, s)
				}
			}
		}
	}
	switch {
	case out.kind == "panic":
		return "panicked: " + out.msg
	case wantErr && out.kind != "err":
		return "the dhstore server failed the multihash lookup (" + failMode(refSecondOf(mh)) + ") but find returned " + fmt.Sprint(out.results)
	case !wantErr && out.kind == "err":
		return "find failed: " + out.msg
	case !wantErr && !samePresults(out.results, want):
		return fmt.Sprintf("find returned %v, indexed (and intact) for this multihash: %v", out.results, want)
	}
	// Find proper agrees
	resp, err := cl.Find(ctx, clone(mh))
	n := 0
	if err == nil {
		for _, m := range resp.MultihashResults {
			if !bytes.Equal(m.Multihash, mh) {
				return "Find returned a result for another multihash"
			}
			n += len(m.ProviderResults)
		}
	}
	if (err != nil) != (out.kind == "err") || (err == nil && n != len(got)) {
		return fmt.Sprintf("Find disagrees with FindAsync (%v, %d results vs %d)", err, n, len(got))
	}
	return ""
}

// refSecondOf: the second hash, from crypto/sha256 directly
func refSecondOf(mh []byte) []byte { return newTable().refSecond(mh) }

// sizeScenarios: values at and around every documented size limit (the limits are the
// library's own constants, so the generator follows the source), responses with many
// encrypted value keys, and many results.
func sizeScenarios(rng *vlib.Rand, pool []pidInfo, thorough bool) []*hScenario {
	maxMd, maxCtx := schema.MaxMetadataLen, schema.MaxContextIDLen
	mdLens := []int{1, 2, 255, 256, 511, 512, 700, 767, 768, 791, 792, 793, 800, 900, 1000, maxMd - 2, maxMd - 1, maxMd}
	ctxLens := []int{0, 1, maxCtx / 2, maxCtx - 1, maxCtx}
	if thorough {
		for n := 760; n <= maxMd; n += 3 {
			mdLens = append(mdLens, n)
		}
	}
	var out []*hScenario
	newMh := func() string {
		m, _ := multihash.Sum(rng.Bytes(16), multihash.SHA2_256, -1)
		return hex.EncodeToString(m)
	}
	entry := func(p int, ctxLen, mdLen int) fEntry {
		return fEntry{Pid: hex.EncodeToString([]byte(pool[p%len(pool)].ID)), Ctx: hex.EncodeToString(rng.Bytes(ctxLen)), Md: hex.EncodeToString(rng.Bytes(mdLen))}
	}
	k := 0
	// one entry of every metadata size x a context-ID size, through every client configuration
	for i, n := range mdLens {
		for j := 0; j < 2; j++ {
			mh := newMh()
			row := fRow{Mh: mh, Groups: 1, Entries: []fEntry{entry(i+j, ctxLens[(i+2*j)%len(ctxLens)], n), entry(i+j+1, ctxLens[(i+j+1)%len(ctxLens)], 1+rng.Intn(20))}}
			out = append(out, &hScenario{Kind: "hfind", Mode: (i + j) % 4, Prefix: []string{"", "/dh"}[k%2], Sc: findScenario{Kind: "find", Rows: []fRow{row}, Query: mh}})
			k++
		}
	}
	// many providers / contexts under one multihash: a large multihash response, many
	// metadata requests, many results; a few of them with metadata at the limit
	for _, n := range []int{8, 30, 80} {
		mh := newMh()
		row := fRow{Mh: mh, Groups: 1 + n%3}
		for e := 0; e < n; e++ {
			md := 1 + rng.Intn(30)
			if e%9 == 4 {
				md = maxMd - e%3
			}
			row.Entries = append(row.Entries, entry(e, e%(maxCtx+1), md))
		}
		for m := 0; m < 2; m++ {
			out = append(out, &hScenario{Kind: "hfind", Mode: []int{0, 1, 2, 3}[(n+m)%4], Prefix: "", Sc: findScenario{Kind: "find", Rows: []fRow{row}, Query: mh}})
		}
	}
	// every entry at both limits at once
	{
		mh := newMh()
		row := fRow{Mh: mh, Groups: 2}
		for e := 0; e < 6; e++ {
			row.Entries = append(row.Entries, entry(e, maxCtx, maxMd))
		}
		out = append(out, &hScenario{Kind: "hfind", Mode: 0, Sc: findScenario{Kind: "find", Rows: []fRow{row}, Query: mh}},
			&hScenario{Kind: "hfind", Mode: 1, Prefix: "/a/b", Sc: findScenario{Kind: "find", Rows: []fRow{row}, Query: mh}})
	}
	return out
}

// lateProviderCases: a provider that no source knows when it is first looked up (the cache
// remembers that) registers later -- with a timestamp, WITHOUT one, with an unparsable one --
// and the cache is refreshed: from then on find must return it like any other provider.
func (r *run) lateProviderCases(rng *vlib.Rand) {
	for vi, when := range []string{"", "2024-03-01T00:00:00Z", "yesterday"} {
		for _, preload := range []bool{false, true} {
			r.c.Count("hfind-late-provider")
			pool := makePeerPool(r.c.Rng.Fork("findpool"), 5, 1, 2)
			late, early := pool[(2*vi+1)%len(pool)], pool[(2*vi+2)%len(pool)]
			d := &dhServer{st: newFakeStore(), known: map[peer.ID]int{early.ID: 7}, times: map[peer.ID]string{}}
			d.srv = httptest.NewServer(http.HandlerFunc(d.handle))
			env := &hEnv{pool: pool, known: d.known, knownSeq: []peer.ID{early.ID}, dh: d, clients: map[string]*client.DHashClient{}}
			cl, err := client.NewDHashClient(client.WithDHStoreURL(d.srv.URL), client.WithPcachePreload(preload), client.WithPcacheTTL(time.Hour))
			if err != nil {
				d.srv.Close()
				r.c.Fail("hfind:late-provider:constructor", err.Error(), map[string]string{"kind": "constructor", "name": "late"})
				continue
			}
			env.clients[fmt.Sprint(2, "")] = cl
			m, _ := multihash.Sum(rng.Bytes(16), multihash.SHA2_256, -1)
			mh := hex.EncodeToString(m)
			mkE := func(p pidInfo, ctx string) fEntry {
				return fEntry{Pid: hex.EncodeToString([]byte(p.ID)), Ctx: hex.EncodeToString([]byte(ctx)), Md: hex.EncodeToString(rng.Bytes(5))}
			}
			h := &hScenario{Kind: "hfind", Mode: 2, Sc: findScenario{Kind: "find", Query: mh, PCache: true,
				Rows: []fRow{{Mh: mh, Groups: 1, Entries: []fEntry{mkE(late, "a"), mkE(early, "b"), mkE(late, "c")}}}}}
			sig := fmt.Sprintf("hfind:late-provider:time=%q:preload=%v", when, preload)
			fail := func(step, msg string) {
				r.c.Fail(sig+":"+step, "provider registered after the first look-up ("+step+"): "+msg,
					map[string]interface{}{"kind": "late-provider", "time": when, "preload": preload})
			}
			// 1. before anybody knows the provider
			if msg := r.runH(env, h, true); msg != "" {
				fail("before", msg)
			}
			// 2. it registers; the cache refreshes
			d.mu.Lock()
			d.known[late.ID] = 9
			d.times[late.ID] = when
			d.mu.Unlock()
			env.knownSeq = append(env.knownSeq, late.ID)
			ctx, cancel := context.WithTimeout(context.Background(), 10*time.Second)
			if err := cl.PCache().Refresh(ctx); err != nil {
				fail("refresh", err.Error())
			}
			cancel()
			// 3. from now on it is a provider like any other
			if msg := r.runH(env, h, true); msg != "" {
				fail("after", msg)
			}
			d.srv.Close()
		}
	}
}

func hSig(h *hScenario) string {
	return fmt.Sprintf("h%s:mode%d:prefix=%q", scenarioSig(&h.Sc), h.Mode, h.Prefix)
}

func (r *run) hfindCases() {
	rng := r.c.Rng.Fork("hfind")
	env := newHEnv(r.c.Rng)
	defer env.close()
	// constructor paths that must refuse
	for name, opts := range map[string][]client.Option{
		"no options":                    nil,
		"metadata only without any URL": {client.WithMetadataOnly(true)},
		"ftp scheme":                    {client.WithDHStoreURL("ftp://example.org/x"), client.WithMetadataOnly(true)},
		"unparsable URL":                {client.WithDHStoreURL("http://[::1"), client.WithMetadataOnly(true)},
		"bad providers URL":             {client.WithDHStoreURL(env.dh.srv.URL), client.WithProvidersURL("gopher://x")},
	} {
		r.c.Count("hfind-constructor-refusals")
		func() {
			defer func() {
				if p := recover(); p != nil {
					r.c.Fail("hfind:constructor:"+name, fmt.Sprintf("NewDHashClient panicked: %v", p), map[string]string{"kind": "constructor", "name": name})
				}
			}()
			if c, err := client.NewDHashClient(opts...); err == nil && c != nil {
				r.c.Fail("hfind:constructor:"+name, "NewDHashClient accepted a configuration without a usable http(s) dhstore / providers URL", map[string]string{"kind": "constructor", "name": name})
			}
		}()
	}
	// a caller that stops listening: FindAsync must return the context's error, not hang
	for mode := 0; mode < 2; mode++ {
		h := &hScenario{Kind: "hfind", Mode: mode}
		h.Sc = *r.genScenario(rng, env.pool, false, mode != 0)
		for len(h.Sc.Rows[0].Entries) == 0 {
			h.Sc = *r.genScenario(rng, env.pool, false, mode != 0)
		}
		h.Sc.Query = h.Sc.Rows[0].Mh
		st, want, _ := buildStore(&h.Sc, env.known)
		if len(want) == 0 {
			continue
		}
		cl, err := env.clientFor(mode, "")
		if err != nil {
			continue
		}
		env.dh.mu.Lock()
		env.dh.st, env.dh.pfx, env.dh.reqs = st, "", nil
		env.dh.mu.Unlock()
		ctx, cancel := context.WithCancel(context.Background())
		resChan := make(chan model.ProviderResult) // never read
		done := make(chan error, 1)
		go func() {
			defer func() {
				if p := recover(); p != nil {
					done <- fmt.Errorf("panic: %v", p)
				}
			}()
			done <- cl.FindAsync(ctx, unhexs(h.Sc.Query), resChan)
		}()
		time.AfterFunc(50*time.Millisecond, cancel)
		r.c.Count("hfind-cancelled")
		select {
		case err := <-done:
			if err == nil || strings.HasPrefix(err.Error(), "panic") {
				r.c.Fail("hfind:cancelled", fmt.Sprintf("FindAsync with a cancelled context and nobody reading returned %v", err), map[string]string{"kind": "constructor", "name": "cancelled"})
			}
		case <-time.After(10 * time.Second):
			r.c.Fail("hfind:cancelled", "FindAsync did not return after its context was cancelled", map[string]string{"kind": "constructor", "name": "cancelled"})
		}
	}
	r.lateProviderCases(rng)
	fails := 0
	var scenarios []*hScenario
	for i := 0; i < r.c.Pick(200, 3000); i++ {
		mode := i % 4
		h := &hScenario{Kind: "hfind", Mode: mode, Prefix: []string{"", "/dh", "/a/b"}[i%3]}
		h.Sc = *r.genScenario(rng, env.pool, i%2 == 1, mode != 0)
		scenarios = append(scenarios, h)
	}
	scenarios = append(scenarios, sizeScenarios(rng, env.pool, r.c.Thorough())...)
	for i, h := range scenarios {
		msg := r.runH(env, h, true)
		r.c.Nontrivial("h" + fmt.Sprint(i))
		if msg != "" {
			fails++
			r.c.Count("oracle-failed:hfind")
			if fails <= 3 {
				s := shrinkScenarioWith(&h.Sc, func(s *findScenario) bool {
					defer func() { _ = recover() }()
					t := *h
					t.Sc = *s
					return r.runH(env, &t, false) != ""
				})
				t := *h
				t.Sc = *s
				m2 := r.runH(env, &t, false)
				if m2 == "" {
					t, m2 = *h, msg
				}
				r.c.Fail(hSig(&t), "DHashClient over the HTTP dhstore client: "+m2, t)
			}
		}
	}
}
