package main

// DHashClient.Find / FindAsync end to end against an in-memory DHStoreAPI populated
// through the dhash functions, with a scripted provider source behind the pcache.

import (
	"context"
	"encoding/hex"
	"encoding/json"
	"errors"
	"fmt"
	"net/http"
	"net/http/httptest"
	"strings"
	"sync"
	"time"

	"github.com/ipni/go-libipni/dhash"
	"github.com/ipni/go-libipni/find/client"
	"github.com/ipni/go-libipni/find/model"
	"github.com/libp2p/go-libp2p/core/peer"
	"github.com/multiformats/go-multiaddr"
	"github.com/multiformats/go-multihash"

	"verif/harness/vlib"
)

type mhResp struct {
	groups [][][]byte
	err    bool
}
type mdResp struct {
	val []byte
	err bool
}

// fakeStore implements client.DHStoreAPI.  Insertion order is kept so that the
// tables given to the model are deterministic.
type fakeStore struct {
	mh      map[string]mhResp
	md      map[string]mdResp
	mhOrder []string
	mdOrder []string
}

func newFakeStore() *fakeStore {
	return &fakeStore{mh: map[string]mhResp{}, md: map[string]mdResp{}}
}
func (s *fakeStore) putMH(k []byte, r mhResp) {
	if _, ok := s.mh[string(k)]; !ok {
		s.mhOrder = append(s.mhOrder, string(k))
	}
	s.mh[string(k)] = r
}
func (s *fakeStore) putMD(k []byte, r mdResp) {
	if _, ok := s.md[string(k)]; !ok {
		s.mdOrder = append(s.mdOrder, string(k))
	}
	s.md[string(k)] = r
}

var errScripted = errors.New("scripted store error")

// swapStore lets one DHashClient (and its pcache) serve every case.
type swapStore struct {
	mu  sync.Mutex
	cur *fakeStore
}

func (s *swapStore) get() *fakeStore  { s.mu.Lock(); defer s.mu.Unlock(); return s.cur }
func (s *swapStore) set(f *fakeStore) { s.mu.Lock(); s.cur = f; s.mu.Unlock() }

func (s *swapStore) FindMultihash(_ context.Context, dhmh multihash.Multihash) ([]model.EncryptedMultihashResult, error) {
	r, ok := s.get().mh[string(dhmh)]
	if !ok {
		return nil, nil
	}
	if r.err {
		return nil, errScripted
	}
	var out []model.EncryptedMultihashResult
	for _, g := range r.groups {
		evks := make([][]byte, len(g))
		for i := range g {
			evks[i] = clone(g[i])
		}
		out = append(out, model.EncryptedMultihashResult{Multihash: clone(dhmh), EncryptedValueKeys: evks})
	}
	return out, nil
}

func (s *swapStore) FindMetadata(_ context.Context, hvk []byte) ([]byte, error) {
	r, ok := s.get().md[string(hvk)]
	if !ok {
		return nil, nil
	}
	if r.err {
		return nil, errScripted
	}
	return clone(r.val), nil
}

// ---------------------------------------------------------------------------
// scripted provider source: /providers/<pid> answers for the known providers only

type provSrc struct {
	known map[peer.ID]int // address tag >= 1
	srv   *httptest.Server
}

func tagAddr(tag int) multiaddr.Multiaddr {
	return multiaddr.StringCast(fmt.Sprintf("/ip4/10.%d.%d.1/tcp/3000", tag/256, tag%256))
}

func addrTag(ai *peer.AddrInfo) int {
	if ai == nil || len(ai.Addrs) == 0 {
		return 0
	}
	var a, b int
	if _, err := fmt.Sscanf(ai.Addrs[0].String(), "/ip4/10.%d.%d.1/tcp/3000", &a, &b); err != nil {
		return -1
	}
	return a*256 + b
}

func newProvSrc(known map[peer.ID]int) *provSrc {
	p := &provSrc{known: known}
	p.srv = httptest.NewServer(http.HandlerFunc(func(w http.ResponseWriter, r *http.Request) {
		if !strings.HasPrefix(r.URL.Path, "/providers/") {
			http.Error(w, "no", http.StatusNotFound)
			return
		}
		id, err := peer.Decode(strings.TrimPrefix(r.URL.Path, "/providers/"))
		if err != nil {
			http.Error(w, "bad id", http.StatusBadRequest)
			return
		}
		tag, ok := p.known[id]
		if !ok {
			http.Error(w, "unknown provider", http.StatusNotFound)
			return
		}
		pi := model.ProviderInfo{
			AddrInfo:              peer.AddrInfo{ID: id, Addrs: []multiaddr.Multiaddr{tagAddr(tag)}},
			LastAdvertisementTime: "2024-01-01T00:00:00Z",
		}
		w.Header().Set("Content-Type", "application/json")
		_ = json.NewEncoder(w).Encode(pi)
	}))
	return p
}

// ---------------------------------------------------------------------------
// scenario

type fEntry struct {
	Pid     string `json:"pid"` // hex of the peer ID bytes
	Ctx     string `json:"ctx"`
	Md      string `json:"md"`
	Corrupt string `json:"corrupt,omitempty"` // how the stored form was damaged ("" = intact)
}
type fRow struct {
	Mh      string   `json:"mh"`
	Entries []fEntry `json:"entries"`
	Junk    []string `json:"junk,omitempty"`   // extra encrypted-value-key blobs the store returns (hex)
	Groups  int      `json:"groups,omitempty"` // number of EncryptedMultihashResult groups (default 1)
	Err     bool     `json:"err,omitempty"`    // FindMultihash returns an error
}
type findScenario struct {
	Kind   string `json:"kind"` // "find"
	Rows   []fRow `json:"rows"`
	Query  string `json:"query"`  // multihash looked up (hex)
	PCache bool   `json:"pcache"` // false: WithMetadataOnly(true)
}

func unhexs(s string) []byte {
	b, err := hex.DecodeString(s)
	if err != nil {
		panic(err)
	}
	return b
}

type presult struct {
	pid, ctx, md []byte
	tag          int
}

func (p presult) String() string {
	md := fmt.Sprintf("%x", p.md)
	if len(p.md) > 24 {
		md = fmt.Sprintf("%x..(%d bytes)", p.md[:8], len(p.md))
	}
	return fmt.Sprintf("(%x,%x,%s,%d)", p.pid, p.ctx, md, p.tag)
}

type findOutcome struct {
	kind    string // ok | err | panic
	results []presult
	msg     string
}

// buildStore populates a fake store from the plaintext index through the dhash
// functions, then damages the entries marked corrupt.  It returns the store and the
// results the property demands for the query.
func buildStore(sc *findScenario, known map[peer.ID]int) (*fakeStore, []presult, bool) {
	st := newFakeStore()
	var want []presult
	wantErr := false
	for _, row := range sc.Rows {
		mh := unhexs(row.Mh)
		smh := dhash.SecondMultihash(mh)
		var evks [][]byte
		for _, e := range row.Entries {
			pid, ctx, md := peer.ID(unhexs(e.Pid)), unhexs(e.Ctx), unhexs(e.Md)
			vk := dhash.CreateValueKey(pid, ctx)
			evk, err := dhash.EncryptValueKey(vk, mh)
			if err != nil {
				panic(err)
			}
			emd, err := dhash.EncryptMetadata(md, vk)
			if err != nil {
				panic(err)
			}
			hvk := dhash.SHA256(vk, nil)
			mdr := mdResp{val: emd}
			switch e.Corrupt {
			case "":
			case "evk-flip":
				evk = clone(evk)
				evk[len(evk)/2] ^= 0x10
			case "evk-flip-nonce":
				evk = clone(evk)
				evk[3] ^= 0x01
			case "evk-trunc-tag":
				evk = evk[:len(evk)-1]
			case "evk-trunc-11":
				evk = evk[:11]
			case "evk-trunc-12":
				evk = evk[:12]
			case "evk-trunc-20":
				evk = evk[:20]
			case "evk-empty":
				evk = []byte{}
			case "evk-extend":
				evk = append(clone(evk), 0x00)
			case "evk-wrong-mh":
				other := append(clone(mh), 0x01)
				evk, _ = dhash.EncryptValueKey(vk, other)
			case "vk-garbage": // a genuine encryption of something that is not a value key
				evk, _ = dhash.EncryptValueKey([]byte{0xff}, mh)
			case "vk-truncated": // a genuine encryption of a value key cut inside the peer ID
				evk, _ = dhash.EncryptValueKey(vk[:len(string(pid))-1], mh)
			case "md-missing":
				mdr = mdResp{}
			case "md-err":
				mdr = mdResp{err: true}
			case "md-flip":
				mdr.val = clone(emd)
				mdr.val[len(emd)-1] ^= 0x80
			case "md-trunc-12":
				mdr.val = emd[:12]
			case "md-trunc-5":
				mdr.val = emd[:5]
			case "md-trunc-tag":
				mdr.val = emd[:len(emd)-1]
			case "md-wrong-key":
				mdr.val, _ = dhash.EncryptMetadata(md, append(clone(vk), 0x00))
			case "md-empty-plaintext": // metadata that decrypts to zero bytes
				mdr.val, _ = dhash.EncryptMetadata(nil, vk)
			default:
				panic("unknown corruption " + e.Corrupt)
			}
			evks = append(evks, evk)
			if mdr.val != nil || mdr.err {
				st.putMD(hvk, mdr)
			}
			if row.Mh == sc.Query && e.Corrupt == "" {
				tag := 0
				if sc.PCache {
					t, ok := known[pid]
					if !ok {
						continue
					}
					tag = t
				}
				want = append(want, presult{[]byte(pid), ctx, md, tag})
			}
		}
		for _, j := range row.Junk {
			evks = append(evks, unhexs(j))
		}
		ng := row.Groups
		if ng <= 0 {
			ng = 1
		}
		groups := make([][][]byte, ng)
		for i, e := range evks { // contiguous split, order preserved
			g := i * ng / len(evks)
			groups[g] = append(groups[g], e)
		}
		st.putMH(smh, mhResp{groups: groups, err: row.Err})
		if row.Mh == sc.Query && row.Err {
			wantErr = true
		}
	}
	if wantErr {
		want = nil
	}
	return st, want, wantErr
}

type findEnv struct {
	swap     *swapStore
	mdOnly   *client.DHashClient
	withPC   *client.DHashClient
	prov     *provSrc
	known    map[peer.ID]int
	knownSeq []peer.ID
}

func newFindEnv(known map[peer.ID]int, knownSeq []peer.ID) *findEnv {
	e := &findEnv{swap: &swapStore{cur: newFakeStore()}, known: known, knownSeq: knownSeq}
	e.prov = newProvSrc(known)
	var err error
	e.mdOnly, err = client.NewDHashClient(client.WithDHStoreAPI(e.swap), client.WithMetadataOnly(true))
	if err != nil {
		panic(err)
	}
	e.withPC, err = client.NewDHashClient(client.WithDHStoreAPI(e.swap), client.WithProvidersURL(e.prov.srv.URL), client.WithPcachePreload(false))
	if err != nil {
		panic(err)
	}
	return e
}

func toPresult(pr model.ProviderResult) presult {
	var pid []byte
	if pr.Provider != nil {
		pid = []byte(pr.Provider.ID)
	}
	return presult{pid, pr.ContextID, pr.Metadata, addrTag(pr.Provider)}
}

// runFind calls FindAsync in a goroutine of our own so that a panic can be observed
// (Find starts FindAsync in a goroutine nobody can recover), then, when that was
// safe, Find itself, which must agree.
func (e *findEnv) runFind(st *fakeStore, mh []byte, pcache bool) (out findOutcome, findDisagrees string) {
	e.swap.set(st)
	cl := e.mdOnly
	if pcache {
		cl = e.withPC
	}
	ctx, cancel := context.WithTimeout(context.Background(), 20*time.Second)
	defer cancel()
	resChan := make(chan model.ProviderResult)
	type ret struct {
		err error
		pan interface{}
	}
	done := make(chan ret, 1)
	go func() {
		var r ret
		defer func() {
			if p := recover(); p != nil {
				r.pan = p
			}
			done <- r
		}()
		r.err = cl.FindAsync(ctx, clone(mh), resChan)
	}()
	var got []presult
	for pr := range resChan {
		got = append(got, toPresult(pr))
	}
	r := <-done
	switch {
	case r.pan != nil:
		return findOutcome{kind: "panic", msg: fmt.Sprint(r.pan)}, ""
	case r.err != nil:
		out = findOutcome{kind: "err", msg: r.err.Error()}
	default:
		out = findOutcome{kind: "ok", results: got}
	}
	// Find proper
	resp, err := cl.Find(ctx, clone(mh))
	switch {
	case err != nil:
		if out.kind != "err" {
			findDisagrees = "Find returned an error, FindAsync did not: " + err.Error()
		}
	case out.kind == "err":
		findDisagrees = "FindAsync returned an error, Find did not"
	default:
		var fr []presult
		if len(resp.MultihashResults) > 1 {
			findDisagrees = "Find returned more than one MultihashResult"
		}
		for _, m := range resp.MultihashResults {
			if string(m.Multihash) != string(mh) {
				findDisagrees = "Find returned a result for another multihash"
			}
			for _, pr := range m.ProviderResults {
				fr = append(fr, toPresult(pr))
			}
		}
		if !samePresults(fr, got) && findDisagrees == "" {
			findDisagrees = fmt.Sprintf("Find returned %v, FindAsync %v", fr, got)
		}
	}
	return out, findDisagrees
}

func samePresults(a, b []presult) bool {
	if len(a) != len(b) {
		return false
	}
	for i := range a {
		if string(a[i].pid) != string(b[i].pid) || string(a[i].ctx) != string(b[i].ctx) ||
			string(a[i].md) != string(b[i].md) || a[i].tag != b[i].tag {
			return false
		}
	}
	return true
}

// ---------------------------------------------------------------------------
// Coq printing

func coqPresult(p presult) string {
	return "(" + coqBytes(p.pid) + ", " + coqBytes(p.ctx) + ", " + coqBytes(p.md) + ", " + vlib.CoqN(uint64(p.tag)) + ")"
}

func coqFindCase(t *table, st *fakeStore, known map[peer.ID]int, knownSeq []peer.ID, pcache bool, mh []byte, out findOutcome) string {
	mht := make([]string, 0, len(st.mhOrder))
	for _, k := range st.mhOrder {
		r := st.mh[k]
		val := "(Err 30)"
		if !r.err {
			gs := make([]string, len(r.groups))
			for i, g := range r.groups {
				es := make([]string, len(g))
				for j, e := range g {
					es[j] = coqBytes(e)
				}
				gs[i] = vlib.CoqList(es)
			}
			val = "(Ok " + vlib.CoqList(gs) + ")"
		}
		mht = append(mht, "("+coqBytes([]byte(k))+", "+val+")")
	}
	mdt := make([]string, 0, len(st.mdOrder))
	for _, k := range st.mdOrder {
		r := st.md[k]
		val := "(Err 30)"
		if !r.err {
			val = "(Ok " + coqBytes(r.val) + ")"
		}
		mdt = append(mdt, "("+coqBytes([]byte(k))+", "+val+")")
	}
	kn := "None"
	if pcache {
		ks := make([]string, 0, len(knownSeq))
		for _, id := range knownSeq {
			ks = append(ks, "("+coqBytes([]byte(id))+", "+vlib.CoqN(uint64(known[id]))+")")
		}
		kn = "(Some " + vlib.CoqList(ks) + ")"
	}
	obs := ""
	switch out.kind {
	case "ok":
		rs := make([]string, len(out.results))
		for i, r := range out.results {
			rs[i] = coqPresult(r)
		}
		obs = "(Ok " + vlib.CoqList(rs) + ")"
	case "err":
		obs = "(Err 0)"
	default:
		obs = "(Panic 0)"
	}
	return "(FC " + t.Coq() + " " + vlib.CoqList(mht) + " " + vlib.CoqList(mdt) + " " + kn + " " + coqBytes(mh) + " " + obs + ")"
}
