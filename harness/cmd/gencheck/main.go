//go:build verif

// gencheck: the translator's differential check.
//
// harness/cmd/astgen translates Go functions of /repo to Gallina (coq/gen/Gen_Funcs_<pkg>.v) and
// the GenTie_* theorems are stated about that output, so "astgen reads Go correctly" is part of
// the trusted base.  This harness turns it into a checked claim per definition: for every
// generated definition whose Go original can be CALLED it chooses structured and boundary inputs,
// runs the real function under recover(), and writes one Coq case per run: the generated
// definition applied to the same inputs, compared (coq/model/GenCheck.v) with what the real
// function returned.  Parameters of a generated definition that stand for external calls (ext_,
// obs_, fld_, a_, isnil_ ...) are given the values this harness observed from the real callee, as
// finite lookup tables; a call the harness did not foresee hits a default that makes the
// comparison fail.
//
// The argument order of a generated definition is read from the generated file itself (the
// parameters are matched BY NAME), so a signature change after a source edit is reported as a
// failure of this harness, never silently misapplied.
//
// Fragments of impure functions (mode "frag" in astgen's table) cannot be called and are not
// checked here; they are listed in result.json (notes).
package main

import (
	"fmt"
	"os"
	"path/filepath"
	"regexp"
	"runtime/debug"
	"sort"
	"strings"

	"verif/harness/vlib"
)

// ---------------------------------------------------------------------------
// generated definitions: name -> ordered parameter names, module

type gdef struct {
	module string
	params []string
	frag   bool
}

var defs = map[string]*gdef{}

var reDef = regexp.MustCompile(`(?m)^Definition (\w+)((?: \([^()]*(?:\([^()]*(?:\([^()]*\)[^()]*)*\)[^()]*)*\))*) : (.*) :=$`)
var reParam = regexp.MustCompile(`\((\w+) : `)

func loadGen(dir string) error {
	files, err := filepath.Glob(filepath.Join(dir, "Gen_Funcs_*.v"))
	if err != nil {
		return err
	}
	for _, f := range files {
		mod := strings.TrimSuffix(filepath.Base(f), ".v")
		if mod == "Gen_Funcs_prelude" {
			continue
		}
		src, err := os.ReadFile(f)
		if err != nil {
			return err
		}
		for _, line := range strings.Split(string(src), "\n") {
			if !strings.HasPrefix(line, "Definition ") || !strings.HasSuffix(line, ":=") {
				continue
			}
			rest := strings.TrimPrefix(line, "Definition ")
			name := rest
			if i := strings.IndexAny(rest, " "); i >= 0 {
				name = rest[:i]
			}
			// parameters: top-level parenthesised binders before the result type
			var params []string
			depth := 0
			start := -1
			body := rest[len(name):]
			for i := 0; i < len(body); i++ {
				switch body[i] {
				case '(':
					if depth == 0 {
						start = i
					}
					depth++
				case ')':
					depth--
					if depth == 0 && start >= 0 {
						if m := reParam.FindStringSubmatch(body[start : i+1]); m != nil && strings.HasPrefix(body[start:], "("+m[1]+" : ") {
							params = append(params, m[1])
						}
						start = -1
					}
				case ':':
					if depth == 0 {
						i = len(body)
					}
				}
			}
			defs[name] = &gdef{module: mod, params: params, frag: strings.Contains(body, ": frag (")}
		}
	}
	return nil
}

// apply builds the application of a generated definition; args maps parameter names to Coq terms
func apply(name string, args map[string]string) (string, error) {
	d, ok := defs[name]
	if !ok {
		return "", fmt.Errorf("%s is not defined in the generated files (not translated any more?)", name)
	}
	used := map[string]bool{}
	parts := []string{d.module + "." + name}
	for _, p := range d.params {
		a, ok := args[p]
		if !ok {
			return "", fmt.Errorf("%s has a parameter %s that this harness does not know (signature changed)", name, p)
		}
		used[p] = true
		parts = append(parts, a)
	}
	for k := range args {
		if !used[k] {
			return "", fmt.Errorf("%s no longer has the parameter %s (signature changed)", name, k)
		}
	}
	if len(parts) == 1 {
		return parts[0], nil
	}
	return "(" + strings.Join(parts, " ") + ")", nil
}

// ---------------------------------------------------------------------------
// Coq printers for the conventions of Gen_Funcs_prelude.v

func cB(b []byte) string { return vlib.CoqBytes(b) }
func cS(s string) string { return vlib.CoqBytes([]byte(s)) }
func cZ(n int64) string  { return vlib.CoqZ(n) }
func cBool(b bool) string {
	return vlib.CoqBool(b)
}
func cList(items []string) string { return vlib.CoqList(items) }
func cListB(bs [][]byte) string {
	it := make([]string, len(bs))
	for i, b := range bs {
		it[i] = cB(b)
	}
	return cList(it)
}
func cText(s string) string {
	var b strings.Builder
	for _, r := range s {
		if r < 32 || r > 126 {
			b.WriteByte('?')
		} else {
			b.WriteRune(r)
		}
	}
	return vlib.CoqString(b.String())
}

// a Go error as option string (its text, made printable)
func cErr(err error) string {
	if err == nil {
		return "(@None string)"
	}
	return "(Some " + cText(err.Error()) + ")"
}
func cPair(a, b string) string { return "(" + a + ", " + b + ")" }

// table: (look eqb [(k, v); ...] dflt)
func cLook(eqb string, kv [][2]string, dflt string) string {
	it := make([]string, len(kv))
	for i, p := range kv {
		it[i] = cPair(p[0], p[1])
	}
	return "(look " + eqb + " " + cList(it) + " " + dflt + ")"
}

// ---------------------------------------------------------------------------

type checker struct {
	c     *vlib.Ctx
	owner map[string]string // definition -> property
	seen  map[string]int
}

var requires = []string{
	"From Coq Require Import ZArith NArith List Bool.",
	"From Gen Require Import Gen_Consts Gen_Funcs_prelude.",
	"From Model Require Import GenCheck.",
}

func (k *checker) family(def, prop string) bool {
	// VERIF_GENCHECK_OWNER=Cxx: only the definitions that belong to that property's cone
	if only := os.Getenv("VERIF_GENCHECK_OWNER"); only != "" && only != prop {
		return false
	}
	d, ok := defs[def]
	if !ok {
		k.c.Fail("gencheck:missing:"+def, def+" is not defined in the generated files any more", map[string]string{"definition": def})
		return false
	}
	k.owner[def] = prop
	k.c.Family(def, append(append([]string{}, requires...), "From Gen Require "+d.module+"."), "gc_true", 400)
	return true
}

// add one case: `cmp (<def> args) observed`
func (k *checker) add(def string, args map[string]string, cmp func(applied string) string, desc interface{}) {
	app, err := apply(def, args)
	if err != nil {
		k.c.Fail("gencheck:signature:"+def, err.Error(), map[string]string{"definition": def})
		return
	}
	k.c.Case(def, cmp(app), desc)
	k.c.Eval()
	k.c.Count("def:" + def)
	k.seen[def]++
}

// run f under recover; reports whether it panicked
func safely(f func()) (panicked bool) {
	defer func() {
		if r := recover(); r != nil {
			panicked = true
		}
	}()
	f()
	return false
}

func main() {
	debug.SetMemoryLimit(2 << 30)
	c := vlib.Init("GENCHECK")
	defer c.Finish()
	gen := os.Getenv("VERIF_COQ_GEN")
	if gen == "" {
		gen = "/verif/coq/gen"
	}
	if err := loadGen(gen); err != nil {
		c.Fail("gencheck:gen", "cannot read the generated files: "+err.Error(), nil)
		return
	}
	k := &checker{c: c, owner: map[string]string{}, seen: map[string]int{}}
	c.Res.Rule = "per generated definition: boundary values (0, ±1, limits, empty / one-element / long byte strings and lists, nil) " +
		"and seeded random structured inputs; a case is non-trivial when it takes a path of the Go function not taken by an earlier case of that definition"
	checkArith(k)
	checkDhash(k)
	checkMetadata(k)
	checkMessage(k)
	checkApierror(k)
	checkMaurlMautil(k)
	checkRwriterSchema(k)

	// what is not checked: fragments, and whole functions whose original cannot be called from here
	var frags, unchecked []string
	for name, d := range defs {
		if strings.Contains(name, "_loop_") {
			continue
		}
		if d.frag {
			frags = append(frags, name)
		} else if k.seen[name] == 0 {
			unchecked = append(unchecked, name)
		}
	}
	sort.Strings(frags)
	sort.Strings(unchecked)
	c.Note(fmt.Sprintf("%d definitions checked against the real Go function", len(k.seen)))
	c.Note("fragments of impure functions (not callable, not checked): " + strings.Join(frags, " "))
	c.Note("whole-function translations not checked here: " + strings.Join(unchecked, " "))
	var own []string
	for d, p := range k.owner {
		own = append(own, d+"="+p)
	}
	sort.Strings(own)
	c.Note("ownership: " + strings.Join(own, " "))
}
