//go:build verif

package main

import (
	"bytes"
	"errors"
	"fmt"
	"net/http"
	"net/url"
	"strings"

	"github.com/ipfs/go-cid"
	"github.com/ipni/go-libipni/announce/message"
	"github.com/ipni/go-libipni/apierror"
	"github.com/ipni/go-libipni/ingest/model"
	"github.com/ipni/go-libipni/ingest/schema"
	"github.com/ipni/go-libipni/maurl"
	"github.com/ipni/go-libipni/mautil"
	"github.com/ipni/go-libipni/metadata"
	"github.com/ipni/go-libipni/rwriter"
	"github.com/multiformats/go-multiaddr"
	manet "github.com/multiformats/go-multiaddr/net"
	"github.com/multiformats/go-multicodec"
	"github.com/multiformats/go-multihash"
	cbg "github.com/whyrusleeping/cbor-gen"
)

// ---------------------------------------------------------------------------
// metadata

func checkMetadata(k *checker) {
	rng := k.c.Rng.Fork("metadata")
	mk := func(kind int) metadata.Protocol {
		switch kind {
		case 0:
			return &metadata.Bitswap{}
		case 1:
			return &metadata.IpfsGatewayHttp{}
		case 2:
			return &metadata.GraphsyncFilecoinV1{}
		default:
			return &metadata.Unknown{Code: multicodec.Code(uint64(kind) * 7), Payload: []byte{byte(kind)}}
		}
	}
	var sets [][]metadata.Protocol
	sets = append(sets, nil, []metadata.Protocol{mk(0)}, []metadata.Protocol{mk(0), mk(1)}, []metadata.Protocol{mk(1), mk(0)},
		[]metadata.Protocol{mk(2), mk(2)}, []metadata.Protocol{mk(0), mk(2), mk(1)}, []metadata.Protocol{mk(5), mk(0), mk(400)})
	for i := 0; i < k.c.Pick(20, 200); i++ {
		n := rng.Intn(6)
		var s []metadata.Protocol
		for j := 0; j < n; j++ {
			s = append(s, mk(rng.Intn(8)))
		}
		sets = append(sets, s)
	}
	// a protocol is (its ID, its position): T_Protocol := Z * Z
	plist := func(s []metadata.Protocol) string {
		it := make([]string, len(s))
		for i, p := range s {
			it[i] = cPair(cZ(int64(p.ID())), cZ(int64(i)))
		}
		return cList(it)
	}
	famV, famL, famG, famP := k.family("metadata_Metadata_Validate", "C11"), k.family("metadata_Metadata_Len", "C11"),
		k.family("metadata_Metadata_Get", "C11"), k.family("metadata_Metadata_Protocols", "C11")
	for _, s := range sets {
		m := metadata.VerifMetadata(s)
		base := map[string]string{"T_Protocol": "(Z * Z)%type", "m_protocols": plist(s)}
		with := func(extra map[string]string) map[string]string {
			r := map[string]string{}
			for a, b := range base {
				r[a] = b
			}
			for a, b := range extra {
				r[a] = b
			}
			return r
		}
		if famV {
			err := m.Validate()
			k.c.Nontrivial("Validate:" + sprint(err))
			k.add("metadata_Metadata_Validate", with(map[string]string{"obs_Protocol_ID": "fst"}),
				func(x string) string { return "(eq_err_text " + x + " " + cErr(err) + ")" }, map[string]int{"n": len(s)})
		}
		if famL {
			n := m.Len()
			k.add("metadata_Metadata_Len", base, func(x string) string { return "(Z.eqb " + x + " " + cZ(int64(n)) + ")" }, map[string]int{"n": len(s)})
		}
		if famP {
			ids := m.Protocols()
			it := make([]string, len(ids))
			for i, c := range ids {
				it[i] = cZ(int64(c))
			}
			k.add("metadata_Metadata_Protocols", with(map[string]string{"obs_Protocol_ID": "fst"}),
				func(x string) string { return "(eq_list Z.eqb " + x + " " + cList(it) + ")" }, map[string]int{"n": len(s)})
		}
		if famG {
			for _, want := range []multicodec.Code{multicodec.TransportBitswap, multicodec.TransportGraphsyncFilecoinv1, multicodec.TransportIpfsGatewayHttp, 35, 0} {
				got := m.Get(want)
				obs := cPair(cZ(-1), cZ(-1))
				for i, p := range s {
					if got != nil && p == got {
						obs = cPair(cZ(int64(p.ID())), cZ(int64(i)))
						break
					}
				}
				k.c.Nontrivial("Get:" + sprint(got == nil))
				k.add("metadata_Metadata_Get", with(map[string]string{"obs_Protocol_ID": "fst", "nil_T_Protocol": cPair(cZ(-1), cZ(-1)), "protocol": cZ(int64(want))}),
					func(x string) string { return "(eq_pair Z.eqb Z.eqb " + x + " " + obs + ")" }, map[string]interface{}{"n": len(s), "want": uint64(want)})
			}
		}
	}
	for def, id := range map[string]multicodec.Code{"metadata_Bitswap_ID": (&metadata.Bitswap{}).ID(),
		"metadata_GraphsyncFilecoinV1_ID": (&metadata.GraphsyncFilecoinV1{}).ID(), "metadata_IpfsGatewayHttp_ID": (&metadata.IpfsGatewayHttp{}).ID()} {
		if k.family(def, "C11") {
			id := id
			k.add(def, map[string]string{}, func(x string) string { return "(Z.eqb " + x + " " + cZ(int64(id)) + ")" }, nil)
		}
	}
	if k.family("metadata_Unknown_ID", "C11") {
		for _, c := range []uint64{0, 1, 0x0900, 1 << 40} {
			u := &metadata.Unknown{Code: multicodec.Code(c)}
			k.add("metadata_Unknown_ID", map[string]string{"u_Code": cZ(int64(c))}, func(x string) string { return "(Z.eqb " + x + " " + cZ(int64(u.ID())) + ")" }, nil)
		}
	}
	if k.family("metadata_Unknown_MarshalBinary", "C11") {
		for _, n := range []int{0, 1, 30} {
			u := &metadata.Unknown{Payload: rng.Bytes(n)}
			b, err := u.MarshalBinary()
			k.add("metadata_Unknown_MarshalBinary", map[string]string{"u_Payload": cB(u.Payload)},
				func(x string) string { return "(eq_pair eq_bytes eq_err_nil " + x + " " + resBE(b, err) + ")" }, nil)
		}
	}
}

// ---------------------------------------------------------------------------
// announce/message

func checkMessage(k *checker) {
	rng := k.c.Rng.Fork("message")
	mkCid := func(kind int) cid.Cid {
		switch kind {
		case 0:
			return cid.Undef
		case 1:
			h, _ := multihash.Sum(rng.Bytes(8), multihash.SHA2_256, -1)
			return cid.NewCidV0(h)
		case 2:
			h, _ := multihash.Sum(rng.Bytes(8), multihash.SHA2_256, -1)
			return cid.NewCidV1(cid.DagCBOR, h)
		default: // an identity CID long enough to exceed maxCidLen
			h, _ := multihash.Sum(rng.Bytes(600), multihash.IDENTITY, -1)
			return cid.NewCidV1(cid.Raw, h)
		}
	}
	if k.family("message_Message_MarshalCBOR", "C10") {
		type tc struct {
			m    *message.Message
			kind string
		}
		var cases []tc
		cases = append(cases, tc{nil, "nil-receiver"})
		for ck := 0; ck < 4; ck++ {
			for _, na := range []int{0, 1, 3} {
				for _, orig := range []string{"", "12D3KooWPeer"} {
					m := &message.Message{Cid: mkCid(ck), OrigPeer: orig}
					for i := 0; i < na; i++ {
						m.Addrs = append(m.Addrs, rng.Bytes(rng.Intn(30)))
					}
					if rng.Bool() {
						m.ExtraData = rng.Bytes(rng.Intn(40))
					}
					cases = append(cases, tc{m, fmt.Sprintf("cid%d-addrs%d-orig%v", ck, na, orig != "")})
				}
			}
		}
		big := &message.Message{Cid: mkCid(2)}
		for i := 0; i < cbg.MaxLength+1; i++ {
			big.Addrs = append(big.Addrs, []byte{byte(i)})
		}
		cases = append(cases, tc{big, "too-many-addrs"})
		atcap := &message.Message{Cid: mkCid(2)}
		for i := 0; i < 300; i++ {
			atcap.Addrs = append(atcap.Addrs, nil)
		}
		cases = append(cases, tc{atcap, "300-empty-addrs"})
		cases = append(cases, tc{&message.Message{Cid: mkCid(1), OrigPeer: strings.Repeat("p", cbg.MaxLength+1)}, "origpeer-too-long"},
			tc{&message.Message{Cid: mkCid(1), OrigPeer: strings.Repeat("p", cbg.MaxLength)}, "origpeer-at-cap"})
		for _, t := range cases {
			var out bytes.Buffer
			var err error
			if safely(func() { err = t.m.MarshalCBOR(&out) }) {
				continue
			}
			args := map[string]string{"T_cid_Cid": "unit", "m_Cid": "tt", "ext_cbg_CborNull": cB(cbg.CborNull)}
			heads := map[[2]uint64]bool{}
			var headKV [][2]string
			head := func(maj byte, n int) {
				key := [2]uint64{uint64(maj), uint64(n)}
				if heads[key] {
					return
				}
				heads[key] = true
				var b bytes.Buffer
				herr := cbg.WriteMajorTypeHeaderBuf(make([]byte, 9), &b, maj, uint64(n))
				headKV = append(headKV, [2]string{cPair(cZ(int64(maj)), cZ(int64(n))), cPair(cB(b.Bytes()), cErr(herr))})
			}
			if t.m == nil {
				args["m_isnil"], args["a_m_Cid_ByteLen"], args["m_Addrs"], args["m_ExtraData"], args["m_OrigPeer"] = "true", cZ(0), "[]", "[]", "[]"
				args["ext_cbg_WriteCidBuf"] = "(fun w _ => (w, unforeseen))"
			} else {
				m := t.m
				args["m_isnil"], args["a_m_Cid_ByteLen"] = "false", cZ(int64(m.Cid.ByteLen()))
				args["m_Addrs"], args["m_ExtraData"], args["m_OrigPeer"] = cListB(m.Addrs), cB(m.ExtraData), cS(m.OrigPeer)
				var cb bytes.Buffer
				cerr := cbg.WriteCidBuf(make([]byte, 9), &cb, m.Cid)
				args["ext_cbg_WriteCidBuf"] = "(fun w _ => (app w " + cB(cb.Bytes()) + ", " + cErr(cerr) + "))"
				head(cbg.MajArray, len(m.Addrs))
				for _, a := range m.Addrs {
					head(cbg.MajByteString, len(a))
				}
				head(cbg.MajByteString, len(m.ExtraData))
				head(cbg.MajTextString, len(m.OrigPeer))
			}
			args["ext_cbg_WriteMajorTypeHeaderBuf"] = "(fun w maj n => let r := " + cLook("(kP kZ kZ)", headKV, cPair("[]", "unforeseen")) + " (maj, n) in (app w (fst r), snd r))"
			obsBytes := out.Bytes()
			k.c.Nontrivial("MarshalCBOR:" + t.kind + sprint(err == nil))
			k.add("message_Message_MarshalCBOR", args, func(x string) string {
				return "(eq_pair eq_err_nil eq_bytes " + x + " " + cPair(cErr(err), cB(obsBytes)) + ")"
			}, map[string]string{"kind": t.kind})
		}
	}
	if k.family("message_Message_GetAddrs", "C10") {
		good := func(s string) []byte { a, _ := multiaddr.NewMultiaddr(s); return a.Bytes() }
		pool := [][]byte{good("/ip4/1.2.3.4/tcp/80"), good("/dns4/example.com/tcp/443/https"), {0xde, 0xad, 0xbe, 0xef, 0x01}, {}, {0x04, 1, 2}, {0xff, 0xff, 0x03}}
		for i := 0; i < k.c.Pick(30, 300); i++ {
			n := rng.Intn(5)
			m := &message.Message{}
			for j := 0; j < n; j++ {
				m.Addrs = append(m.Addrs, pool[rng.Intn(len(pool))])
			}
			var got []multiaddr.Multiaddr
			var err error
			if safely(func() { got, err = m.GetAddrs() }) {
				continue
			}
			var newKV, contKV [][2]string
			seen := map[string]bool{}
			var okIdx []string
			for j, a := range m.Addrs {
				_, perr := multiaddr.NewMultiaddrBytes(a)
				if perr == nil && (err == nil || true) {
					okIdx = append(okIdx, cZ(int64(j)))
				}
				if seen[string(a)] {
					continue
				}
				seen[string(a)] = true
				// the first position holding these bytes stands for the parsed address
				newKV = append(newKV, [2]string{cB(a), cPair(cZ(int64(j)), cErr(perr))})
				if perr != nil {
					text := []byte(strings.Trim(cText(perr.Error()), `"`))
					contKV = append(contKV, [2]string{cPair(cB(text), cS("no protocol with code")), cBool(strings.Contains(perr.Error(), "no protocol with code"))})
				}
			}
			// what the real call returned, as positions: successful parses in order, up to the failure
			var obsIdx []string
			if err == nil {
				first := map[string]int{}
				for j, a := range m.Addrs {
					if _, ok := first[string(a)]; !ok {
						first[string(a)] = j
					}
					if _, perr := multiaddr.NewMultiaddrBytes(a); perr == nil {
						obsIdx = append(obsIdx, cZ(int64(first[string(a)])))
					}
				}
				if len(obsIdx) != len(got) {
					k.c.Fail("gencheck:GetAddrs:count", "harness expectation about GetAddrs is wrong", nil)
				}
			}
			_ = okIdx
			k.c.Nontrivial("GetAddrs:" + sprint(err == nil) + sprint(len(got)))
			k.add("message_Message_GetAddrs", map[string]string{
				"T_multiaddr_Multiaddr":           "Z",
				"ext_multiaddr_NewMultiaddrBytes": cLook("kB", newKV, cPair(cZ(-1), "unforeseen")),
				"ext_strings_Contains":            "(fun a b => " + cLook("(kP kB kB)", contKV, "false") + " (a, b))",
				"m_Addrs":                         cListB(m.Addrs),
			}, func(x string) string {
				if err != nil {
					return "(negb (isNone (snd " + x + ")))"
				}
				return "(eq_pair (eq_list Z.eqb) eq_err_nil " + x + " " + cPair(cList(obsIdx), cErr(nil)) + ")"
			}, map[string]int{"n": n})
		}
	}
}

// ---------------------------------------------------------------------------
// apierror

func checkApierror(k *checker) {
	tag := func(err error) string {
		if err == nil {
			return "(@None string)"
		}
		var ae *apierror.Error
		if errors.As(err, &ae) {
			inner := "<nil>"
			if u := ae.Unwrap(); u != nil {
				inner = u.Error()
			}
			return "(Some " + cText(fmt.Sprintf("apierror:%d:%s", ae.Status(), inner)) + ")"
		}
		return "(Some " + cText(err.Error()) + ")"
	}
	if k.family("apierror_FromResponse", "C19") {
		for _, st := range []int{0, 200, 404, 500, -1} {
			for _, body := range []string{"", "  ", "not found\n", " x ", "\tmulti word text "} {
				got := apierror.FromResponse(st, []byte(body))
				trimmed := strings.TrimSpace(body)
				inner := "(@None string)"
				if trimmed != "" {
					inner = "(Some " + cText(trimmed) + ")"
				}
				newT := "(fun e s => " + cLook("(kP (eq_opt String.eqb) kZ)", [][2]string{
					{cPair("(@None string)", cZ(int64(st))), "(Some " + cText(fmt.Sprintf("apierror:%d:<nil>", st)) + ")"},
					{cPair(inner, cZ(int64(st))), "(Some " + cText(fmt.Sprintf("apierror:%d:%s", st, trimmed)) + ")"},
				}, "unforeseen") + " (e, s))"
				k.c.Nontrivial("FromResponse:" + sprint(st == 0) + sprint(trimmed == ""))
				k.add("apierror_FromResponse", map[string]string{
					"ext_New":               newT,
					"ext_strings_TrimSpace": cLook("kB", [][2]string{{cS(body), cS(trimmed)}}, "[]"),
					"status":                cZ(int64(st)), "body": cS(body),
				}, func(x string) string { return "(eq_err_text " + x + " " + tag(got) + ")" }, map[string]interface{}{"status": st, "body": body})
			}
		}
	}
	errs := []error{nil, errors.New("boom"), errors.New("")}
	if k.family("apierror_Error_Status", "C19") && k.family("apierror_Error_Unwrap", "C19") && k.family("apierror_Error_Text", "C19") {
		for _, st := range []int{0, 200, 404, 999, -5} {
			for _, inner := range errs {
				e := apierror.New(inner, st)
				k.add("apierror_Error_Status", map[string]string{"e_status": cZ(int64(st))},
					func(x string) string { return "(Z.eqb " + x + " " + cZ(int64(e.Status())) + ")" }, nil)
				k.add("apierror_Error_Unwrap", map[string]string{"e_err": cErr(inner)},
					func(x string) string { return "(eq_err_text " + x + " " + cErr(e.Unwrap()) + ")" }, nil)
				innerText := ""
				if inner != nil {
					innerText = inner.Error()
				}
				k.c.Nontrivial("Text:" + sprint(st == 0) + sprint(inner == nil) + sprint(http.StatusText(st) == ""))
				k.add("apierror_Error_Text", map[string]string{
					"ext_e_err_Error":     cS(innerText),
					"ext_fmt_Sprintf":     "(fun f n => " + cLook("(kP kB kZ)", [][2]string{{cPair(cS("%d"), cZ(int64(st))), cS(fmt.Sprintf("%d", st))}}, "[]") + " (f, n))",
					"ext_http_StatusText": cLook("kZ", [][2]string{{cZ(int64(st)), cS(http.StatusText(st))}}, "[]"),
					"ext_strings_Join":    "(fun parts _ => List.concat parts)", // strings.Join(parts, ""): the only separator used
					"e_err":               cErr(inner), "e_status": cZ(int64(st)),
				}, func(x string) string { return "(eq_bytes " + x + " " + cS(e.Text()) + ")" }, map[string]interface{}{"status": st})
			}
		}
	}
}

// ---------------------------------------------------------------------------
// maurl, mautil

func checkMaurlMautil(k *checker) {
	if k.family("maurl_pathVal", "C20") && k.family("maurl_pathStB", "C20") && k.family("maurl_pathBtS", "C20") {
		for _, s := range []string{"", "a", "/", "a/b", "path%2Fto", "//", "trailing/"} {
			b := []byte(s)
			err := maurl.VerifPathVal(b)
			k.c.Nontrivial("pathVal:" + sprint(err == nil))
			k.add("maurl_pathVal", map[string]string{
				"ext_bytes_IndexByte": "(fun x c => " + cLook("(kP kB kZ)", [][2]string{{cPair(cB(b), cZ('/')), cZ(int64(bytes.IndexByte(b, '/')))}}, cZ(-7)) + " (x, c))",
				"b":                   cB(b),
			}, func(x string) string { return "(eq_err_nil " + x + " " + cErr(err) + ")" }, map[string]string{"s": s})
			sb, e1 := maurl.VerifPathStB(s)
			k.add("maurl_pathStB", map[string]string{"s": cS(s)}, func(x string) string { return "(eq_pair eq_bytes eq_err_nil " + x + " " + resBE(sb, e1) + ")" }, nil)
			bs, e2 := maurl.VerifPathBtS(b)
			k.add("maurl_pathBtS", map[string]string{"b": cB(b)}, func(x string) string { return "(eq_pair eq_bytes eq_err_nil " + x + " " + resBE([]byte(bs), e2) + ")" }, nil)
		}
	}
	texts := []string{"/ip4/8.8.8.8/tcp/80", "/ip4/127.0.0.1/tcp/1", "/ip4/0.0.0.0/tcp/1", "/ip4/10.0.0.1", "/ip6/::1", "/ip6/::", "/ip6/2001:4860:4860::8888/tcp/443/https",
		"/dns4/localhost/tcp/1", "/dns/example.com/tcp/80/http", "/dnsaddr/localhost", "/dns6/x.localhost", "/tcp/80", "/ip6zone/eth0/ip6/fe80::1",
		"/ip4/1.2.3.4/tcp/80/http", "/ip4/1.2.3.4/tcp/443/tls/http", "/p2p/12D3KooWGzxzKZYveHXtpG6AsrUJBcWxHBFS2HsEoGTxrMLvKXtf"}
	var targets []multiaddr.Multiaddr
	targets = append(targets, nil)
	for _, t := range texts {
		if a, err := multiaddr.NewMultiaddr(t); err == nil {
			targets = append(targets, a)
		}
	}
	if k.family("mautil_FilterPublic_keep", "C20") {
		for i, t := range targets {
			var kept bool
			if safely(func() { kept = len(mautil.FilterPublic([]multiaddr.Multiaddr{t})) == 1 }) {
				continue
			}
			cnil, code, val, pub, unspec := true, int64(0), "", false, false
			if t != nil {
				c, _ := multiaddr.SplitFirst(t)
				if c != nil {
					cnil, code, val = false, int64(c.Protocol().Code), c.Value()
				}
				pub, unspec = manet.IsPublicAddr(t), manet.IsIPUnspecified(t)
			}
			k.c.Nontrivial("FilterPublic:" + sprint(t == nil) + sprint(cnil) + sprint(code) + sprint(kept))
			k.add("mautil_FilterPublic_keep", map[string]string{
				"T_multiaddr_Component": "unit", "T_multiaddr_Multiaddr": "unit", "T_multiaddr_Protocol": "unit",
				"ext_multiaddr_SplitFirst":         "(fun _ => (tt, tt))",
				"fld_multiaddr_Protocol_Code":      "(fun _ => " + cZ(code) + ")",
				"isnil_T_multiaddr_Component":      "(fun _ => " + cBool(cnil) + ")",
				"isnil_T_multiaddr_Multiaddr":      "(fun _ => " + cBool(t == nil) + ")",
				"obs_multiaddr_Component_Protocol": "(fun _ => tt)",
				"obs_multiaddr_Component_Value":    "(fun _ => " + cS(val) + ")",
				"target":                           "tt",
				"a_manet_IsIPUnspecified_target":   cBool(unspec), "a_manet_IsPublicAddr_target": cBool(pub),
			}, func(x string) string { return "(Bool.eqb " + x + " " + cBool(kept) + ")" }, map[string]int{"target": i})
		}
	}
	if k.family("mautil_FindHTTPAddrs_keep", "C20") {
		for i, t := range targets {
			var kept bool
			if safely(func() { kept = len(mautil.FindHTTPAddrs([]multiaddr.Multiaddr{t})) == 1 }) {
				continue
			}
			var codes []string
			if t != nil {
				for _, p := range t.Protocols() {
					codes = append(codes, cZ(int64(p.Code)))
				}
			}
			k.c.Nontrivial("FindHTTP:" + sprint(kept))
			k.add("mautil_FindHTTPAddrs_keep", map[string]string{
				"T_multiaddr_Multiaddr": "unit", "T_multiaddr_Protocol": "Z",
				"fld_multiaddr_Protocol_Code":       "(fun c => c)",
				"isnil_T_multiaddr_Multiaddr":       "(fun _ => " + cBool(t == nil) + ")",
				"obs_multiaddr_Multiaddr_Protocols": "(fun _ => " + cList(codes) + ")",
				"target":                            "tt",
			}, func(x string) string { return "(Bool.eqb " + x + " " + cBool(kept) + ")" }, map[string]int{"target": i})
		}
	}
}

// ---------------------------------------------------------------------------
// rwriter, ingest/schema, ingest/model

func checkRwriterSchema(k *checker) {
	rng := k.c.Rng.Fork("schema")
	if k.family("rwriter_MatchQueryParam", "C19") {
		for _, q := range []string{"", "cascade=ipfs-dht", "cascade=a&cascade=ipfs-dht", "cascade=", "other=1", "cascade=a&cascade=b"} {
			for _, val := range []string{"ipfs-dht", "", "b"} {
				u, _ := url.Parse("http://x/multihash/abc?" + q)
				r := &http.Request{URL: u}
				present, matched := rwriter.MatchQueryParam(r, "cascade", val)
				labels, has := u.Query()["cascade"]
				var lb [][]byte
				for _, l := range labels {
					lb = append(lb, []byte(l))
				}
				k.c.Nontrivial("MatchQueryParam:" + sprint(present) + sprint(matched))
				k.add("rwriter_MatchQueryParam", map[string]string{"value": cS(val), "a_r_URL_Query_key": cListB(lb), "has_r_URL_Query_key": cBool(has)},
					func(x string) string {
						return "(eq_pair Bool.eqb Bool.eqb " + x + " " + cPair(cBool(present), cBool(matched)) + ")"
					}, map[string]string{"q": q, "value": val})
			}
		}
	}
	if k.family("schema_Advertisement_Validate", "C13") {
		for _, cl := range []int{0, 1, schema.MaxContextIDLen - 1, schema.MaxContextIDLen, schema.MaxContextIDLen + 1, 200} {
			for _, ml := range []int{0, schema.MaxMetadataLen - 1, schema.MaxMetadataLen, schema.MaxMetadataLen + 1} {
				ad := schema.Advertisement{ContextID: rng.Bytes(cl), Metadata: rng.Bytes(ml)}
				err := ad.Validate()
				k.c.Nontrivial("AdValidate:" + sprint(err))
				k.add("schema_Advertisement_Validate", map[string]string{"a_ContextID": cB(ad.ContextID), "a_Metadata": cB(ad.Metadata)},
					func(x string) string { return "(eq_err_text " + x + " " + cErr(err) + ")" }, map[string]int{"ctx": cl, "md": ml})
			}
		}
	}
	empty, dom := "", "other-domain"
	for _, rec := range []struct {
		pfx string
		run func(d *string, c, p []byte) (string, []byte, []byte, error)
		un  func([]byte) ([]byte, error)
		fld string
	}{
		{"schema_advSignatureRecord", schema.VerifAdvSigRecord, schema.VerifAdvSigUnmarshal, "r_advID"},
		{"schema_epSignatureRecord", schema.VerifEpSigRecord, schema.VerifEpSigUnmarshal, "r_payload"},
	} {
		okD, okM, okU := k.family(rec.pfx+"_Domain", "C05"), k.family(rec.pfx+"_MarshalRecord", "C05"), k.family(rec.pfx+"_UnmarshalRecord", "C05")
		for _, d := range []*string{nil, &empty, &dom} {
			payload := rng.Bytes(rng.Intn(40))
			gotDom, _, gotM, merr := rec.run(d, nil, payload)
			if okD {
				arg := "None"
				if d != nil {
					arg = "(Some " + cS(*d) + ")"
				}
				k.c.Nontrivial(rec.pfx + "Domain:" + sprint(d == nil))
				k.add(rec.pfx+"_Domain", map[string]string{"r_domain": arg},
					func(x string) string { return "(eq_gores eq_bytes " + x + " (Some " + cS(gotDom) + "))" }, nil)
			}
			if okM {
				k.add(rec.pfx+"_MarshalRecord", map[string]string{rec.fld: cB(payload)},
					func(x string) string { return "(eq_pair eq_bytes eq_err_nil " + x + " " + resBE(gotM, merr) + ")" }, nil)
			}
			if okU {
				stored, uerr := rec.un(payload)
				k.add(rec.pfx+"_UnmarshalRecord", map[string]string{"buf": cB(payload)},
					func(x string) string {
						return "(eq_pair eq_err_nil eq_bytes " + x + " " + cPair(cErr(uerr), cB(stored)) + ")"
					}, nil)
			}
		}
	}
	if k.family("model_IngestRequest_Domain", "C18") && k.family("model_IngestRequest_Codec", "C18") {
		r := &model.IngestRequest{}
		k.add("model_IngestRequest_Domain", map[string]string{}, func(x string) string { return "(eq_bytes " + x + " " + cS(r.Domain()) + ")" }, nil)
		k.add("model_IngestRequest_Codec", map[string]string{}, func(x string) string { return "(eq_bytes " + x + " " + cB(r.Codec()) + ")" }, nil)
	}
}
