//go:build verif

package main

import (
	"bytes"
	"crypto/aes"
	"crypto/cipher"
	"crypto/sha256"
	"encoding/binary"

	"github.com/ipld/go-ipld-prime/traversal/selector"
	"github.com/ipni/go-libipni/dagsync"
	"github.com/ipni/go-libipni/dhash"
	"github.com/ipni/go-libipni/pcache"
	"github.com/libp2p/go-libp2p/core/peer"
	"github.com/multiformats/go-multihash"
)

func checkArith(k *checker) {
	if k.family("pcache_needMerge", "C06") {
		vals := []int{-3, -1, 0, 1, 2, 3, 4, 5, 6, 7, 10, 44, 45, 46, 100, 1 << 20}
		last := map[bool]bool{}
		for _, u := range vals {
			for _, m := range vals {
				got := pcache.VerifNeedMerge(u, m)
				if !last[got] {
					last[got] = true
					k.c.Nontrivial(fmtKey("needMerge", got))
				}
				k.add("pcache_needMerge", map[string]string{"u": cZ(int64(u)), "m": cZ(int64(m))},
					func(a string) string { return "(Bool.eqb " + a + " " + cBool(got) + ")" },
					map[string]int{"u": u, "m": m})
			}
		}
	}
	if k.family("dagsync_recursionLimit", "C01") {
		for _, d := range []int64{-1 << 40, -2, -1, 0, 1, 2, 3, 1000, 1 << 40} {
			rl := dagsync.VerifRecursionLimit(d)
			obs := "(@None Z)"
			if rl.Mode() == selector.RecursionLimit_Depth {
				obs = "(Some " + cZ(rl.Depth()) + ")"
			}
			k.c.Nontrivial(fmtKey("recursionLimit", rl.Mode()))
			k.add("dagsync_recursionLimit", map[string]string{
				"T_selector_RecursionLimit":        "(option Z)",
				"ext_selector_RecursionLimitDepth": "(@Some Z)",
				"ext_selector_RecursionLimitNone":  "(@None Z)",
				"depth":                            cZ(d),
			}, func(a string) string { return "(eq_opt Z.eqb " + a + " " + obs + ")" }, map[string]int64{"depth": d})
		}
	}
}

func fmtKey(a string, b interface{}) string { return a + ":" + sprint(b) }

// ---------------------------------------------------------------------------
// dhash

var (
	secondPrefix = append([]byte("CR_DOUBLEHASH"), make([]byte, 51)...)
	keyPrefix    = append([]byte("CR_ENCRYPTIONKEY"), make([]byte, 48)...)
	noncePrefix  = append([]byte("CR_NONCE"), make([]byte, 56)...)
)

func cat(bs ...[]byte) []byte { return bytes.Join(bs, nil) }

func sha(b []byte) []byte { h := sha256.Sum256(b); return h[:] }

func resBE(b []byte, err error) string { return cPair(cB(b), cErr(err)) }

func checkDhash(k *checker) {
	rng := k.c.Rng.Fork("dhash")
	someBytes := func(n int) []byte { return rng.Bytes(n) }
	lens := []int{0, 1, 11, 12, 13, 28, 29, 40, 64}

	if k.family("dhash_CreateValueKey", "C12") {
		for _, a := range []int{0, 1, 34, 38} {
			for _, b := range []int{0, 1, 20} {
				pid, ctx := someBytes(a), someBytes(b)
				got := dhash.CreateValueKey(peer.ID(pid), ctx)
				k.add("dhash_CreateValueKey", map[string]string{"pid": cB(pid), "ctxID": cB(ctx)},
					func(x string) string { return "(eq_bytes " + x + " " + cB(got) + ")" }, map[string]int{"pid": a, "ctx": b})
			}
		}
		k.c.Nontrivial("CreateValueKey")
	}
	if k.family("dhash_deriveKey", "C12") {
		for _, n := range []int{0, 1, 34, 100} {
			pass := someBytes(n)
			got := dhash.VerifDeriveKey(pass)
			arg := cat(keyPrefix, pass)
			tbl := cLook("kB", [][2]string{{cB(arg), cB(dhash.SHA256(arg, nil))}}, "[]")
			k.add("dhash_deriveKey", map[string]string{"ext_SHA256": tbl, "passphrase": cB(pass)},
				func(x string) string { return "(eq_bytes " + x + " " + cB(got) + ")" }, map[string]int{"len": n})
		}
		k.c.Nontrivial("deriveKey")
	}
	if k.family("dhash_SecondMultihash", "C12") {
		for _, n := range []int{0, 2, 34, 70} {
			mh := someBytes(n)
			got := dhash.SecondMultihash(multihash.Multihash(mh))
			arg := cat(secondPrefix, mh)
			digest := dhash.SHA256(arg, nil)
			enc, eerr := multihash.Encode(digest, multihash.DBL_SHA2_256)
			shaT := cLook("kB", [][2]string{{cB(arg), cB(digest)}}, "[]")
			encT := "(fun d c => " + cLook("(kP kB kZ)", [][2]string{{cPair(cB(digest), cZ(multihash.DBL_SHA2_256)), resBE(enc, eerr)}}, cPair("[]", "unforeseen")) + " (d, c))"
			k.add("dhash_SecondMultihash", map[string]string{"ext_SHA256": shaT, "ext_multihash_Encode": encT, "mh": cB(mh)},
				func(x string) string { return "(eq_bytes " + x + " " + cB([]byte(got)) + ")" }, map[string]int{"len": n})
		}
		k.c.Nontrivial("SecondMultihash")
	}

	// blobs: honest ones (made by the real encryptors) and arbitrary ones of boundary lengths
	type blob struct {
		b, pass []byte
		kind    string
	}
	var blobs []blob
	for _, n := range lens {
		blobs = append(blobs, blob{someBytes(n), someBytes(34), "arbitrary"})
	}
	for _, n := range []int{0, 1, 50} {
		pass, pl := someBytes(34), someBytes(n)
		if e, err := dhash.EncryptValueKey(pl, multihash.Multihash(pass)); err == nil {
			blobs = append(blobs, blob{e, pass, "honest"})
			t := append([]byte{}, e...)
			t[len(t)-1] ^= 1
			blobs = append(blobs, blob{t, pass, "tampered"})
		}
	}
	aesTable := func(b, pass []byte) string {
		var kv [][2]string
		if len(b) >= 12 {
			n, ct := b[:12], b[12:]
			var pl []byte
			var err error
			if !safely(func() { pl, err = dhash.DecryptAES(n, ct, pass) }) {
				kv = append(kv, [2]string{cPair(cB(n), cPair(cB(ct), cB(pass))), resBE(pl, err)})
			}
		}
		return "(fun n c p => " + cLook("(kP kB (kP kB kB))", kv, cPair("[]", "unforeseen")) + " (n, (c, p)))"
	}
	for _, fn := range []struct {
		def string
		run func(b, p []byte) ([]byte, error)
		a1  string
		a2  string
	}{
		{"dhash_DecryptValueKey", func(b, p []byte) ([]byte, error) { return dhash.DecryptValueKey(b, multihash.Multihash(p)) }, "valKey", "mh"},
		{"dhash_DecryptMetadata", func(b, p []byte) ([]byte, error) { return dhash.DecryptMetadata(b, p) }, "encMetadata", "valueKey"},
	} {
		if !k.family(fn.def, "C12") {
			continue
		}
		for _, bl := range blobs {
			var got []byte
			var err error
			panicked := safely(func() { got, err = fn.run(bl.b, bl.pass) })
			obs := "(Some " + resBE(got, err) + ")"
			if panicked {
				obs = "None"
			}
			k.c.Nontrivial(fmtKey(fn.def, bl.kind+sprint(len(bl.b) <= 12)+sprint(err == nil)))
			k.add(fn.def, map[string]string{"ext_DecryptAES": aesTable(bl.b, bl.pass), fn.a1: cB(bl.b), fn.a2: cB(bl.pass)},
				func(x string) string { return "(eq_gores (eq_pair eq_bytes eq_err_text) " + x + " " + obs + ")" },
				map[string]interface{}{"kind": bl.kind, "len": len(bl.b)})
		}
	}
	for _, fn := range []struct {
		def string
		run func(b, p []byte) ([]byte, error)
		a1  string
		a2  string
	}{
		{"dhash_EncryptValueKey", func(b, p []byte) ([]byte, error) { return dhash.EncryptValueKey(b, multihash.Multihash(p)) }, "valKey", "mh"},
		{"dhash_EncryptMetadata", func(b, p []byte) ([]byte, error) { return dhash.EncryptMetadata(b, p) }, "metadata", "valueKey"},
	} {
		if !k.family(fn.def, "C12") {
			continue
		}
		for _, n := range []int{0, 1, 40, 300} {
			pl, pass := someBytes(n), someBytes(34)
			nonce, enc, eerr := dhash.EncryptAES(pl, pass)
			got, err := fn.run(pl, pass)
			tbl := "(fun a b => " + cLook("(kP kB kB)", [][2]string{{cPair(cB(pl), cB(pass)), "(" + cB(nonce) + ", " + cB(enc) + ", " + cErr(eerr) + ")"}}, "([], [], unforeseen)") + " (a, b))"
			k.add(fn.def, map[string]string{"ext_EncryptAES": tbl, fn.a1: cB(pl), fn.a2: cB(pass)},
				func(x string) string { return "(eq_pair eq_bytes eq_err_text " + x + " " + resBE(got, err) + ")" }, map[string]int{"len": n})
		}
		k.c.Nontrivial(fn.def)
	}

	if k.family("dhash_DecryptAES", "C12") {
		for _, bl := range blobs {
			for _, nlen := range []int{12, 0, 11, 13} {
				if nlen != 12 && bl.kind != "honest" {
					continue
				}
				var nonce, ct []byte
				if len(bl.b) >= 12 {
					nonce, ct = bl.b[:12], bl.b[12:]
				} else {
					nonce, ct = bl.b, nil
				}
				if nlen != 12 {
					nonce = someBytes(nlen)
				}
				var got []byte
				var err error
				if safely(func() { got, err = dhash.DecryptAES(nonce, ct, bl.pass) }) {
					continue // the generated definition has no panic outcome; not expected with the length guard
				}
				key := dhash.VerifDeriveKey(bl.pass)
				blk, berr := aes.NewCipher(key)
				var gerr error
				var openKV [][2]string
				if berr == nil {
					var g cipher.AEAD
					g, gerr = cipher.NewGCM(blk)
					if gerr == nil && len(nonce) == g.NonceSize() {
						pl, oerr := g.Open(nil, nonce, ct, nil)
						openKV = append(openKV, [2]string{cPair(cB(nonce), cB(ct)), resBE(pl, oerr)})
					}
				}
				k.c.Nontrivial(fmtKey("DecryptAES", sprint(len(nonce))+sprint(err == nil)))
				k.add("dhash_DecryptAES", map[string]string{
					"T_cipher_AEAD": "unit", "T_cipher_Block": "unit",
					"ext_aes_NewCipher":    "(fun k => (tt, " + cLook("kB", [][2]string{{cB(key), cErr(berr)}}, "unforeseen") + " k))",
					"ext_cipher_NewGCM":    "(fun _ => (tt, " + cErr(gerr) + "))",
					"ext_deriveKey":        cLook("kB", [][2]string{{cB(bl.pass), cB(key)}}, "[]"),
					"obs_cipher_AEAD_Open": "(fun _ n c => " + cLook("(kP kB kB)", openKV, cPair("[]", "unforeseen")) + " (n, c))",
					"nonce":                cB(nonce), "payload": cB(ct), "passphrase": cB(bl.pass),
				}, func(x string) string { return "(eq_pair eq_bytes eq_err_text " + x + " " + resBE(got, err) + ")" },
					map[string]interface{}{"kind": bl.kind, "nonce": len(nonce)})
			}
		}
	}
	if k.family("dhash_EncryptAES", "C12") {
		for _, n := range []int{0, 1, 40, 300} {
			pl, pass := someBytes(n), someBytes(34)
			nonce, enc, err := dhash.EncryptAES(pl, pass)
			key := dhash.VerifDeriveKey(pass)
			lenb := make([]byte, 8)
			binary.LittleEndian.PutUint64(lenb, uint64(len(pl)))
			full := dhash.VerifSha256Multiple(nil, noncePrefix, lenb, pl, pass)
			blk, berr := aes.NewCipher(key)
			var gerr error
			var sealKV [][2]string
			if berr == nil {
				var g cipher.AEAD
				if g, gerr = cipher.NewGCM(blk); gerr == nil && len(full) >= 12 {
					sealKV = append(sealKV, [2]string{cPair(cB(full[:12]), cB(pl)), cB(g.Seal(nil, full[:12], pl, nil))})
				}
			}
			obs := "(Some (" + cB(nonce) + ", " + cB(enc) + ", " + cErr(err) + "))"
			k.add("dhash_EncryptAES", map[string]string{
				"T_cipher_AEAD": "unit", "T_cipher_Block": "unit",
				"ext_aes_NewCipher":                 "(fun k => (tt, " + cLook("kB", [][2]string{{cB(key), cErr(berr)}}, "unforeseen") + " k))",
				"ext_binary_LittleEndian_PutUint64": "(fun b n => " + cLook("(kP kB kZ)", [][2]string{{cPair(cB(make([]byte, 8)), cZ(int64(len(pl)))), cB(lenb)}}, "[]") + " (b, n))",
				"ext_cipher_NewGCM":                 "(fun _ => (tt, " + cErr(gerr) + "))",
				"ext_deriveKey":                     cLook("kB", [][2]string{{cB(pass), cB(key)}}, "[]"),
				"ext_sha256Multiple": "(fun a b c d => " + cLook("(kP kB (kP kB (kP kB kB)))",
					[][2]string{{cPair(cB(noncePrefix), cPair(cB(lenb), cPair(cB(pl), cB(pass)))), cB(full)}}, "[]") + " (a, (b, (c, d))))",
				"obs_cipher_AEAD_Seal": "(fun _ n p => " + cLook("(kP kB kB)", sealKV, "[]") + " (n, p))",
				"payload":              cB(pl), "passphrase": cB(pass),
			}, func(x string) string {
				return "(eq_gores (fun g o => eq_bytes (fst (fst g)) (fst (fst o)) && eq_bytes (snd (fst g)) (snd (fst o)) && eq_err_text (snd g) (snd o))%bool " + x + " " + obs + ")"
			}, map[string]int{"len": n})
		}
		k.c.Nontrivial("EncryptAES")
	}
	_ = sha
}
