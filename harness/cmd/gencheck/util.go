//go:build verif

package main

import "fmt"

func sprint(v interface{}) string { return fmt.Sprint(v) }
