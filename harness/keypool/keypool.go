// Package keypool builds a deterministic pool of real libp2p identities (all four key
// types) from the run's seeded PRNG.  The symbolic Coq models name a key by its index
// in this pool; the harness maps real public keys / peer IDs / signatures back to
// indices with the look-ups below.
//
// Go's ecdsa.GenerateKey / rsa.GenerateKey deliberately consume a random number of
// bytes from their reader (randutil.MaybeReadByte), so they are not reproducible from a
// seeded stream; ECDSA keys are therefore built from a seeded scalar and RSA keys from
// seeded primes (candidates from the PRNG, math/big's deterministic-for-its-input
// ProbablyPrime).
package keypool

import (
	"crypto/ecdsa"
	"crypto/elliptic"
	"crypto/rsa"
	"crypto/x509"
	"fmt"
	"math/big"
	"os"
	"path/filepath"

	"github.com/libp2p/go-libp2p/core/crypto"
	"github.com/libp2p/go-libp2p/core/peer"

	"verif/harness/vlib"
)

var KeyTypes = []string{"ed25519", "secp256k1", "ecdsa", "rsa"}

type Identity struct {
	Index int // index in the pool = the key's name in the Coq model
	Type  string
	Priv  crypto.PrivKey
	Pub   crypto.PubKey
	ID    peer.ID
}

type Pool struct {
	Ids []*Identity
	// peer IDs / keys that are not in the pool get numbers from 1000 / 500 in order of
	// first appearance (deterministic for a deterministic run)
	otherIDs  map[peer.ID]int
	otherKeys map[string]int
	junkSigs  map[string]int
	nOtherIDs int
}

type rngReader struct{ r *vlib.Rand }

func (r rngReader) Read(p []byte) (int, error) {
	copy(p, r.r.Bytes(len(p)))
	return len(p), nil
}

func genPrime(r *vlib.Rand, bits int) *big.Int {
	for {
		b := r.Bytes(bits / 8)
		b[0] |= 0xC0 // top two bits set: product of two such primes has exactly 2*bits bits
		b[len(b)-1] |= 1
		p := new(big.Int).SetBytes(b)
		if !passesSieve(p) {
			continue
		}
		if p.ProbablyPrime(20) {
			return p
		}
	}
}

func genRSA(r *vlib.Rand, bits int) (crypto.PrivKey, error) {
	for {
		p, q := genPrime(r, bits/2), genPrime(r, bits/2)
		if p.Cmp(q) == 0 {
			continue
		}
		n := new(big.Int).Mul(p, q)
		one := big.NewInt(1)
		phi := new(big.Int).Mul(new(big.Int).Sub(p, one), new(big.Int).Sub(q, one))
		e := big.NewInt(65537)
		d := new(big.Int).ModInverse(e, phi)
		if d == nil {
			continue
		}
		k := &rsa.PrivateKey{PublicKey: rsa.PublicKey{N: n, E: 65537}, D: d, Primes: []*big.Int{p, q}}
		k.Precompute()
		if err := k.Validate(); err != nil {
			continue
		}
		return crypto.UnmarshalRsaPrivateKey(x509.MarshalPKCS1PrivateKey(k))
	}
}

func genECDSA(r *vlib.Rand) (crypto.PrivKey, error) {
	curve := elliptic.P256()
	n := curve.Params().N
	for {
		d := new(big.Int).SetBytes(r.Bytes(32))
		if d.Sign() == 0 || d.Cmp(n) >= 0 {
			continue
		}
		x, y := curve.ScalarBaseMult(d.Bytes())
		k := &ecdsa.PrivateKey{PublicKey: ecdsa.PublicKey{Curve: curve, X: x, Y: y}, D: d}
		priv, _, err := crypto.ECDSAKeyPairFromKey(k)
		return priv, err
	}
}

// Gen makes one key of the given type from the stream.
func Gen(r *vlib.Rand, typ string) (crypto.PrivKey, error) {
	switch typ {
	case "ed25519":
		k, _, err := crypto.GenerateEd25519Key(rngReader{r})
		return k, err
	case "secp256k1":
		for {
			k, err := crypto.UnmarshalSecp256k1PrivateKey(r.Bytes(32))
			if err == nil {
				return k, nil
			}
		}
	case "ecdsa":
		return genECDSA(r)
	case "rsa":
		return genRSA(r, 2048)
	}
	return nil, fmt.Errorf("unknown key type %s", typ)
}

// New builds perType identities of each key type, in the order of KeyTypes (index =
// typeIndex*perType + n).
func New(r *vlib.Rand, perType int) *Pool {
	p := &Pool{otherIDs: map[peer.ID]int{}, otherKeys: map[string]int{}, junkSigs: map[string]int{}}
	for _, t := range KeyTypes {
		rr := r.Fork("keys-" + t)
		for n := 0; n < perType; n++ {
			k, err := Gen(rr, t)
			if err != nil {
				panic(err)
			}
			p.Add(t, k)
		}
	}
	return p
}

func (p *Pool) Add(typ string, k crypto.PrivKey) *Identity {
	id, err := peer.IDFromPrivateKey(k)
	if err != nil {
		panic(err)
	}
	it := &Identity{Index: len(p.Ids), Type: typ, Priv: k, Pub: k.GetPublic(), ID: id}
	p.Ids = append(p.Ids, it)
	return it
}

func (p *Pool) OfType(typ string) []*Identity {
	var out []*Identity
	for _, it := range p.Ids {
		if it.Type == typ {
			out = append(out, it)
		}
	}
	return out
}

// KeyIndex names a public key: its pool index, or 500+n for a key outside the pool.
func (p *Pool) KeyIndex(k crypto.PubKey) int {
	for _, it := range p.Ids {
		if it.Pub.Equals(k) {
			return it.Index
		}
	}
	raw, err := crypto.MarshalPublicKey(k)
	if err != nil {
		raw = []byte(fmt.Sprintf("unmarshalable-%p", k))
	}
	if n, ok := p.otherKeys[string(raw)]; ok {
		return n
	}
	n := 500 + len(p.otherKeys)
	p.otherKeys[string(raw)] = n
	// the peer ID of a key gets the key's number (the symbolic peer_id is the identity)
	if id, err := peer.IDFromPublicKey(k); err == nil {
		if _, seen := p.otherIDs[id]; !seen {
			p.otherIDs[id] = n
		}
	}
	return n
}

// IDIndex names a peer ID: the index of the pool key it belongs to, or 1000+n.
func (p *Pool) IDIndex(id peer.ID) int {
	for _, it := range p.Ids {
		if it.ID == id {
			return it.Index
		}
	}
	if n, ok := p.otherIDs[id]; ok {
		return n
	}
	p.nOtherIDs++
	n := 1000 + p.nOtherIDs
	p.otherIDs[id] = n
	return n
}

// JunkIndex names a signature byte string that no recorded signing produced.
func (p *Pool) JunkIndex(sig []byte) int {
	if n, ok := p.junkSigs[string(sig)]; ok {
		return n
	}
	n := len(p.junkSigs)
	p.junkSigs[string(sig)] = n
	return n
}

// MarshalPriv / UnmarshalPriv carry a key in replay files.
func MarshalPriv(k crypto.PrivKey) []byte {
	b, err := crypto.MarshalPrivateKey(k)
	if err != nil {
		panic(err)
	}
	return b
}

// BigRSA returns the deterministic RSA key of the given size for this stream (label
// "rsa-<bits>" of r).  Large keys take seconds to find, so the marshalled key is cached
// under dir (file name = bits and a fingerprint of the stream state); a cached key is
// exactly the key the stream would produce.
func BigRSA(r *vlib.Rand, bits int, dir string) (crypto.PrivKey, error) {
	rr := r.Fork(fmt.Sprintf("rsa-%d", bits))
	fp := rr.Fork("fingerprint").Uint64()
	path := ""
	if dir != "" {
		path = filepath.Join(dir, fmt.Sprintf("rsa-%d-%016x.key", bits, fp))
		if b, err := os.ReadFile(path); err == nil {
			if k, err := crypto.UnmarshalPrivateKey(b); err == nil {
				return k, nil
			}
		}
	}
	k, err := genRSA(rr, bits)
	if err != nil {
		return nil, err
	}
	if path != "" {
		if b, err := crypto.MarshalPrivateKey(k); err == nil {
			_ = os.MkdirAll(dir, 0o755)
			tmp := fmt.Sprintf("%s.%d", path, os.Getpid())
			if os.WriteFile(tmp, b, 0o600) == nil {
				_ = os.Rename(tmp, path)
			}
		}
	}
	return k, nil
}

var smallPrimes = func() []uint64 {
	var ps []uint64
	for n := uint64(3); n < 2000; n += 2 {
		ok := true
		for _, p := range ps {
			if p*p > n {
				break
			}
			if n%p == 0 {
				ok = false
				break
			}
		}
		if ok {
			ps = append(ps, n)
		}
	}
	return ps
}()

func passesSieve(p *big.Int) bool {
	var m big.Int
	for _, q := range smallPrimes {
		var d big.Int
		if m.Mod(p, d.SetUint64(q)).Sign() == 0 {
			return false
		}
	}
	return true
}
