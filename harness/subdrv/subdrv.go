// Package subdrv drives a real dagsync.Subscriber for the concurrency checks C14/C15:
// gated HTTP publishers (every head/block request can be held or failed), a subscriber
// over a logging store and block hook, a scheduler over the verif yield hook
// (dagsync.SetVerifYield) that delays goroutines at named points by rules or at random
// (seeded), watchdog helpers and a goroutine-dump filter.
package subdrv

import (
	"bytes"
	"context"
	"crypto/ed25519"
	"fmt"
	"io"
	"net/http"
	"net/http/httptest"
	"net/url"
	"path"
	"runtime"
	"sort"
	"strings"
	"sync"
	"sync/atomic"
	"time"

	"github.com/ipfs/go-cid"
	"github.com/ipfs/go-datastore"
	dssync "github.com/ipfs/go-datastore/sync"
	"github.com/ipld/go-ipld-prime"
	_ "github.com/ipld/go-ipld-prime/codec/dagjson"
	"github.com/ipld/go-ipld-prime/fluent"
	cidlink "github.com/ipld/go-ipld-prime/linking/cid"
	basicnode "github.com/ipld/go-ipld-prime/node/basic"
	"github.com/ipni/go-libipni/dagsync"
	"github.com/ipni/go-libipni/dagsync/ipnisync"
	"github.com/ipni/go-libipni/maurl"
	ic "github.com/libp2p/go-libp2p/core/crypto"
	"github.com/libp2p/go-libp2p/core/host"
	"github.com/libp2p/go-libp2p/core/peer"
	"github.com/multiformats/go-multiaddr"
	"github.com/multiformats/go-multicodec"
	"github.com/multiformats/go-multihash"

	"verif/harness/vlib"
)

// Clock is the logical clock of one run: every observed action takes the next tick.
var Clock atomic.Uint64

func Tick() uint64 { return Clock.Add(1) }

// ---------------------------------------------------------------------------
// Responsive time.  A watchdog that says "this call blocks" must not fire because the machine
// is overloaded and the process was not scheduled: time-outs are therefore measured in the
// time this process was demonstrably able to run — a background goroutine sleeps 1 ms at a
// time and counts its wake-ups — with a hard cap of 15 times the nominal duration in wall
// time.  On an idle machine responsive time is wall time (within a few percent); when the
// process is starved it runs slower; when the process is idle because everything in it is
// blocked, it runs at full speed, so a real deadlock is still reported after the bound.

var respTicks atomic.Int64
var respOnce sync.Once

func respStart() {
	respOnce.Do(func() {
		go func() {
			for {
				time.Sleep(time.Millisecond)
				respTicks.Add(1)
			}
		}()
	})
}

// Deadline expires after d of responsive time (at most 15*d of wall time).
type Deadline struct {
	tick0 int64
	wall0 time.Time
	d     time.Duration
}

func NewDeadline(d time.Duration) Deadline {
	respStart()
	return Deadline{respTicks.Load(), time.Now(), d}
}

func (dl Deadline) Expired() bool {
	if time.Duration(respTicks.Load()-dl.tick0)*time.Millisecond >= dl.d {
		return true
	}
	return time.Since(dl.wall0) >= 15*dl.d
}

// RespNow is the responsive clock (see above).
func RespNow() time.Duration {
	respStart()
	return time.Duration(respTicks.Load()) * time.Millisecond
}

// After returns a channel that is closed when d of responsive time has passed.
func After(d time.Duration) <-chan struct{} {
	ch := make(chan struct{})
	dl := NewDeadline(d)
	go func() {
		for !dl.Expired() {
			time.Sleep(time.Millisecond)
		}
		close(ch)
	}()
	return ch
}

// ---------------------------------------------------------------------------
// Stores

type LogStore struct {
	ds     datastore.Batching
	mu     sync.Mutex
	Writes []uint64 // tick of every committed block write
}

func NewLogStore() *LogStore {
	return &LogStore{ds: dssync.MutexWrap(datastore.NewMapDatastore())}
}

func (l *LogStore) WritesAfter(t uint64) int {
	l.mu.Lock()
	defer l.mu.Unlock()
	n := 0
	for _, w := range l.Writes {
		if w > t {
			n++
		}
	}
	return n
}

func (l *LogStore) NWrites() int {
	l.mu.Lock()
	defer l.mu.Unlock()
	return len(l.Writes)
}

func (l *LogStore) LinkSystem() ipld.LinkSystem {
	lsys := cidlink.DefaultLinkSystem()
	lsys.StorageReadOpener = func(lctx ipld.LinkContext, lnk ipld.Link) (io.Reader, error) {
		val, err := l.ds.Get(context.Background(), datastore.NewKey(lnk.String()))
		if err != nil {
			return nil, err
		}
		return bytes.NewBuffer(val), nil
	}
	lsys.StorageWriteOpener = func(lctx ipld.LinkContext) (io.Writer, ipld.BlockWriteCommitter, error) {
		buf := bytes.NewBuffer(nil)
		return buf, func(lnk ipld.Link) error {
			err := l.ds.Put(context.Background(), datastore.NewKey(lnk.String()), buf.Bytes())
			l.mu.Lock()
			l.Writes = append(l.Writes, Tick())
			l.mu.Unlock()
			return err
		}, nil
	}
	return lsys
}

// ---------------------------------------------------------------------------
// Publisher

var chainProto = cidlink.LinkPrototype{Prefix: cid.Prefix{Version: 1, Codec: uint64(multicodec.DagJson), MhType: multihash.SHA2_256, MhLength: 32}}

// GateFunc is called in the HTTP handler goroutine for every request ("head" or
// "block") before it is served; it may block; a non-zero result is sent as the HTTP
// status instead of the content.
type GateFunc func(p *Pub, kind string, c cid.Cid) int

type Pub struct {
	Idx   int
	Priv  ic.PrivKey
	ID    peer.ID
	Chain []cid.Cid // oldest first
	Addr  multiaddr.Multiaddr

	store *LogStore
	lsys  ipld.LinkSystem
	pub   *ipnisync.Publisher
	ts    *httptest.Server
	prev  ipld.Link

	mu   sync.Mutex
	gate GateFunc
	Reqs int
}

type seedReader struct{ r *vlib.Rand }

func (s seedReader) Read(p []byte) (int, error) {
	copy(p, s.r.Bytes(len(p)))
	return len(p), nil
}

// NewPub creates publisher idx (identity derived from seed and idx) with an empty chain.
func NewPub(idx int, seed uint64) *Pub {
	r := vlib.NewRand(seed).Fork(fmt.Sprint("pub", idx))
	edpriv := ed25519.NewKeyFromSeed(r.Bytes(32))
	priv, err := ic.UnmarshalEd25519PrivateKey(edpriv)
	if err != nil {
		panic(err)
	}
	id, err := peer.IDFromPrivateKey(priv)
	if err != nil {
		panic(err)
	}
	p := &Pub{Idx: idx, Priv: priv, ID: id, store: NewLogStore()}
	p.lsys = p.store.LinkSystem()
	p.pub, err = ipnisync.NewPublisher(p.lsys, priv, ipnisync.WithStartServer(false))
	if err != nil {
		panic(err)
	}
	p.ts = httptest.NewServer(p)
	u, err := url.Parse(p.ts.URL)
	if err != nil {
		panic(err)
	}
	p.Addr, err = maurl.FromURL(u)
	if err != nil {
		panic(err)
	}
	return p
}

// Extend appends n advertisements-like nodes {"PreviousID": link, "Seq": i, "Pub": idx}.
func (p *Pub) Extend(n int) {
	for k := 0; k < n; k++ {
		i := len(p.Chain)
		node := fluent.MustBuildMap(basicnode.Prototype.Map, 3, func(ma fluent.MapAssembler) {
			if p.prev != nil {
				ma.AssembleEntry("PreviousID").AssignLink(p.prev)
			}
			ma.AssembleEntry("Seq").AssignInt(int64(i))
			ma.AssembleEntry("Pub").AssignInt(int64(p.Idx))
		})
		lnk, err := p.lsys.Store(ipld.LinkContext{}, chainProto, node)
		if err != nil {
			panic(err)
		}
		p.prev = lnk
		p.Chain = append(p.Chain, lnk.(cidlink.Link).Cid)
	}
}

// ExtendEntries stores a chain of n entry-chunk-like nodes {"Next": link, "Chunk": i} and
// returns their CIDs, head (the one to sync from) first.
func (p *Pub) ExtendEntries(n int) []cid.Cid {
	var out []cid.Cid
	var next ipld.Link
	for i := 0; i < n; i++ {
		node := fluent.MustBuildMap(basicnode.Prototype.Map, 3, func(ma fluent.MapAssembler) {
			if next != nil {
				ma.AssembleEntry("Next").AssignLink(next)
			}
			ma.AssembleEntry("Chunk").AssignInt(int64(i))
			ma.AssembleEntry("Of").AssignInt(int64(len(p.Chain)*1000 + p.Idx))
		})
		lnk, err := p.lsys.Store(ipld.LinkContext{}, chainProto, node)
		if err != nil {
			panic(err)
		}
		next = lnk
		out = append([]cid.Cid{lnk.(cidlink.Link).Cid}, out...)
	}
	return out
}

func (p *Pub) SetHead(i int) { p.pub.SetRoot(p.Chain[i]) }

func (p *Pub) Info() peer.AddrInfo {
	return peer.AddrInfo{ID: p.ID, Addrs: []multiaddr.Multiaddr{p.Addr}}
}

func (p *Pub) SetGate(g GateFunc) {
	p.mu.Lock()
	p.gate = g
	p.mu.Unlock()
}

func (p *Pub) Close() {
	p.ts.CloseClientConnections()
	p.ts.Close()
	p.pub.Close()
}

// Index of a CID in the chain, -1 if absent.
func (p *Pub) Index(c cid.Cid) int {
	for i, x := range p.Chain {
		if x == c {
			return i
		}
	}
	return -1
}

func (p *Pub) ServeHTTP(w http.ResponseWriter, r *http.Request) {
	up := r.URL.Path
	if strings.HasPrefix(up, "/.well-known/") {
		http.NotFound(w, r) // not a libp2phttp server: the client uses plain HTTP
		return
	}
	kind := "block"
	var c cid.Cid
	if path.Base(up) == "head" {
		kind = "head"
	} else if cc, err := cid.Decode(path.Base(up)); err == nil {
		c = cc
	}
	p.mu.Lock()
	g := p.gate
	p.Reqs++
	p.mu.Unlock()
	if g != nil {
		if st := g(p, kind, c); st != 0 {
			w.WriteHeader(st)
			return
		}
	}
	p.pub.ServeHTTP(w, r)
}

// ---------------------------------------------------------------------------
// Scheduler over the yield hook

type PointRec struct {
	Name string `json:"name"`
	Peer int    `json:"peer"` // publisher index, -1 if none/unknown
	Tick uint64 `json:"tick"`
	G    uint64 `json:"g"`              // goroutine that passed the point / made the call
	Key  int    `json:"key,omitempty"`  // harness records ("call", "ret", ...): the call they belong to
	Info string `json:"info,omitempty"` // harness records: free-form payload
}

// Goid returns the id of the calling goroutine (parsed from its stack header).
func Goid() uint64 {
	var buf [64]byte
	n := runtime.Stack(buf[:], false)
	// "goroutine 123 [running]:"
	var id uint64
	for _, c := range buf[len("goroutine "):n] {
		if c < '0' || c > '9' {
			break
		}
		id = id*10 + uint64(c-'0')
	}
	return id
}

// Rule: the Nth (1-based) passage of Point (for publisher Peer, -1 = any) is held until
// the UntilNth passage of Until (publisher UntilPeer) has happened, or until MaxMs.
type Rule struct {
	Point     string `json:"point"`
	Peer      int    `json:"peer"`
	Nth       int    `json:"nth"`
	Until     string `json:"until"`
	UntilPeer int    `json:"until_peer"`
	UntilNth  int    `json:"until_nth"`
	MaxMs     int    `json:"max_ms"`
}

type Sched struct {
	mu      sync.Mutex
	counts  map[string]int
	Log     []PointRec
	changed chan struct{}
	rules   []Rule
	peers   map[peer.ID]int
	rng     *vlib.Rand
	curG    uint64 // goroutine of the passage being noted (set under mu)
	random  int    // 0 off; otherwise perturb about 1 in `random` passages
	Held    atomic.Int64
	// OnPoint, if set, is called (outside the lock) at every passage before rules apply.
	OnPoint func(name string, peerIdx int)
}

func key(name string, peerIdx int) string { return fmt.Sprintf("%s|%d", name, peerIdx) }

func NewSched(pubs []*Pub, rules []Rule, rng *vlib.Rand, random int) *Sched {
	s := &Sched{counts: map[string]int{}, changed: make(chan struct{}), rules: rules, peers: map[peer.ID]int{}, rng: rng, random: random}
	for _, p := range pubs {
		s.peers[p.ID] = p.Idx
	}
	return s
}

func (s *Sched) Install()   { dagsync.SetVerifYield(s.At) }
func (s *Sched) Uninstall() { dagsync.SetVerifYield(nil) }

// Count of passages of a point (peerIdx -1: any publisher).
func (s *Sched) Count(name string, peerIdx int) int {
	s.mu.Lock()
	defer s.mu.Unlock()
	return s.counts[key(name, peerIdx)]
}

// Signal records an external event (e.g. "ext:close-returned") as a passage.
func (s *Sched) Signal(name string, peerIdx int) uint64 {
	g := Goid()
	s.mu.Lock()
	s.curG = g
	t := s.note(name, peerIdx)
	s.mu.Unlock()
	return t
}

// Record appends a harness record (a call starting, returning, ...) to the log, in the same
// total order as the yield-point passages.
func (s *Sched) Record(name string, key int, info string) uint64 {
	g := Goid()
	s.mu.Lock()
	t := Tick()
	s.Log = append(s.Log, PointRec{Name: name, Peer: -1, Tick: t, G: g, Key: key, Info: info})
	s.mu.Unlock()
	return t
}

func (s *Sched) note(name string, peerIdx int) uint64 {
	t := Tick()
	s.counts[key(name, peerIdx)]++
	if peerIdx != -1 {
		s.counts[key(name, -1)]++
	}
	s.Log = append(s.Log, PointRec{Name: name, Peer: peerIdx, Tick: t, G: s.curG})
	close(s.changed)
	s.changed = make(chan struct{})
	return t
}

// WaitFor blocks until the point has been passed n times, or the timeout; reports success.
func (s *Sched) WaitFor(name string, peerIdx, n int, timeout time.Duration) bool {
	dl := NewDeadline(timeout)
	for {
		s.mu.Lock()
		ok := s.counts[key(name, peerIdx)] >= n
		ch := s.changed
		s.mu.Unlock()
		if ok {
			return true
		}
		if dl.Expired() {
			return false
		}
		select {
		case <-ch:
		case <-time.After(2 * time.Millisecond):
		}
	}
}

func (s *Sched) At(name string, p peer.ID) {
	idx := -1
	if p != "" {
		if i, ok := s.peers[p]; ok {
			idx = i
		}
	}
	if f := s.OnPoint; f != nil {
		f(name, idx)
	}
	g := Goid()
	s.mu.Lock()
	s.curG = g
	s.note(name, idx)
	nAny := s.counts[key(name, -1)]
	nPeer := s.counts[key(name, idx)]
	var hold *Rule
	for i := range s.rules {
		r := &s.rules[i]
		if r.Point != name {
			continue
		}
		if (r.Peer == -1 && r.Nth == nAny) || (r.Peer == idx && idx != -1 && r.Nth == nPeer) {
			hold = r
			break
		}
	}
	perturb := 0
	if hold == nil && s.random > 0 && s.rng != nil {
		if s.rng.Intn(s.random) == 0 {
			perturb = 1 + s.rng.Intn(4)
		}
	}
	s.mu.Unlock()
	if hold != nil {
		max := time.Duration(hold.MaxMs) * time.Millisecond
		if max == 0 {
			max = 1500 * time.Millisecond
		}
		s.Held.Add(1)
		s.WaitFor(hold.Until, hold.UntilPeer, hold.UntilNth, max)
		s.Held.Add(-1)
		return
	}
	switch perturb {
	case 0:
	case 1, 2:
		for i := 0; i < perturb*3; i++ {
			runtime.Gosched()
		}
	case 3:
		time.Sleep(50 * time.Microsecond)
	default:
		time.Sleep(400 * time.Microsecond)
	}
}

func (s *Sched) Snapshot() []PointRec {
	s.mu.Lock()
	defer s.mu.Unlock()
	return append([]PointRec(nil), s.Log...)
}

// ---------------------------------------------------------------------------
// World: one subscriber with its observers

type HookRec struct {
	Peer int
	Cid  cid.Cid
	Tick uint64
	G    uint64
}

type World struct {
	Sub    *dagsync.Subscriber
	Store  *LogStore
	Pubs   []*Pub
	NoRecv bool

	mu    sync.Mutex
	Hooks []HookRec
	peers map[peer.ID]int
}

// NewWorld creates a subscriber (no libp2p host: HTTP syncs and direct announcements
// only) with an announcement receiver, a logging store and a logging block hook.
func NewWorld(pubs []*Pub, opts ...dagsync.Option) *World {
	return NewWorldWithHost(nil, pubs, opts...)
}

// NewWorldWithHost is NewWorld with a libp2p host (for a subscriber that listens on a gossip
// topic; pass dagsync.RecvAnnounce(topic, ...) among opts: the last RecvAnnounce wins).
func NewWorldWithHost(h host.Host, pubs []*Pub, opts ...dagsync.Option) *World {
	return newWorld(h, pubs, false, opts...)
}

// NewWorldNoRecv creates a subscriber without an announcement receiver.
func NewWorldNoRecv(pubs []*Pub, opts ...dagsync.Option) *World {
	return newWorld(nil, pubs, true, opts...)
}

func newWorld(h host.Host, pubs []*Pub, noRecv bool, opts ...dagsync.Option) *World {
	w := &World{Store: NewLogStore(), Pubs: pubs, peers: map[peer.ID]int{}, NoRecv: noRecv}
	for _, p := range pubs {
		w.peers[p.ID] = p.Idx
	}
	hook := func(p peer.ID, c cid.Cid, act dagsync.SegmentSyncActions) {
		t := Tick()
		g := Goid()
		w.mu.Lock()
		idx, ok := w.peers[p]
		if !ok {
			idx = -1
		}
		w.Hooks = append(w.Hooks, HookRec{idx, c, t, g})
		w.mu.Unlock()
		// what a real block hook does for segmented syncs: name the advertisement to go on
		// with (the previous one in the chain)
		if ok && act != nil {
			if i := w.Pubs[idx].Index(c); i > 0 {
				act.SetNextSyncCid(w.Pubs[idx].Chain[i-1])
			} else if i == 0 {
				act.SetNextSyncCid(cid.Undef)
			}
		}
	}
	all := []dagsync.Option{dagsync.BlockHook(hook)}
	if !w.NoRecv {
		all = append(all, dagsync.RecvAnnounce(""))
	}
	all = append(all, opts...)
	sub, err := dagsync.NewSubscriber(h, w.Store.LinkSystem(), all...)
	if err != nil {
		panic(err)
	}
	w.Sub = sub
	return w
}

func (w *World) PeerIdx(p peer.ID) int {
	if i, ok := w.peers[p]; ok {
		return i
	}
	return -1
}

func (w *World) HooksAfter(t uint64) int {
	w.mu.Lock()
	defer w.mu.Unlock()
	n := 0
	for _, h := range w.Hooks {
		if h.Tick > t {
			n++
		}
	}
	return n
}

func (w *World) NHooks() int {
	w.mu.Lock()
	defer w.mu.Unlock()
	return len(w.Hooks)
}

// ---------------------------------------------------------------------------
// Watchdog and goroutine dump

// Call runs f and reports whether it returned within d, and a panic value if it panicked.
func Call(d time.Duration, f func()) (returned bool, panicked interface{}) {
	done := make(chan interface{}, 1)
	go func() {
		defer func() { done <- recover() }()
		f()
	}()
	dl := NewDeadline(d)
	for {
		select {
		case p := <-done:
			return true, p
		case <-time.After(2 * time.Millisecond):
			if dl.Expired() {
				return false, nil
			}
		}
	}
}

// LibGoroutines returns, for every live goroutine with a frame in go-libipni/dagsync or
// go-libipni/announce, the innermost such function (sorted).  Frames of the harness that
// merely call into the library count (a blocked API call is a finding too).
func LibGoroutines() []string {
	buf := make([]byte, 1<<20)
	for {
		n := runtime.Stack(buf, true)
		if n < len(buf) {
			buf = buf[:n]
			break
		}
		buf = make([]byte, 2*len(buf))
	}
	var out []string
	for _, g := range strings.Split(string(buf), "\n\n") {
		lines := strings.Split(g, "\n")
		for _, ln := range lines[1:] {
			if strings.HasPrefix(ln, "\t") {
				continue
			}
			if strings.Contains(ln, "go-libipni/dagsync.") || strings.Contains(ln, "go-libipni/announce.") {
				fn := ln
				if i := strings.LastIndex(fn, "("); i > 0 {
					fn = fn[:i]
				}
				if strings.HasPrefix(fn, "created by ") {
					continue
				}
				fn = fn[strings.Index(fn, "go-libipni/")+len("go-libipni/"):]
				out = append(out, fn)
				break
			}
		}
	}
	sort.Strings(out)
	return out
}

// WaitNoLibGoroutines polls until no library goroutine is left or the grace period ends.
func WaitNoLibGoroutines(grace time.Duration) []string {
	deadline := NewDeadline(grace)
	for {
		g := LibGoroutines()
		if len(g) == 0 || deadline.Expired() {
			return g
		}
		time.Sleep(2 * time.Millisecond)
	}
}

// HooksBy returns the number of block-hook calls made by goroutine g.
func (w *World) HooksBy(g uint64) int {
	w.mu.Lock()
	defer w.mu.Unlock()
	n := 0
	for _, h := range w.Hooks {
		if h.G == g {
			n++
		}
	}
	return n
}
