// Package schedrv drives a real dagsync.Subscriber one goroutine at a time through the
// verifYield hooks (build tag verif) and records the schedule as a trace of labels of
// the Coq model coq/model/C08_AnnounceQueue.v.
//
// mirror.go is a literal Go port of that model's step function.  It is used for two
// things only: to know which parked goroutine may be released without blocking on a
// mutex / the semaphore (enabledness), and to name the labels of the trace.  Whether
// the port and the real code agree is decided elsewhere: by the Coq acceptor
// (trace_case_ok re-runs the trace in the Coq model and compares every yield point and
// the final observables) and by watchdogs in the scheduler.
package schedrv

import "fmt"

type Variant struct {
	LockFix bool `json:"lockfix"`
	RefFix  bool `json:"reffix"`
}

func (v Variant) Coq() string {
	return fmt.Sprintf("{| lockfix := %v; reffix := %v |}", v.LockFix, v.RefFix)
}

type Kind int

const (
	KWatcher Kind = iota
	KAsync
	KExplicit
	KEntries
)

type PC int

const (
	WNext PC = iota
	WGet
	WSwap
	WSpawn
	WRelease
	GStart
	GAcq
	GTake
	EGet
	PLockS
	PRead
	PCmp
	PHandle
	PReport
	PUnlocking
	PHandled
	PSend
	PUnlockS
	PRelSem
	PUnlockA
	PRelH
	Fin
)

var pcNames = []string{"WNext", "WGet", "WSwap", "WSpawn", "WRelease", "GStart", "GAcq", "GTake", "EGet",
	"PLockS", "PRead", "PCmp", "PHandle", "PReport", "PUnlocking", "PHandled", "PSend",
	"PUnlockS", "PRelSem", "PUnlockA", "PRelH", "Fin"}

func (p PC) String() string { return pcNames[p] }

type Thread struct {
	Kind Kind
	PC   PC
	Pub  int
	H    int
	Msg  int
	Stop int
	Ok   bool
	Todo []int
}

type Event struct {
	Pub  int  `json:"pub"`
	Head int  `json:"head"`
	Err  bool `json:"err"`
}

type HookCall struct {
	T   int `json:"t"`
	Pub int `json:"pub"`
	Ad  int `json:"ad"`
}

// Yield points (Coq: ypoint).  "" = none.
const (
	YWatchSwapped    = "watch:swapped"
	YAsyncStart      = "async:start"
	YAsyncLocked     = "async:locked"
	YAsyncSem        = "async:sem"
	YAsyncTaken      = "async:taken"
	YLatestRead      = "async:latest-read"
	YStopRead        = "sync:stop-read"
	YHandleLocked    = "handle:locked"
	YHook            = "hook"
	YHandleUnlocking = "handle:unlocking"
	YAsyncHandled    = "async:handled"
	YSyncHandled     = "sync:handled"
	YLatestSet       = "event:latest-set"
	YEventSent       = "event:sent"
	YExit            = "exit"
	YWatchNext       = "watch:next" // not a ypoint of the model: it is the Recv label
)

var coqPoint = map[string]string{
	YWatchSwapped: "YWatchSwapped", YAsyncStart: "YAsyncStart", YAsyncLocked: "YAsyncLocked",
	YAsyncSem: "YAsyncSem", YAsyncTaken: "YAsyncTaken", YLatestRead: "YLatestRead",
	YStopRead: "YStopRead", YHandleLocked: "YHandleLocked", YHandleUnlocking: "YHandleUnlocking",
	YAsyncHandled: "YAsyncHandled", YSyncHandled: "YSyncHandled", YLatestSet: "YLatestSet",
	YEventSent: "YEventSent", YExit: "YExit",
}

// Yield is a yield point together with the advertisement for hook calls.
type Yield struct {
	Point string
	Ad    int
}

func (y Yield) Coq() string {
	if y.Point == "" {
		return "None"
	}
	if y.Point == YHook {
		return fmt.Sprintf("(Some (YHook %d))", y.Ad)
	}
	return "(Some " + coqPoint[y.Point] + ")"
}

type Model struct {
	V   Variant
	Cap int

	Hmap      map[int]int
	NextHid   int
	Hpub      map[int]int
	Pending   map[int]int
	Amu       map[int]int
	Smu       map[int]int
	Refs      map[int][]int
	Sem       []int
	Latest    map[int]int
	Lsrc      map[int]bool
	Pubhead   map[int]int
	LastRecv  map[int]int
	LastTaken map[int]int
	Events    []Event    // oldest first
	Hooks     []HookCall // oldest first
	Ehooks    []HookCall // block-hook calls of entries syncs, oldest first
	Closing   bool       // Subscriber.Close has begun (s.closing closed)
	Panicked  bool
	Ordered   bool
	Regress   bool
	Nexp      bool
	Threads   []*Thread // index = tid; the watcher is 0
}

func NewModel(v Variant, cap int) *Model {
	return &Model{V: v, Cap: cap,
		Hmap: map[int]int{}, Hpub: map[int]int{}, Pending: map[int]int{}, Amu: map[int]int{}, Smu: map[int]int{},
		Refs: map[int][]int{}, Latest: map[int]int{}, Lsrc: map[int]bool{}, Pubhead: map[int]int{},
		LastRecv: map[int]int{}, LastTaken: map[int]int{}, Ordered: true,
		Threads: []*Thread{{Kind: KWatcher, PC: WNext}}}
}

func removeTid(t int, l []int) []int {
	var out []int
	for _, x := range l {
		if x != t {
			out = append(out, x)
		}
	}
	return out
}

func desc(a, n int) []int {
	var out []int
	for i := 0; i < n; i++ {
		out = append(out, a)
		if a > 0 {
			a--
		}
	}
	return out
}

func Walk(stop, head int) []int {
	if stop < head {
		return desc(head, head-stop)
	}
	return desc(head, head)
}

func (m *Model) getHandler(t, p int) int {
	h, ok := m.Hmap[p]
	if ok {
		if m.V.RefFix {
			m.Refs[h] = append([]int{t}, m.Refs[h]...)
		}
		return h
	}
	h = m.NextHid
	m.Hmap[p] = h
	m.Hpub[h] = p
	m.NextHid++
	if m.V.RefFix {
		m.Refs[h] = []int{t}
	}
	return h
}

func (m *Model) exitUnlocked(k Kind) PC {
	if k == KAsync {
		return PRelSem
	}
	return PRelH
}

func (m *Model) exitPC(k Kind) PC {
	if m.V.LockFix {
		return PUnlockS
	}
	return m.exitUnlocked(k)
}

// Enabled: the next operation of thread t does not block.
func (m *Model) Enabled(t int) bool {
	if t < 0 || t >= len(m.Threads) {
		return false
	}
	th := m.Threads[t]
	switch th.PC {
	case WNext, Fin:
		return false
	case GStart:
		_, held := m.Amu[th.H]
		return !held
	case GAcq:
		return m.Cap == 0 || len(m.Sem) < m.Cap
	case PLockS:
		_, held := m.Smu[th.H]
		return !held
	}
	return true
}

// Step performs the next operation of thread t (must be enabled).  ok is the outcome of
// the sync (at PHandle) / of creating the sync client (at PCmp).  spawned >= 0 is the tid of a goroutine created by the
// step.
func (m *Model) Step(t int, ok bool) (y Yield, spawned int) {
	spawned = -1
	th := m.Threads[t]
	p, h := th.Pub, th.H
	switch th.PC {
	case WGet:
		th.H = m.getHandler(t, p)
		th.PC = WSwap
	case WSwap:
		_, had := m.Pending[h]
		m.Pending[h] = th.Msg
		m.LastRecv[p] = th.Msg
		if had {
			th.PC = WRelease
		} else {
			th.PC = WSpawn
		}
		y = Yield{Point: YWatchSwapped}
	case WSpawn:
		g := len(m.Threads)
		m.Threads = append(m.Threads, &Thread{Kind: KAsync, PC: GStart, Pub: p, H: h})
		if m.V.RefFix {
			m.Refs[h] = append([]int{g}, removeTid(t, m.Refs[h])...)
		}
		th.PC = WNext
		spawned = g
		y = Yield{Point: YAsyncStart}
	case WRelease:
		if m.V.RefFix {
			m.Refs[h] = removeTid(t, m.Refs[h])
		}
		th.PC = WNext
	case GStart:
		m.Amu[h] = t
		th.PC = GAcq
		y = Yield{Point: YAsyncLocked}
	case GAcq:
		if m.Cap != 0 {
			m.Sem = append([]int{t}, m.Sem...)
		}
		th.PC = GTake
		y = Yield{Point: YAsyncSem}
	case GTake:
		msg, had := m.Pending[h]
		if !had {
			m.Panicked = true
			th.PC = Fin
			y = Yield{Point: YExit}
			break
		}
		delete(m.Pending, h)
		m.LastTaken[p] = msg
		th.Msg = msg
		if m.V.LockFix {
			th.PC = PLockS
		} else {
			th.PC = PRead
		}
		y = Yield{Point: YAsyncTaken}
	case EGet:
		th.H = m.getHandler(t, p)
		if m.V.LockFix || th.Kind == KEntries {
			th.PC = PLockS
		} else {
			th.PC = PRead
		}
	case PLockS:
		m.Smu[h] = t
		if m.V.LockFix && th.Kind != KEntries {
			th.PC = PRead
		} else {
			th.PC = PHandle
			y = Yield{Point: YHandleLocked}
		}
	case PRead:
		th.Stop = m.Latest[p]
		th.PC = PCmp
		if th.Kind == KExplicit {
			y = Yield{Point: YStopRead}
		} else {
			y = Yield{Point: YLatestRead}
		}
	case PCmp:
		head := th.Msg
		if th.Kind == KExplicit {
			head = m.Pubhead[p]
		}
		th.Msg = head
		if head == 0 || th.Stop == head {
			th.PC = m.exitPC(th.Kind)
			break
		}
		if !ok && th.Kind == KAsync {
			// makeSyncer fails: asyncSyncFailed sends the error event, nothing is synced.
			// (Not provoked by this harness: with a nil libp2p host makeSyncer cannot
			// fail without dereferencing the host; the branch is kept for parity with
			// the Coq model.)
			m.Events = append(m.Events, Event{Pub: p, Head: head, Err: true})
			th.PC = m.exitPC(KAsync)
			break
		}
		if head < th.Stop {
			m.Regress = true
		}
		if m.V.LockFix {
			th.PC = PHandle
			y = Yield{Point: YHandleLocked}
		} else {
			th.PC = PLockS
		}
	case PHandle:
		if ok {
			th.Ok = true
			if th.Kind == KEntries {
				th.Todo = desc(th.Msg, th.Msg)
			} else {
				th.Todo = Walk(th.Stop, th.Msg)
			}
			th.PC = PReport
		} else {
			th.Ok = false
			th.PC = PUnlocking
			y = Yield{Point: YHandleUnlocking}
		}
	case PReport:
		if len(th.Todo) > 0 {
			a := th.Todo[0]
			th.Todo = th.Todo[1:]
			if th.Kind == KEntries {
				m.Ehooks = append(m.Ehooks, HookCall{T: t, Pub: p, Ad: a})
			} else {
				m.Hooks = append(m.Hooks, HookCall{T: t, Pub: p, Ad: a})
			}
			y = Yield{Point: YHook, Ad: a}
		} else {
			th.PC = PUnlocking
			y = Yield{Point: YHandleUnlocking}
		}
	case PUnlocking:
		if !m.V.LockFix {
			delete(m.Smu, h)
		}
		if th.Kind == KEntries {
			th.PC = m.exitPC(KEntries)
		} else if th.Kind == KExplicit {
			if th.Ok {
				th.PC = PHandled
				y = Yield{Point: YSyncHandled}
			} else {
				th.PC = m.exitPC(KExplicit)
			}
		} else {
			th.PC = PHandled
			y = Yield{Point: YAsyncHandled}
		}
	case PHandled:
		if th.Ok {
			m.Latest[p] = th.Msg
			m.Lsrc[p] = th.Kind == KExplicit
			th.PC = PSend
			y = Yield{Point: YLatestSet}
		} else {
			m.Events = append(m.Events, Event{Pub: p, Head: th.Msg, Err: true})
			th.PC = m.exitPC(th.Kind)
		}
	case PSend:
		m.Events = append(m.Events, Event{Pub: p, Head: th.Msg, Err: false})
		th.PC = m.exitPC(th.Kind)
		y = Yield{Point: YEventSent}
	case PUnlockS:
		delete(m.Smu, h)
		th.PC = m.exitUnlocked(th.Kind)
	case PRelSem:
		if m.Cap != 0 {
			m.Sem = removeTid(t, m.Sem)
		}
		th.PC = PUnlockA
	case PUnlockA:
		delete(m.Amu, h)
		th.PC = PRelH
	case PRelH:
		if m.V.RefFix {
			m.Refs[h] = removeTid(t, m.Refs[h])
		}
		th.PC = Fin
		y = Yield{Point: YExit}
	default:
		panic(fmt.Sprintf("mirror: step of thread %d at %v", t, th.PC))
	}
	return
}

func (m *Model) Publish(p int) { m.Pubhead[p]++ }

// Recv: the watcher's receiver.Next returned an announcement.
func (m *Model) Recv(p, c int) {
	w := m.Threads[0]
	if w.PC != WNext {
		panic("mirror: Recv while the watcher is not in Next")
	}
	if !(m.LastRecv[p] <= c && c <= m.Pubhead[p]) {
		m.Ordered = false
	}
	*w = Thread{Kind: KWatcher, PC: WGet, Pub: p, Msg: c}
}

func (m *Model) SpawnExplicit(p int) int {
	t := len(m.Threads)
	m.Threads = append(m.Threads, &Thread{Kind: KExplicit, PC: EGet, Pub: p})
	m.Nexp = true
	return t
}

// SpawnEntries: a caller enters SyncEntries for an entries chain of n blocks.
func (m *Model) SpawnEntries(p, n int) int {
	t := len(m.Threads)
	m.Threads = append(m.Threads, &Thread{Kind: KEntries, PC: EGet, Pub: p, Msg: n})
	return t
}

// RemovePredict: what RemoveHandler(p) is expected to return.
func (m *Model) RemovePredict(p int) bool {
	h, ok := m.Hmap[p]
	if !ok {
		return false
	}
	if m.V.RefFix && len(m.Refs[h]) != 0 {
		return false
	}
	return true
}

// Remove applies the observed result of RemoveHandler(p).
func (m *Model) Remove(p int, removed bool) {
	if removed {
		delete(m.Hmap, p)
	}
}

func (m *Model) AllIdle() bool {
	for _, th := range m.Threads {
		if th.PC != WNext && th.PC != Fin {
			return false
		}
	}
	return true
}
