package schedrv

import (
	"context"
	"fmt"
	"sync"
	"time"

	"github.com/ipfs/go-cid"
	cidlink "github.com/ipld/go-ipld-prime/linking/cid"
	"github.com/ipni/go-libipni/dagsync"
	"github.com/libp2p/go-libp2p/core/peer"

	"verif/harness/syncdrv"
	"verif/harness/vlib"
)

// Free-running rounds: the same Subscriber set-up, but goroutines really run concurrently;
// the yield callback only delays them by seeded random amounts and logs where they are.
// There is no model in the loop: only the direct oracles of oracle.go are applied to the
// log.  This is what exercises the Go scheduler, the mutex queues and the runtime's memory
// model, which the one-goroutine-at-a-time scheduler of run.go cannot.

type FreeResult struct {
	Cfg        Config
	Script     []Decision
	Violations []Violation
	Events     int
	Hooks      int
	Overlap2   bool // syncs of two publishers were inside handler.handle at once
	Waited     bool // timed out waiting for quiescence
}

func FreeRun(rng *vlib.Rand, cfg Config, nAnn, nExp, nRm int) *FreeResult {
	runMu.Lock()
	defer runMu.Unlock()
	quietOnce.Do(func() {})
	res := &FreeResult{Cfg: cfg}
	r := &Run{Cfg: cfg, M: NewModel(cfg.V, cfg.Cap), pubOf: map[peer.ID]int{}, AnnOrder: map[int][]int{}}
	ctx, cancel := context.WithCancel(context.Background())
	defer cancel()
	for i := 0; i < cfg.NPub; i++ {
		p := NewPublisher(i, cfg.ChainLen, fmt.Sprintf("c08-f%d", i))
		r.Pubs = append(r.Pubs, p)
		r.pubOf[p.PeerID] = i
	}
	r.DS = syncdrv.NewDS()
	lsys := syncdrv.MkLinkSystem(r.DS)

	var mu sync.Mutex
	var last time.Time
	delays := rng.Fork("delays")
	logAt := func(point string, p peer.ID, c cid.Cid) {
		mu.Lock()
		ev := RawEvent{Goid: goid(), Tid: -1, Point: point, Pub: r.pubOf[p]}
		if point == YHook {
			ev.Ad = r.Pubs[ev.Pub].AdOf(c)
		}
		r.Raw = append(r.Raw, ev)
		last = time.Now()
		d := time.Duration(delays.Intn(250)) * time.Microsecond
		if delays.Intn(8) == 0 {
			d += time.Duration(delays.Intn(2000)) * time.Microsecond
		}
		mu.Unlock()
		time.Sleep(d)
	}
	// exits of announce-triggered goroutines are not observable without the scheduler: the
	// permit oracle is replaced by counting goroutines inside handler.handle
	opts := []dagsync.Option{
		dagsync.RecvAnnounce(""),
		dagsync.BlockHook(func(p peer.ID, c cid.Cid, _ dagsync.SegmentSyncActions) { logAt(YHook, p, c) }),
	}
	if cfg.Cap > 0 {
		opts = append(opts, dagsync.MaxAsyncConcurrency(cfg.Cap))
	}
	dagsync.SetVerifYield(func(point string, p peer.ID) {
		if interesting[point] {
			logAt(point, p, cid.Undef)
		}
	})
	defer dagsync.SetVerifYield(nil)
	sub, err := dagsync.NewSubscriber(nil, lsys, opts...)
	if err != nil {
		panic(err)
	}
	evs, _ := sub.OnSyncFinished()
	var events []dagsync.SyncFinished
	evDone := make(chan struct{})
	go func() {
		defer close(evDone)
		for ev := range evs {
			mu.Lock()
			events = append(events, ev)
			last = time.Now()
			mu.Unlock()
		}
	}()

	// the environment: publish / announce in chain order / explicit syncs / RemoveHandler
	head := make([]int, cfg.NPub)
	lastAnn := make([]int, cfg.NPub)
	var wg sync.WaitGroup
	script := rng.Fork("script")
	for p := 0; p < cfg.NPub; p++ {
		head[p] = 1
		r.Pubs[p].SetHead(1)
		res.Script = append(res.Script, Decision{K: "pub", P: p})
	}
	for step := 0; step < 400 && (nAnn > 0 || nExp > 0 || nRm > 0); step++ {
		p := script.Intn(cfg.NPub)
		switch k := script.Intn(10); {
		case k < 3 && head[p] < cfg.ChainLen:
			head[p]++
			r.Pubs[p].SetHead(head[p])
			res.Script = append(res.Script, Decision{K: "pub", P: p})
		case k < 7 && nAnn > 0 && lastAnn[p] < head[p]:
			nAnn--
			c := head[p]
			lastAnn[p] = c
			res.Script = append(res.Script, Decision{K: "ann", P: p, C: c})
			mu.Lock()
			r.AnnOrder[p] = append(r.AnnOrder[p], c)
			mu.Unlock()
			// Announce blocks while the receiver's one-slot queue is full: announcements of
			// one run are issued in this order by this goroutine, so the watcher receives
			// them in chain order
			_ = sub.Announce(ctx, r.Pubs[p].Ads[c-1], r.Pubs[p].AddrInfo())
		case k < 9 && nExp > 0:
			nExp--
			r.M.Nexp = true
			res.Script = append(res.Script, Decision{K: "exp", P: p})
			wg.Add(1)
			go func(p int) {
				defer wg.Done()
				_, _ = sub.SyncAdChain(ctx, r.Pubs[p].AddrInfo())
			}(p)
		case nRm > 0:
			nRm--
			res.Script = append(res.Script, Decision{K: "rm", P: p})
			sub.RemoveHandler(r.Pubs[p].PeerID)
		}
		time.Sleep(time.Duration(script.Intn(400)) * time.Microsecond)
	}
	wg.Wait()
	// quiescence: nothing logged for a while
	deadline := time.Now().Add(8 * time.Second)
	for {
		mu.Lock()
		idle := time.Since(last)
		mu.Unlock()
		if idle > 60*time.Millisecond {
			break
		}
		if time.Now().After(deadline) {
			res.Waited = true
			break
		}
		time.Sleep(5 * time.Millisecond)
	}
	for _, p := range r.Pubs {
		l := sub.GetLatestSync(p.PeerID)
		n := 0
		if l != nil {
			n = p.AdOf(l.(cidlink.Link).Cid)
		}
		r.ObsLatest = append(r.ObsLatest, n)
	}
	closed := make(chan struct{})
	go func() { _ = sub.Close(); close(closed) }()
	select {
	case <-closed:
	case <-time.After(10 * time.Second):
		res.Violations = append(res.Violations, Violation{Kind: "close-hang", Desc: "Subscriber.Close did not return within 10s"})
	}
	select {
	case <-evDone:
	case <-time.After(2 * time.Second):
	}
	mu.Lock()
	for _, ev := range events {
		p := r.pubOf[ev.PeerID]
		r.ObsEvents = append(r.ObsEvents, Event{Pub: p, Head: r.Pubs[p].AdOf(ev.Cid), Err: ev.Err != nil})
	}
	mu.Unlock()
	for _, p := range r.Pubs {
		p.Close()
	}
	r.ObsQuiescent = !res.Waited
	if res.Waited {
		r.Aborted = true
		res.Violations = append(res.Violations, Violation{Kind: "no-quiescence", Desc: "the subscriber was still active (or stuck) 8s after the last request"})
	}
	// a latest sync that moved backwards = a sync ran for a head older than the latest sync
	// (the listed stale-announcement finding); tells its re-reports from other duplicates
	lastOk := map[int]int{}
	for _, ev := range r.ObsEvents {
		if !ev.Err {
			if ev.Head < lastOk[ev.Pub] {
				r.M.Regress = true
			}
			lastOk[ev.Pub] = ev.Head
		}
	}
	// inside handler.handle at once: per publisher <= 1 (oracle), announce-triggered <= cap
	async := map[uint64]bool{}
	open := map[int]uint64{}
	for _, e := range r.Raw {
		switch e.Point {
		case YAsyncStart:
			async[e.Goid] = true
		case YHandleLocked:
			open[e.Pub] = e.Goid
			n := 0
			for _, g := range open {
				if async[g] {
					n++
				}
			}
			if cfg.Cap > 0 && n > cfg.Cap {
				res.Violations = append(res.Violations, Violation{Kind: "async-over-cap",
					Desc: fmt.Sprintf("%d announce-triggered syncs inside handler.handle at once, MaxAsyncConcurrency is %d", n, cfg.Cap)})
			}
			if len(open) > 1 {
				res.Overlap2 = true
			}
		case YHandleUnlocking:
			if open[e.Pub] == e.Goid {
				delete(open, e.Pub)
			}
		case YHook:
			res.Hooks++
		}
	}
	res.Events = len(r.ObsEvents)
	// the permit oracle of Oracles() needs exit events: drop the sem events for it
	var raw []RawEvent
	for _, e := range r.Raw {
		if e.Point != YAsyncSem {
			raw = append(raw, e)
		}
	}
	r.Raw = raw
	res.Violations = append(res.Violations, r.Oracles()...)
	return res
}
