package schedrv

import (
	"crypto/rand"
	"net/http"
	"net/http/httptest"
	"net/url"
	"strings"
	"sync"
	"time"

	"github.com/ipfs/go-cid"
	"github.com/ipni/go-libipni/dagsync/ipnisync"
	"github.com/ipni/go-libipni/maurl"
	ic "github.com/libp2p/go-libp2p/core/crypto"
	"github.com/libp2p/go-libp2p/core/peer"
	"github.com/multiformats/go-multiaddr"

	"verif/harness/syncdrv"
)

// Publisher: a real ipnisync.Publisher over a chain of real advertisements behind an
// httptest server.  Ads are named by their position 1..n in the chain.  FailNext makes
// the next request for one block answer 500 (a sync that needs the block fails).
type Publisher struct {
	Idx    int
	World  *syncdrv.World
	Ads    []cid.Cid // Ads[i] = advertisement i+1
	Ents   []cid.Cid // entries chain in traversal order; block numbers are len..1
	Pub    *ipnisync.Publisher
	TS     *httptest.Server
	Maddr  multiaddr.Multiaddr
	PeerID peer.ID

	mu       sync.Mutex
	fail     map[cid.Cid]bool
	stall    map[cid.Cid]bool
	Requests int
}

var keyMu sync.Mutex
var keyPool []ic.PrivKey

// keys are not part of any observable of this check (only the peer ID's identity is), so
// they are generated once per process and reused across runs
func poolKey(i int) ic.PrivKey {
	keyMu.Lock()
	defer keyMu.Unlock()
	for len(keyPool) <= i {
		k, _, err := ic.GenerateEd25519Key(rand.Reader)
		if err != nil {
			panic(err)
		}
		keyPool = append(keyPool, k)
	}
	return keyPool[i]
}

func NewPublisher(idx, chainLen int, tag string) *Publisher {
	w := syncdrv.NewWorld(tag)
	chain := w.AdChain(chainLen, cid.Undef) // newest first
	ads := make([]cid.Cid, chainLen)
	for i := range chain {
		ads[chainLen-1-i] = chain[i]
	}
	key := poolKey(idx)
	pub, err := ipnisync.NewPublisher(w.Lsys, key, ipnisync.WithStartServer(false))
	if err != nil {
		panic(err)
	}
	pid, err := peer.IDFromPrivateKey(key)
	if err != nil {
		panic(err)
	}
	p := &Publisher{Idx: idx, World: w, Ads: ads, Pub: pub, PeerID: pid, fail: map[cid.Cid]bool{}, stall: map[cid.Cid]bool{}}
	p.Ents = w.ChunkChain(EntriesLen)
	p.TS = httptest.NewServer(p)
	u, err := url.Parse(p.TS.URL)
	if err != nil {
		panic(err)
	}
	p.Maddr, err = maurl.FromURL(u)
	if err != nil {
		panic(err)
	}
	return p
}

func (p *Publisher) Close() {
	p.TS.Close()
	p.Pub.Close()
}

func (p *Publisher) AddrInfo() peer.AddrInfo {
	return peer.AddrInfo{ID: p.PeerID, Addrs: []multiaddr.Multiaddr{p.Maddr}}
}

// AdOf returns the chain position of c (0 when it is not an ad of this publisher).
func (p *Publisher) AdOf(c cid.Cid) int {
	for i, a := range p.Ads {
		if a == c {
			return i + 1
		}
	}
	return 0
}

func (p *Publisher) SetHead(n int) { p.Pub.SetRoot(p.Ads[n-1]) }

func (p *Publisher) FailNext(c cid.Cid, on bool) {
	p.mu.Lock()
	if on {
		p.fail[c] = true
	} else {
		delete(p.fail, c)
	}
	p.mu.Unlock()
}

// EntriesLen: blocks of every publisher's entries chain.
const EntriesLen = 3

// EntOf returns the number (len..1 in traversal order) of an entries block, 0 if none.
func (p *Publisher) EntOf(c cid.Cid) int {
	for i, e := range p.Ents {
		if e == c {
			return len(p.Ents) - i
		}
	}
	return 0
}

// StallNext makes the next request for block c hang until the client gives up.
func (p *Publisher) StallNext(c cid.Cid, on bool) {
	p.mu.Lock()
	if on {
		p.stall[c] = true
	} else {
		delete(p.stall, c)
	}
	p.mu.Unlock()
}

const ipniPrefix = "/ipni/v1/ad/"

func (p *Publisher) ServeHTTP(w http.ResponseWriter, r *http.Request) {
	path := r.URL.Path
	if strings.HasPrefix(path, "/.well-known/") {
		// not a libp2phttp server: the client falls back to plain HTTP
		http.NotFound(w, r)
		return
	}
	p.mu.Lock()
	p.Requests++
	failed, stalled := false, false
	if strings.HasPrefix(path, ipniPrefix) && path != ipniPrefix+"head" {
		if c, err := cid.Decode(strings.TrimPrefix(path, ipniPrefix)); err == nil {
			if p.fail[c] {
				delete(p.fail, c)
				failed = true
			} else if p.stall[c] {
				delete(p.stall, c)
				stalled = true
			}
		}
	}
	p.mu.Unlock()
	if stalled {
		// accept the request and never answer: the client's timeout ends it
		select {
		case <-r.Context().Done():
		case <-time.After(20 * time.Second):
		}
		return
	}
	if failed {
		http.Error(w, "injected failure", http.StatusInternalServerError)
		return
	}
	p.Pub.ServeHTTP(w, r)
}
