package schedrv

import (
	"bytes"
	"context"
	"fmt"
	"runtime"
	"strconv"
	"strings"
	"sync"
	"sync/atomic"
	"time"

	"github.com/ipfs/go-cid"
	"github.com/ipfs/go-datastore"
	logging "github.com/ipfs/go-log/v2"
	cidlink "github.com/ipld/go-ipld-prime/linking/cid"
	"github.com/ipni/go-libipni/announce"
	"github.com/ipni/go-libipni/dagsync"
	"github.com/libp2p/go-libp2p/core/peer"

	"verif/harness/syncdrv"
)

// Config of one run.
type Config struct {
	NPub       int     `json:"npub"`
	Cap        int     `json:"cap"`      // MaxAsyncConcurrency; 0 = unlimited
	ChainLen   int     `json:"chainlen"` // advertisements available per publisher
	IdleTTL    int     `json:"idle_ttl_ms,omitempty"`
	CapFirst   bool    `json:"cap_first,omitempty"`       // MaxAsyncConcurrency is passed BEFORE RecvAnnounce in the option list
	FirstDepth int     `json:"first_depth,omitempty"`     // dagsync.FirstSyncDepth (0 = none); schedules keep every publisher's first sync within it
	HTTPms     int     `json:"http_timeout_ms,omitempty"` // dagsync.HttpTimeout (default 10 s); stalls need a short one
	Filter     bool    `json:"filter,omitempty"`          // the receiver has an allow-peer filter (deny/allow/rej/relay decisions)
	V          Variant `json:"variant"`                   // which source variant the mirror follows (detected by Probe)
}

// Decision: one choice of the scheduler.
//
//	pub p        the publisher appends an advertisement (and serves it as head)
//	ann p c      Announce(head c of publisher p) is handed to the receiver
//	exp p        a goroutine enters SyncAdChain(p)
//	rm  p        RemoveHandler(p)
//	ent p        a goroutine enters SyncEntries(p's entries chain) with its own ScopedBlockHook
//	go  t [fail] thread t (model tid) runs to its next yield point; fail: the sync it is
//	             about to run fails (the publisher answers 500 for the head block; with
//	             stall: it accepts the request and never answers, the HTTP timeout ends it)
//	deny p / allow p   the allow-peer policy is changed for publisher p (Config.Filter)
//	rej p c      Announce(head c of p) while the policy rejects p: must be a no-op
//	relay p c    a peer that is not allowed announces head c of p: must be a no-op
//	close        Subscriber.Close() is called in a goroutine; it is let run until it waits for
//	             the explicit syncs (or, when there is none, until just before it closes the
//	             receiver) and held there until the end of the schedule: nothing that waits
//	             for the semaphore or a mutex may wake up because of it
//	try t        thread t, whose next operation the model says blocks, is let go anyway: it
//	             must be seen blocked on the mutex / semaphore (no model step)
//	sleep ms     real time passes (idle-cleaner scenario); then RemoveHandler(p) is used
//	             to learn whether the cleaner removed the handler
type Decision struct {
	K     string `json:"k"`
	P     int    `json:"p,omitempty"`
	C     int    `json:"c,omitempty"`
	T     int    `json:"t,omitempty"`
	Fail  bool   `json:"fail,omitempty"`
	Stall bool   `json:"stall,omitempty"`
	Ms    int    `json:"ms,omitempty"`
}

func (d Decision) String() string {
	switch d.K {
	case "pub", "exp", "rm", "ent":
		return fmt.Sprintf("%s%d", d.K, d.P)
	case "ann":
		return fmt.Sprintf("ann%d.%d", d.P, d.C)
	case "go":
		if d.Fail && d.Stall {
			return fmt.Sprintf("go%d!stall", d.T)
		}
		if d.Fail {
			return fmt.Sprintf("go%d!", d.T)
		}
		return fmt.Sprintf("go%d", d.T)
	case "try":
		return fmt.Sprintf("try%d", d.T)
	case "close":
		return "close"
	case "deny", "allow":
		return fmt.Sprintf("%s%d", d.K, d.P)
	case "rej", "relay":
		return fmt.Sprintf("%s%d.%d", d.K, d.P, d.C)
	case "sleep":
		return fmt.Sprintf("sleep%d.%d", d.P, d.Ms)
	}
	return d.K
}

type RawEvent struct {
	Goid  uint64 `json:"g"`
	Tid   int    `json:"t"`
	Point string `json:"pt"`
	Pub   int    `json:"p"`
	Ad    int    `json:"ad,omitempty"`
	Ent   bool   `json:"ent,omitempty"` // hook call for a block of the entries chain (Ad = its number)
	Via   int    `json:"via,omitempty"` // hook calls: 0 = the Subscriber's general hook, t+1 = the scoped hook of entries sync t
}

type Failure struct {
	Kind string `json:"kind"` // stable, short
	Desc string `json:"desc"`
}

type arrival struct {
	goid    uint64
	point   string
	peer    peer.ID
	c       cid.Cid
	via     int
	release chan struct{}
}

var interesting = map[string]bool{
	YWatchNext: true, YWatchSwapped: true, YAsyncStart: true, YAsyncLocked: true, YAsyncSem: true,
	YAsyncTaken: true, YLatestRead: true, YStopRead: true, YHandleLocked: true, YHandleUnlocking: true,
	YAsyncHandled: true, YSyncHandled: true, YLatestSet: true, YEventSent: true,
}

// the yield points of doClose up to the wait for the explicit syncs
var closePoints = map[string]bool{"close:closing-closed": true, "close:exp-blocked": true, "close:exp-waited": true}

var Watchdog = 4 * time.Second

var runMu sync.Mutex // SetVerifYield is process-global: one run at a time
var quietOnce sync.Once

type Run struct {
	Cfg  Config
	M    *Model
	Pubs []*Publisher
	Sub  *dagsync.Subscriber
	DS   datastore.Batching

	pubOf map[peer.ID]int
	deny  []atomic.Bool // allow-peer policy per publisher (Config.Filter)

	arrivals chan *arrival
	early    []*arrival  // arrivals of woken-up threads seen while waiting for another one
	closerG  uint64      // goroutine running Subscriber.Close (0: none)
	closerAt *arrival    // where it is parked
	closerOn atomic.Bool // the close:* yield points park (only while a close decision is in force)
	earlyW   *arrival    // the watcher back at watch:next with the queued announcement, seen early
	free     atomic.Bool // yields pass through (teardown)

	parked      map[int]*arrival
	goOf        map[int]uint64
	tidOf       map[uint64]int
	blocked     map[int]bool
	expDone     map[int]chan struct{}
	annOut      *Decision // announcement handed to the receiver, not yet returned by Next
	failNext    bool      // outcome wanted for the sync the current decision starts
	stallNext   bool      // ... by a stalled request rather than a 500
	FailedAsync []Event   // announce-triggered syncs the harness made fail: each needs an error event

	ctx    context.Context
	cancel context.CancelFunc

	Trace     []string // Coq terms (label, yield)
	Raw       []RawEvent
	Decisions []Decision
	Failures  []Failure
	Aborted   bool
	closed    bool

	evMu   sync.Mutex
	events []dagsync.SyncFinished
	evDone chan struct{}

	// observables collected by Finish
	ObsLatest    []int
	ObsEvents    []Event
	ObsQuiescent bool
	AnnOrder     map[int][]int // announcements in the order the watcher received them
	Removed      []int         // publishers whose handler was removed (RemoveHandler true / cleaner)
	EverBlocked  int           // how often a goroutine had to wait for a mutex / the semaphore
	MaxOpen      int           // most publishers inside handler.handle at once
}

func goid() uint64 {
	var buf [64]byte
	n := runtime.Stack(buf[:], false)
	// "goroutine 123 [running]:"
	s := strings.TrimPrefix(string(buf[:n]), "goroutine ")
	i := strings.IndexByte(s, ' ')
	if i < 0 {
		return 0
	}
	id, _ := strconv.ParseUint(s[:i], 10, 64)
	return id
}

var strangerOnce sync.Once
var stranger peer.ID

// a peer that is none of the publishers (never allowed by the filter)
func strangerID() peer.ID {
	strangerOnce.Do(func() {
		id, err := peer.IDFromPrivateKey(poolKey(100))
		if err != nil {
			panic(err)
		}
		stranger = id
	})
	return stranger
}

func goroutineGone(id uint64) bool {
	size := 1 << 18
	for {
		buf := make([]byte, size)
		n := runtime.Stack(buf, true)
		if n < size {
			return !bytes.Contains(buf[:n], []byte(fmt.Sprintf("goroutine %d [", id)))
		}
		size *= 4
	}
}

// goroutineState returns what the runtime prints between the brackets of the goroutine's
// header line ("select", "chan receive", "running", ...); "" when the goroutine is gone.
func goroutineState(id uint64) string {
	size := 1 << 18
	for {
		buf := make([]byte, size)
		n := runtime.Stack(buf, true)
		if n < size {
			hdr := []byte(fmt.Sprintf("goroutine %d [", id))
			i := bytes.Index(buf[:n], hdr)
			if i < 0 {
				return ""
			}
			rest := buf[i+len(hdr) : n]
			j := bytes.IndexByte(rest, ']')
			if j < 0 {
				return "?"
			}
			return string(rest[:j])
		}
		size *= 4
	}
}

// NewRun creates publishers, a real Subscriber with an announce receiver (nil libp2p
// host: announcements arrive through Subscriber.Announce) and installs the scheduler as
// the yield callback and as the block hook.
func NewRun(cfg Config) *Run {
	runMu.Lock()
	quietOnce.Do(func() { _ = logging.SetLogLevel("*", "fatal") })
	r := &Run{Cfg: cfg, M: NewModel(cfg.V, cfg.Cap),
		pubOf: map[peer.ID]int{}, arrivals: make(chan *arrival, 4096),
		parked: map[int]*arrival{}, goOf: map[int]uint64{}, tidOf: map[uint64]int{},
		blocked: map[int]bool{}, expDone: map[int]chan struct{}{},
		AnnOrder: map[int][]int{}}
	r.ctx, r.cancel = context.WithCancel(context.Background())
	for i := 0; i < cfg.NPub; i++ {
		p := NewPublisher(i, cfg.ChainLen, fmt.Sprintf("c08-p%d", i))
		r.Pubs = append(r.Pubs, p)
		r.pubOf[p.PeerID] = i
	}
	r.DS = syncdrv.NewDS()
	lsys := syncdrv.MkLinkSystem(r.DS)
	r.deny = make([]atomic.Bool, cfg.NPub)
	rcv := dagsync.RecvAnnounce("")
	if cfg.Filter {
		// publishers are allowed unless denied at the moment; any other peer is rejected
		rcv = dagsync.RecvAnnounce("", announce.WithAllowPeer(func(id peer.ID) bool {
			i, ok := r.pubOf[id]
			return ok && !r.deny[i].Load()
		}))
	}
	// options are applied in the order given: the limit must hold wherever it stands
	var opts []dagsync.Option
	if cfg.Cap > 0 && cfg.CapFirst {
		opts = append(opts, dagsync.MaxAsyncConcurrency(cfg.Cap))
	}
	opts = append(opts, rcv,
		dagsync.BlockHook(func(p peer.ID, c cid.Cid, _ dagsync.SegmentSyncActions) { r.yieldVia(YHook, p, c, 0) }),
		dagsync.HttpTimeout(httpTimeout(cfg)))
	if cfg.Cap > 0 && !cfg.CapFirst {
		opts = append(opts, dagsync.MaxAsyncConcurrency(cfg.Cap))
	}
	if cfg.FirstDepth > 0 {
		opts = append(opts, dagsync.FirstSyncDepth(int64(cfg.FirstDepth)))
	}
	if cfg.IdleTTL > 0 {
		opts = append(opts, dagsync.IdleHandlerTTL(time.Duration(cfg.IdleTTL)*time.Millisecond))
	}
	dagsync.SetVerifYield(func(point string, p peer.ID) {
		if interesting[point] || (r.closerOn.Load() && closePoints[point]) {
			r.yieldAt(point, p, cid.Undef)
		}
	})
	sub, err := dagsync.NewSubscriber(nil, lsys, opts...)
	if err != nil {
		panic(err)
	}
	r.Sub = sub
	evs, _ := sub.OnSyncFinished()
	r.evDone = make(chan struct{})
	go func() {
		defer close(r.evDone)
		for ev := range evs {
			r.evMu.Lock()
			r.events = append(r.events, ev)
			r.evMu.Unlock()
		}
	}()
	return r
}

func httpTimeout(cfg Config) time.Duration {
	if cfg.HTTPms > 0 {
		return time.Duration(cfg.HTTPms) * time.Millisecond
	}
	return 10 * time.Second
}

func (r *Run) yieldAt(point string, p peer.ID, c cid.Cid) { r.yieldVia(point, p, c, 0) }

func (r *Run) yieldVia(point string, p peer.ID, c cid.Cid, via int) {
	if r.free.Load() {
		return
	}
	a := &arrival{goid: goid(), point: point, peer: p, c: c, via: via, release: make(chan struct{})}
	r.arrivals <- a
	<-a.release
}

func (r *Run) fail(kind, format string, args ...interface{}) {
	r.Failures = append(r.Failures, Failure{Kind: kind, Desc: fmt.Sprintf(format, args...)})
}

func (r *Run) abort(kind, format string, args ...interface{}) {
	r.fail(kind, format, args...)
	r.Aborted = true
}

func (r *Run) emit(label string, y Yield) {
	r.Trace = append(r.Trace, "("+label+", "+y.Coq()+")")
}

// next arrival; arrivals of threads that were blocked on a lock and woke up meanwhile
// are set aside for drainWakeups unless accept says otherwise
func (r *Run) waitFor(what string, accept func(a *arrival) bool) *arrival {
	deadline := time.After(Watchdog)
	for {
		select {
		case a := <-r.arrivals:
			if accept(a) {
				return a
			}
			if t, ok := r.tidOf[a.goid]; ok && r.blocked[t] {
				r.early = append(r.early, a)
				continue
			}
			if a.point == YWatchNext && r.annOut != nil && r.earlyW == nil {
				r.earlyW = a
				continue
			}
			if r.closerG != 0 && a.goid == r.closerG {
				r.closerArrived(a)
				continue
			}
			r.raw(a, -1)
			r.abort("unexpected-arrival", "while waiting for %s: goroutine %d arrived at %s (publisher %d)", what, a.goid, a.point, r.pubOf[a.peer])
			r.release(a)
			return nil
		case <-deadline:
			r.abort("watchdog", "%s did not happen within %v", what, Watchdog)
			return nil
		}
	}
}

func (r *Run) release(a *arrival) { close(a.release) }

func (r *Run) raw(a *arrival, tid int) {
	ev := RawEvent{Goid: a.goid, Tid: tid, Point: a.point, Pub: r.pubOf[a.peer]}
	if a.point == YHook {
		ev.Ad = r.Pubs[ev.Pub].AdOf(a.c)
		ev.Via = a.via
		if e := r.Pubs[ev.Pub].EntOf(a.c); e != 0 {
			ev.Ad, ev.Ent = e, true
		}
	}
	r.Raw = append(r.Raw, ev)
}

// the watcher went back to receiver.Next: if an announcement is waiting, Next returns it
func (r *Run) watcherIdle() {
	if r.Aborted {
		return
	}
	if r.annOut == nil {
		// nothing queued: the watcher blocks in receiver.Next (a select).  What it did on
		// the way there (releaseHandler on the replaced-announcement path) has no yield
		// point after it, so wait until the goroutine is seen blocked.
		g, ok := r.goOf[0]
		if !ok {
			return
		}
		deadline := time.Now().Add(Watchdog)
		for {
			st := goroutineState(g)
			if strings.HasPrefix(st, "select") || strings.HasPrefix(st, "chan receive") {
				return
			}
			if time.Now().After(deadline) {
				r.abort("watchdog", "the watcher did not get back to receiver.Next (goroutine state %q)", st)
				return
			}
			time.Sleep(20 * time.Microsecond)
		}
	}
	d := *r.annOut
	a := r.earlyW
	r.earlyW = nil
	if a == nil {
		nf := len(r.Failures)
		a = r.waitFor(fmt.Sprintf("the watcher receiving announcement %v", d), func(a *arrival) bool { return a.point == YWatchNext })
		if a == nil && len(r.Failures) > nf && r.Failures[len(r.Failures)-1].Kind == "watchdog" {
			r.Failures[len(r.Failures)-1] = Failure{Kind: "announcement-dropped",
				Desc: fmt.Sprintf("Announce(head %d of publisher %d) returned nil, the publisher is allowed and the head was never delivered before, but receiver.Next never returned it: no sync, no event", d.C, d.P)}
		}
	}
	if a == nil {
		return
	}
	r.annOut = nil
	r.goOf[0], r.tidOf[a.goid] = a.goid, 0
	r.raw(a, 0)
	if r.pubOf[a.peer] != d.P {
		r.abort("yield-mismatch", "watch:next for publisher %d, announced %d", r.pubOf[a.peer], d.P)
		return
	}
	r.M.Recv(d.P, d.C)
	r.AnnOrder[d.P] = append(r.AnnOrder[d.P], d.C)
	r.emit(fmt.Sprintf("Recv %d %d", d.P, d.C), Yield{})
	r.parked[0] = a
}

func (r *Run) waitExit(t int) {
	if ch, ok := r.expDone[t]; ok {
		select {
		case <-ch:
		case <-time.After(Watchdog):
			r.abort("watchdog", "SyncAdChain of thread %d did not return", t)
		}
		return
	}
	g := r.goOf[t]
	deadline := time.Now().Add(Watchdog)
	for !goroutineGone(g) {
		if time.Now().After(deadline) {
			r.abort("watchdog", "goroutine of thread %d did not end", t)
			return
		}
		time.Sleep(20 * time.Microsecond)
	}
	r.Raw = append(r.Raw, RawEvent{Goid: g, Tid: t, Point: YExit, Pub: r.M.Threads[t].Pub})
}

// the goroutine of thread t was let go and the model says its next operation blocks: what
// it does on the way there (e.g. GetHead) must be over before the next decision, so wait
// until the runtime shows it blocked on the mutex / the semaphore channel
func (r *Run) waitBlocked(t int) {
	g, ok := r.goOf[t]
	if !ok {
		return
	}
	deadline := time.Now().Add(Watchdog)
	for {
		st := goroutineState(g)
		onMutex := strings.HasPrefix(st, "sync.Mutex.Lock") || strings.HasPrefix(st, "semacquire")
		onSem := strings.HasPrefix(st, "select") || strings.HasPrefix(st, "chan send")
		if (r.M.Threads[t].PC == GAcq && onSem) || (r.M.Threads[t].PC != GAcq && onMutex) {
			return
		}
		// it did not block: it will show up at a yield point and be reported there
		select {
		case a := <-r.arrivals:
			if r.closerG != 0 && a.goid == r.closerG {
				r.closerArrived(a)
				break
			}
			r.early = append(r.early, a)
			if a.goid == g {
				r.raw(a, t)
				r.abort("mutual-exclusion", "thread %d passed %v although the model says it is held / full: arrived at %s", t, r.M.Threads[t].PC, a.point)
				return
			}
		default:
		}
		if st == "" || time.Now().After(deadline) {
			r.abort("watchdog", "thread %d should be blocked (pc %v) but its goroutine is in state %q", t, r.M.Threads[t].PC, st)
			return
		}
		time.Sleep(20 * time.Microsecond)
	}
}

// advance runs thread t through model steps until it is seen at its next yield point,
// blocks, or ends.  release lets the real goroutine go (close of its parking channel, or
// start of a SyncAdChain caller); pre is the arrival that announced a woken-up thread.
func (r *Run) advance(t int, pre *arrival, release func()) {
	for !r.Aborted {
		th := r.M.Threads[t]
		var y Yield
		spawned := -1
		idle, blocked := false, false
		failCid := cid.Undef
		for {
			if !r.M.Enabled(t) {
				if th.PC == WNext {
					idle = true
				} else {
					blocked = true
				}
				break
			}
			ok := true
			if th.PC == PHandle && r.failNext && th.Kind != KEntries {
				c := r.Pubs[th.Pub].Ads[th.Msg-1]
				if has, _ := r.DS.Has(context.Background(), syncdrv.DSKey(c)); !has {
					ok = false
					failCid = c
				}
			}
			y, spawned = r.M.Step(t, ok)
			r.emit(fmt.Sprintf("Step %d %v", t, ok), y)
			if y.Point != "" {
				break
			}
		}
		if failCid != cid.Undef {
			if r.stallNext {
				r.Pubs[th.Pub].StallNext(failCid, true)
				defer r.Pubs[th.Pub].StallNext(failCid, false)
			} else {
				r.Pubs[th.Pub].FailNext(failCid, true)
				defer r.Pubs[th.Pub].FailNext(failCid, false)
			}
			if th.Kind == KAsync {
				r.FailedAsync = append(r.FailedAsync, Event{Pub: th.Pub, Head: th.Msg, Err: true})
			}
		}
		if release != nil {
			release()
			release = nil
		}
		switch {
		case idle:
			r.watcherIdle()
			return
		case blocked:
			if pre != nil {
				r.raw(pre, t)
				r.parked[t] = pre
				r.abort("mutual-exclusion", "thread %d arrived at %s although the model says the lock it needs is held (pc %v)", t, pre.point, th.PC)
				return
			}
			r.blocked[t] = true
			r.EverBlocked++
			r.waitBlocked(t)
			return
		case y.Point == YAsyncStart:
			a := r.waitFor(fmt.Sprintf("the goroutine spawned for publisher %d reaching async:start", th.Pub),
				func(a *arrival) bool { _, known := r.tidOf[a.goid]; return a.point == YAsyncStart && !known })
			if a == nil {
				return
			}
			r.goOf[spawned], r.tidOf[a.goid] = a.goid, spawned
			r.raw(a, spawned)
			r.parked[spawned] = a
			if r.pubOf[a.peer] != th.Pub {
				r.abort("yield-mismatch", "spawned goroutine is for publisher %d, expected %d", r.pubOf[a.peer], th.Pub)
				return
			}
			continue
		case y.Point == YExit:
			r.waitExit(t)
			return
		}
		a := pre
		pre = nil
		if a == nil {
			g := r.goOf[t]
			a = r.waitFor(fmt.Sprintf("thread %d (pc %v) reaching %s", t, th.PC, y.Point), func(a *arrival) bool { return a.goid == g })
			if a == nil {
				return
			}
		}
		r.raw(a, t)
		r.parked[t] = a
		ad := 0
		if a.point == YHook {
			ad = r.Pubs[r.pubOf[a.peer]].AdOf(a.c)
			if th.Kind == KEntries {
				ad = r.Pubs[r.pubOf[a.peer]].EntOf(a.c)
			}
		}
		if y.Point == YHook && a.point == YHandleUnlocking && r.pubOf[a.peer] == th.Pub && th.Kind != KEntries {
			// the sync ended although advertisements between its stop and its head are still
			// unreported: "every advertisement in between was reported exactly once" fails
			r.abort("ads-not-reported", "publisher %d: the sync of head %d with latest sync %d ended after its block hook had seen only the advertisements above %d: %d..%d were never reported (the head is then recorded as latest sync, so they never will be)",
				th.Pub, th.Msg, th.Stop, y.Ad, th.Stop+1, y.Ad)
		} else if a.point != y.Point || ad != y.Ad || r.pubOf[a.peer] != th.Pub {
			r.abort("yield-mismatch", "thread %d: the model expects %s/%d for publisher %d, the code is at %s/%d for publisher %d",
				t, y.Point, y.Ad, th.Pub, a.point, ad, r.pubOf[a.peer])
		}
		return
	}
}

func (r *Run) closerArrived(a *arrival) {
	r.Raw = append(r.Raw, RawEvent{Goid: a.goid, Tid: -1, Point: a.point})
	r.closerAt = a
	if a.point != "close:exp-waited" {
		r.abort("yield-mismatch", "Subscriber.Close is at %s, expected close:exp-waited", a.point)
		return
	}
	for t, th := range r.M.Threads {
		if (th.Kind == KExplicit || th.Kind == KEntries) && th.PC != Fin {
			r.abort("close-did-not-wait", "Subscriber.Close passed the wait for explicit syncs while thread %d (pc %v) is still in its sync", t, th.PC)
			return
		}
	}
}

// settle gives goroutines that should NOT move a moment to show that they do: arrivals
// of threads blocked on a lock are kept for drainWakeups (which reports them when the model
// says the lock is still held)
func (r *Run) settle(d time.Duration) {
	deadline := time.After(d)
	for {
		select {
		case a := <-r.arrivals:
			if r.closerG != 0 && a.goid == r.closerG {
				r.closerArrived(a)
				continue
			}
			if t, ok := r.tidOf[a.goid]; ok && r.blocked[t] {
				r.early = append(r.early, a)
				continue
			}
			r.raw(a, -1)
			r.abort("unexpected-arrival", "goroutine %d arrived at %s (publisher %d) although nothing let it go", a.goid, a.point, r.pubOf[a.peer])
			r.release(a)
			return
		case <-deadline:
			return
		}
	}
}

// threads that were blocked on a mutex / the semaphore and can now proceed arrive by
// themselves: wait for them, one at a time, and replay their steps
func (r *Run) drainWakeups() {
	for !r.Aborted {
		any := false
		for t := range r.blocked {
			if r.M.Enabled(t) {
				any = true
			}
		}
		if !any {
			if len(r.early) > 0 {
				a := r.early[0]
				r.raw(a, r.tidOf[a.goid])
				r.abort("mutual-exclusion", "goroutine %d passed a lock the model says is held: arrived at %s", a.goid, a.point)
			}
			return
		}
		var a *arrival
		if len(r.early) > 0 {
			a, r.early = r.early[0], r.early[1:]
		} else {
			a = r.waitFor("a goroutine blocked on a free lock to proceed", func(a *arrival) bool {
				t, ok := r.tidOf[a.goid]
				return ok && r.blocked[t]
			})
			if a == nil {
				return
			}
		}
		t := r.tidOf[a.goid]
		delete(r.blocked, t)
		r.advance(t, a, nil)
	}
}

// Enabled decisions ---------------------------------------------------------

// Runnable: parked threads whose next operation does not block.
func (r *Run) Runnable() []int {
	var out []int
	for t := range r.M.Threads {
		if r.parked[t] != nil && r.M.Enabled(t) {
			out = append(out, t)
		}
	}
	return out
}

// Waiting: parked threads whose next operation blocks (candidates for "try").
func (r *Run) Waiting() []int {
	var out []int
	for t := range r.M.Threads {
		if r.parked[t] != nil && !r.M.Enabled(t) && r.M.Threads[t].PC != WNext {
			out = append(out, t)
		}
	}
	return out
}

func (r *Run) CanAnnounce() bool { return r.annOut == nil }

// Do performs one decision.
func (r *Run) Do(d Decision) {
	if r.Aborted {
		return
	}
	r.Decisions = append(r.Decisions, d)
	switch d.K {
	case "pub":
		if r.M.Pubhead[d.P] >= r.Cfg.ChainLen {
			r.abort("script", "publish beyond the chain length")
			return
		}
		r.M.Publish(d.P)
		r.Pubs[d.P].SetHead(r.M.Pubhead[d.P])
		r.emit(fmt.Sprintf("Publish %d", d.P), Yield{})
	case "deny":
		r.deny[d.P].Store(true)
	case "allow":
		r.deny[d.P].Store(false)
	case "rej", "relay":
		// an announcement the allow filter rejects: Announce returns nil, nothing reaches
		// the watcher, nothing is remembered
		if !r.Cfg.Filter || (d.K == "rej" && !r.deny[d.P].Load()) {
			r.abort("script", "%s needs the allow filter (and a denied publisher)", d.K)
			return
		}
		pub := r.Pubs[d.P]
		ai := pub.AddrInfo()
		if d.K == "relay" {
			ai.ID = strangerID()
		}
		done := make(chan error, 1)
		go func() { done <- r.Sub.Announce(r.ctx, pub.Ads[d.C-1], ai) }()
		select {
		case err := <-done:
			if err != nil {
				r.abort("announce", "Announce (rejected by the filter) returned %v", err)
				return
			}
		case <-time.After(Watchdog):
			r.abort("watchdog", "Announce (rejected by the filter) did not return")
			return
		}
		r.emit(fmt.Sprintf("AnnRejected %d %d", d.P, d.C), Yield{})
		// had it been let through, it is in the receiver's queue now and an idle watcher
		// shows up at watch:next at once
		if r.M.Threads[0].PC == WNext && r.parked[0] == nil && r.annOut == nil {
			select {
			case a := <-r.arrivals:
				if r.closerG != 0 && a.goid == r.closerG {
					r.closerArrived(a)
					break
				}
				r.raw(a, -1)
				r.parked[0] = a
				r.abort("rejected-announcement-delivered", "an announcement of head %d of publisher %d that the allow filter rejects reached the watcher (%s)", d.C, d.P, a.point)
			case <-time.After(3 * time.Millisecond):
			}
		}
	case "ann":
		if r.annOut != nil {
			r.abort("script", "announce while another announcement is in the receiver")
			return
		}
		if r.Cfg.Filter && r.deny[d.P].Load() {
			r.abort("script", "ann for a denied publisher (use rej)")
			return
		}
		dd := d
		r.annOut = &dd
		done := make(chan error, 1)
		pub := r.Pubs[d.P]
		go func() { done <- r.Sub.Announce(r.ctx, pub.Ads[d.C-1], pub.AddrInfo()) }()
		select {
		case err := <-done:
			if err != nil {
				r.abort("announce", "Announce returned %v", err)
				return
			}
		case <-time.After(Watchdog):
			r.abort("watchdog", "Announce did not return")
			return
		}
		if r.M.Threads[0].PC == WNext && r.parked[0] == nil {
			r.watcherIdle()
		}
	case "exp":
		t := r.M.SpawnExplicit(d.P)
		r.emit(fmt.Sprintf("Spawn %d", d.P), Yield{})
		done := make(chan struct{})
		r.expDone[t] = done
		pub := r.Pubs[d.P]
		r.advance(t, nil, func() {
			ready := make(chan uint64)
			go func() {
				ready <- goid()
				_, _ = r.Sub.SyncAdChain(r.ctx, pub.AddrInfo())
				close(done)
			}()
			g := <-ready
			r.goOf[t], r.tidOf[g] = g, t
		})
	case "ent":
		pub := r.Pubs[d.P]
		t := r.M.SpawnEntries(d.P, len(pub.Ents))
		r.emit(fmt.Sprintf("SpawnE %d %d", d.P, len(pub.Ents)), Yield{})
		done := make(chan struct{})
		r.expDone[t] = done
		scoped := func(p peer.ID, c cid.Cid, _ dagsync.SegmentSyncActions) { r.yieldVia(YHook, p, c, t+1) }
		r.advance(t, nil, func() {
			ready := make(chan uint64)
			go func() {
				ready <- goid()
				_ = r.Sub.SyncEntries(r.ctx, pub.AddrInfo(), pub.Ents[0], dagsync.ScopedBlockHook(scoped))
				close(done)
			}()
			g := <-ready
			r.goOf[t], r.tidOf[g] = g, t
		})
	case "rm":
		got := r.Sub.RemoveHandler(r.Pubs[d.P].PeerID)
		want := r.M.RemovePredict(d.P)
		r.emit(fmt.Sprintf("Remove %d %v", d.P, got), Yield{})
		r.M.Remove(d.P, got)
		if got {
			r.Removed = append(r.Removed, d.P)
		}
		if got != want {
			r.fail("remove-mismatch", "RemoveHandler(publisher %d) returned %v, the model expects %v", d.P, got, want)
		}
	case "sleep":
		// the idle cleaner may run: afterwards RemoveHandler tells whether the handler is
		// still in the map (true: it was, and now it is removed by us)
		time.Sleep(time.Duration(d.Ms) * time.Millisecond)
		_, had := r.M.Hmap[d.P]
		want := r.M.RemovePredict(d.P) // would the cleaner have removed it?
		got := r.Sub.RemoveHandler(r.Pubs[d.P].PeerID)
		switch {
		case !had:
		case want:
			// removed either by the cleaner (got = false) or by us now (got = true)
			r.emit(fmt.Sprintf("Remove %d true", d.P), Yield{})
			r.M.Remove(d.P, true)
			r.Removed = append(r.Removed, d.P)
		default:
			// in use: the repaired cleaner and RemoveHandler both leave it
			r.emit(fmt.Sprintf("Remove %d false", d.P), Yield{})
			if got {
				r.M.Remove(d.P, true)
				r.fail("remove-mismatch", "RemoveHandler(publisher %d) removed a handler the model says is in use", d.P)
			}
		}
	case "close":
		if r.closerG != 0 {
			r.abort("script", "close twice")
			return
		}
		r.closerOn.Store(true)
		ready := make(chan uint64)
		go func() {
			ready <- goid()
			_ = r.Sub.Close()
		}()
		r.closerG = <-ready
		// close(s.closing), then block new explicit syncs, then wait for the running ones
		for _, pt := range []string{"close:closing-closed", "close:exp-blocked"} {
			a := r.waitFor("Subscriber.Close reaching "+pt, func(a *arrival) bool { return a.goid == r.closerG })
			if a == nil {
				return
			}
			r.Raw = append(r.Raw, RawEvent{Goid: a.goid, Tid: -1, Point: a.point})
			if a.point != pt {
				r.abort("yield-mismatch", "Subscriber.Close is at %s, expected %s", a.point, pt)
				r.closerAt = a
				return
			}
			if pt == "close:closing-closed" {
				r.M.Closing = true
				r.emit("CloseBegin", Yield{})
			}
			r.release(a)
		}
		// from here Close waits for the explicit syncs; it shows up at close:exp-waited when
		// they are done and is held there.  Nothing else may move because of it.
		r.settle(4 * time.Millisecond)
	case "try":
		// thread t runs into a held mutex / the full semaphore and waits there (no model
		// step): checks that the real code blocks where the model says it does
		a := r.parked[d.T]
		if a == nil || r.M.Enabled(d.T) {
			r.abort("script", "thread %d cannot be tried (not parked, or runnable)", d.T)
			return
		}
		delete(r.parked, d.T)
		r.advance(d.T, nil, func() { r.release(a) })
	case "go":
		a := r.parked[d.T]
		if a == nil || !r.M.Enabled(d.T) {
			r.abort("script", "thread %d is not runnable", d.T)
			return
		}
		delete(r.parked, d.T)
		r.failNext, r.stallNext = d.Fail, d.Stall
		r.advance(d.T, nil, func() { r.release(a) })
		r.failNext, r.stallNext = false, false
	default:
		r.abort("script", "unknown decision %q", d.K)
	}
	r.drainWakeups()
}

// Finish collects the observables at the end of the schedule and tears the run down.
func (r *Run) Finish() {
	if r.closed {
		return
	}
	r.closed = true
	if r.closerG != 0 && !r.Aborted {
		r.settle(2 * time.Millisecond)
		r.drainWakeups()
	}
	r.ObsQuiescent = !r.Aborted && r.M.AllIdle() && r.annOut == nil && len(r.blocked) == 0
	if !r.Aborted {
		// every event the model sent must come out of OnSyncFinished
		deadline := time.Now().Add(Watchdog)
		for {
			r.evMu.Lock()
			n := len(r.events)
			r.evMu.Unlock()
			if n >= len(r.M.Events) || time.Now().After(deadline) {
				break
			}
			time.Sleep(100 * time.Microsecond)
		}
	}
	for _, p := range r.Pubs {
		l := r.Sub.GetLatestSync(p.PeerID)
		n := 0
		if l != nil {
			n = p.AdOf(l.(cidlink.Link).Cid)
			if n == 0 {
				n = 999
			}
		}
		r.ObsLatest = append(r.ObsLatest, n)
	}
	// teardown: let everything run freely, cancel, close
	r.free.Store(true)
	r.cancel()
	for _, a := range r.parked {
		r.release(a)
	}
	for _, a := range r.early {
		r.release(a)
	}
	if r.earlyW != nil {
		r.release(r.earlyW)
	}
	if r.closerAt != nil {
		r.release(r.closerAt)
	}
drain:
	for {
		select {
		case a := <-r.arrivals:
			r.release(a)
		default:
			break drain
		}
	}
	closed := make(chan struct{})
	go func() { _ = r.Sub.Close(); close(closed) }()
	tick := time.NewTicker(time.Millisecond)
	deadline := time.After(10 * time.Second)
wait:
	for {
		select {
		case <-closed:
			break wait
		case a := <-r.arrivals:
			r.release(a)
		case <-tick.C:
		case <-deadline:
			r.fail("close-hang", "Subscriber.Close did not return within 10s after the schedule")
			break wait
		}
	}
	tick.Stop()
	select {
	case <-r.evDone:
	case <-time.After(2 * time.Second):
	}
	dagsync.SetVerifYield(nil)
	r.evMu.Lock()
	for _, ev := range r.events {
		p := r.pubOf[ev.PeerID]
		r.ObsEvents = append(r.ObsEvents, Event{Pub: p, Head: r.Pubs[p].AdOf(ev.Cid), Err: ev.Err != nil})
	}
	r.evMu.Unlock()
	for _, p := range r.Pubs {
		p.Close()
	}
	open := map[int]bool{}
	for _, e := range r.Raw {
		switch e.Point {
		case YHandleLocked:
			open[e.Pub] = true
			if len(open) > r.MaxOpen {
				r.MaxOpen = len(open)
			}
		case YHandleUnlocking:
			delete(open, e.Pub)
		}
	}
	runMu.Unlock()
}
