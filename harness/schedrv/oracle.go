package schedrv

import (
	"fmt"
	"sort"
	"strings"
)

// Oracles computed from the raw log of yield-point arrivals, the block-hook calls, the
// SyncFinished events and GetLatestSync -- directly from the property text, without the
// model (the model state is consulted in one place only, to tell a re-report caused by a
// stale announcement, the listed finding, from any other duplicate report).

type Violation struct {
	Kind string `json:"kind"`
	Desc string `json:"desc"`
}

func (r *Run) Oracles() []Violation {
	var out []Violation
	add := func(kind, format string, args ...interface{}) {
		for _, v := range out {
			if v.Kind == kind {
				return
			}
		}
		out = append(out, Violation{Kind: kind, Desc: fmt.Sprintf(format, args...)})
	}

	// 1. one sync at a time per publisher; hook calls belong to the open session;
	//    2. announce-triggered goroutines past the semaphore <= cap
	open := map[int]uint64{}     // publisher -> goroutine inside handler.handle
	isAsync := map[uint64]bool{} // goroutine started by the watcher
	permit := map[uint64]bool{}
	for _, e := range r.Raw {
		switch e.Point {
		case YAsyncStart:
			isAsync[e.Goid] = true
		case YAsyncSem:
			permit[e.Goid] = true
			if r.Cfg.Cap > 0 && len(permit) > r.Cfg.Cap {
				add("async-over-cap", "%d announce-triggered goroutines hold a semaphore permit, MaxAsyncConcurrency is %d", len(permit), r.Cfg.Cap)
			}
		case YExit:
			delete(permit, e.Goid)
		case YHandleLocked:
			if g, busy := open[e.Pub]; busy && g != e.Goid {
				add("session-overlap", "publisher %d: goroutine %d entered handler.handle while goroutine %d is still inside it (two syncs of one publisher at once)", e.Pub, e.Goid, g)
			}
			open[e.Pub] = e.Goid
		case YHandleUnlocking:
			if open[e.Pub] == e.Goid {
				delete(open, e.Pub)
			}
		case YHook:
			if g, busy := open[e.Pub]; !busy || g != e.Goid {
				add("hook-interleave", "publisher %d: block hook called by goroutine %d for ad %d outside its own session (session open: %v by %d)", e.Pub, e.Goid, e.Ad, busy, g)
			}
			// each hook sees exactly its own blocks: entries blocks go to the scoped hook of
			// the entries sync that is running them, advertisements to the general hook
			switch {
			case e.Ent && (e.Via == 0 || e.Via != e.Tid+1):
				add("hook-misdelivered", "publisher %d: entries block %d reported by thread %d went to hook %d (0 = the general hook, t+1 = scoped hook of entries sync t)", e.Pub, e.Ad, e.Tid, e.Via)
			case !e.Ent && e.Via != 0:
				add("hook-misdelivered", "publisher %d: advertisement %d reported by thread %d went to the scoped hook of entries sync %d", e.Pub, e.Ad, e.Tid, e.Via-1)
			}
		}
	}

	if r.Aborted {
		return out
	}

	// 3. nothing left to do although not every thread finished
	if !r.ObsQuiescent && len(r.Runnable()) == 0 && r.annOut == nil {
		add("deadlock", "no goroutine can proceed but not all are finished (blocked: %v)", r.blockedList())
	}

	if !r.ObsQuiescent {
		return out
	}

	// every announce-triggered sync that was made to fail (500 or stalled publisher) is
	// reported by an error event
	for _, f := range r.FailedAsync {
		found := false
		for _, ev := range r.ObsEvents {
			if ev.Pub == f.Pub && ev.Head == f.Head && ev.Err {
				found = true
			}
		}
		if !found {
			add("failed-sync-not-reported", "publisher %d: the announce-triggered sync of head %d failed (injected) but no error SyncFinished for it was delivered (events %v)", f.Pub, f.Head, r.ObsEvents)
		}
	}

	// 4. events: every event the subscriber emitted, in order (compared with the model by
	//    the Coq acceptor); here: at quiescence the last announced head was acted on
	explicit := r.M.Nexp
	for p := 0; p < r.Cfg.NPub; p++ {
		ann := r.AnnOrder[p]
		if len(ann) == 0 {
			continue
		}
		last := ann[len(ann)-1]
		latest := r.ObsLatest[p]
		okEv, errEv := false, false
		for _, ev := range r.ObsEvents {
			if ev.Pub == p && ev.Head == last {
				if ev.Err {
					errEv = true
				} else {
					okEv = true
				}
			}
		}
		if !(latest == last || errEv || (explicit && okEv)) {
			add("announcement-lost", "publisher %d: last announced head %d, latest sync %d, no error event for %d (announced %v)", p, last, latest, last, ann)
		}
	}

	// 5. every advertisement up to the latest sync reported exactly once
	for p := 0; p < r.Cfg.NPub; p++ {
		count := map[int]int{}
		for _, e := range r.Raw {
			if e.Point == YHook && e.Pub == p && !e.Ent {
				count[e.Ad]++
			}
		}
		var dup, missing []int
		for ad, n := range count {
			if n > 1 {
				dup = append(dup, ad)
			}
		}
		for ad := 1; ad <= r.ObsLatest[p] && r.ObsLatest[p] != 999; ad++ {
			if count[ad] == 0 {
				missing = append(missing, ad)
			}
		}
		sort.Ints(dup)
		if len(dup) > 0 {
			if r.M.Regress {
				add("stale-announce-resync", "publisher %d: ads %v reported more than once; an announce-triggered sync ran for a head older than the latest sync an explicit sync had already recorded", p, dup)
			} else {
				add("duplicate-report", "publisher %d: ads %v reported more than once although no sync was started for a head older than the latest sync", p, dup)
			}
		}
		if len(missing) > 0 {
			add("missing-report", "publisher %d: latest sync is %d but ads %v were never reported to the block hook", p, r.ObsLatest[p], missing)
		}
	}
	// every entries sync that ran reported exactly its chain, in order, to its own hook
	for t, th := range r.M.Threads {
		if th.Kind != KEntries || th.PC != Fin || !th.Ok {
			continue
		}
		var got []int
		for _, e := range r.Raw {
			if e.Point == YHook && e.Ent && e.Via == t+1 {
				got = append(got, e.Ad)
			}
		}
		want := desc(th.Msg, th.Msg)
		if fmt.Sprint(got) != fmt.Sprint(want) {
			add("entries-hook-incomplete", "publisher %d: the scoped hook of entries sync %d saw blocks %v, its chain is %v", th.Pub, t, got, want)
		}
	}
	return out
}

func (r *Run) blockedList() []int {
	var out []int
	for t := range r.blocked {
		out = append(out, t)
	}
	sort.Ints(out)
	return out
}

// CoqCase prints the run as a term of type tcase (model/C08_AnnounceQueue.v).
func (r *Run) CoqCase() string {
	var b strings.Builder
	b.WriteString("(mkcase ")
	fmt.Fprintf(&b, "%v %v %d\n   [", r.Cfg.V.LockFix, r.Cfg.V.RefFix, r.Cfg.Cap)
	b.WriteString(strings.Join(r.Trace, "; "))
	b.WriteString("]\n   ")
	fmt.Fprintf(&b, "%d [", r.Cfg.NPub)
	for i, l := range r.ObsLatest {
		if i > 0 {
			b.WriteString("; ")
		}
		fmt.Fprintf(&b, "%d", l)
	}
	b.WriteString("] [")
	for _, ent := range []bool{false, true} {
		first := true
		for _, e := range r.Raw {
			if e.Point != YHook || e.Ent != ent {
				continue
			}
			if !first {
				b.WriteString("; ")
			}
			first = false
			fmt.Fprintf(&b, "(%d, %d, %d)", e.Tid, e.Pub, e.Ad)
		}
		b.WriteString("] [")
	}
	for i, ev := range r.ObsEvents {
		if i > 0 {
			b.WriteString("; ")
		}
		fmt.Fprintf(&b, "(%d, %d, %v)", ev.Pub, ev.Head, ev.Err)
	}
	fmt.Fprintf(&b, "] %v)%%nat", r.ObsQuiescent)
	return b.String()
}

func DecisionsSig(ds []Decision) string {
	parts := make([]string, len(ds))
	for i, d := range ds {
		parts[i] = d.String()
	}
	return strings.Join(parts, ",")
}
