package schedrv

import (
	"time"

	"verif/harness/vlib"
)

// PointOf: the yield point thread t is parked at ("" when it is not parked).
func (r *Run) PointOf(t int) string {
	if a := r.parked[t]; a != nil {
		return a.point
	}
	return ""
}

// RunUntil lets thread t run until it is parked at point (or cannot run any more).
func (r *Run) RunUntil(t int, point string) bool {
	for i := 0; i < 200 && !r.Aborted; i++ {
		if r.PointOf(t) == point {
			return true
		}
		if r.parked[t] == nil || !r.M.Enabled(t) {
			return false
		}
		r.Do(Decision{K: "go", T: t})
	}
	return false
}

// RunUntilOrTry is RunUntil, but when the thread's next operation blocks (according to the
// model) before it reaches the point, it is let go anyway and must be seen waiting there.
func (r *Run) RunUntilOrTry(t int, point string) bool {
	if r.RunUntil(t, point) {
		return true
	}
	if !r.Aborted && r.parked[t] != nil && !r.M.Enabled(t) {
		r.Do(Decision{K: "try", T: t})
	}
	return false
}

// RunToEnd lets thread t run until it ends (or cannot run any more).
func (r *Run) RunToEnd(t int) bool {
	for i := 0; i < 400 && !r.Aborted; i++ {
		if t != 0 && r.M.Threads[t].PC == Fin {
			return true
		}
		if t == 0 && r.M.Threads[0].PC == WNext {
			return true
		}
		if r.parked[t] == nil || !r.M.Enabled(t) {
			return false
		}
		r.Do(Decision{K: "go", T: t})
	}
	return false
}

// Drain runs every runnable thread (lowest tid first, or seeded-random order) until
// nothing can run.
func (r *Run) Drain(rng *vlib.Rand) {
	for i := 0; i < 5000 && !r.Aborted; i++ {
		rs := r.Runnable()
		if len(rs) == 0 {
			return
		}
		t := rs[0]
		if rng != nil {
			t = rs[rng.Intn(len(rs))]
		}
		r.Do(Decision{K: "go", T: t})
	}
}

// Replay performs a recorded list of decisions.
func (r *Run) Replay(ds []Decision) {
	for _, d := range ds {
		if r.Aborted {
			return
		}
		r.Do(d)
	}
}

// LastThread: tid of the most recently created thread.
func (r *Run) LastThread() int { return len(r.M.Threads) - 1 }

// Probe finds out which source variant the Subscriber under test is: whether the stop
// CID is read inside the per-publisher sync lock (lockfix) and whether an in-use handler
// can be removed (reffix).
func Probe() Variant {
	var v Variant
	old := Watchdog
	defer func() { Watchdog = old }()

	// lockfix: A is held inside handler.handle; does a second SyncAdChain of the same
	// publisher get to read the latest sync (sync:stop-read) meanwhile?
	Watchdog = 4 * time.Second
	r := NewRun(Config{NPub: 1, Cap: 0, ChainLen: 2, V: Variant{}})
	r.Do(Decision{K: "pub", P: 0})
	r.Do(Decision{K: "exp", P: 0})
	a := r.LastThread()
	if !r.RunUntil(a, YHandleLocked) {
		r.Finish()
		panic("schedrv.Probe: first explicit sync did not reach handle:locked: " + failuresText(r))
	}
	Watchdog = 300 * time.Millisecond
	r.Do(Decision{K: "exp", P: 0})
	v.LockFix = r.Aborted
	Watchdog = 4 * time.Second
	r.Finish()

	// reffix: a goroutine is waiting to handle an announcement; can its handler be removed?
	r = NewRun(Config{NPub: 1, Cap: 0, ChainLen: 2, V: Variant{LockFix: v.LockFix}})
	r.Do(Decision{K: "pub", P: 0})
	r.Do(Decision{K: "ann", P: 0, C: 1})
	r.RunToEnd(0)
	if r.Aborted || r.LastThread() != 1 {
		r.Finish()
		panic("schedrv.Probe: announcement did not start a goroutine: " + failuresText(r))
	}
	v.RefFix = !r.Sub.RemoveHandler(r.Pubs[0].PeerID)
	r.Finish()
	return v
}

func failuresText(r *Run) string {
	s := ""
	for _, f := range r.Failures {
		s += f.Kind + ": " + f.Desc + "; "
	}
	return s
}
