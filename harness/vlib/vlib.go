// Package vlib is the shared part of the correspondence harness: one PRNG for every
// random choice, Coq term printers, sharded case files, and the result file the
// python driver reads.
package vlib

import (
	"encoding/hex"
	"encoding/json"
	"flag"
	"fmt"
	"os"
	"path/filepath"
	"sort"
	"strings"
)

// ---------------------------------------------------------------------------
// PRNG (splitmix64): every random choice of a run derives from VERIF_SEED.

type Rand struct{ s uint64 }

func NewRand(seed uint64) *Rand { return &Rand{s: seed*0x9E3779B97F4A7C15 + 0x1234567} }

func (r *Rand) Uint64() uint64 {
	r.s += 0x9E3779B97F4A7C15
	z := r.s
	z = (z ^ (z >> 30)) * 0xBF58476D1CE4E5B9
	z = (z ^ (z >> 27)) * 0x94D049BB133111EB
	return z ^ (z >> 31)
}
func (r *Rand) Intn(n int) int {
	if n <= 0 {
		return 0
	}
	return int(r.Uint64() % uint64(n))
}
func (r *Rand) Bool() bool { return r.Uint64()&1 == 1 }
func (r *Rand) Bytes(n int) []byte {
	b := make([]byte, n)
	for i := range b {
		b[i] = byte(r.Uint64())
	}
	return b
}

// Fork derives an independent stream (so adding cases to one family does not shift
// the choices of another).
func (r *Rand) Fork(label string) *Rand {
	h := uint64(1469598103934665603)
	for i := 0; i < len(label); i++ {
		h ^= uint64(label[i])
		h *= 1099511628211
	}
	return &Rand{s: r.s ^ h}
}

// ---------------------------------------------------------------------------
// Coq printers

func Hex(b []byte) string       { return `"` + hex.EncodeToString(b) + `"` }
func CoqBytes(b []byte) string  { return "(unhex " + Hex(b) + ")" }
func CoqN(n uint64) string      { return fmt.Sprintf("%d", n) }
func CoqNat(n int) string       { return fmt.Sprintf("%d%%nat", n) }
func CoqZ(n int64) string {
	if n < 0 {
		return fmt.Sprintf("(%d)%%Z", n)
	}
	return fmt.Sprintf("%d%%Z", n)
}
func CoqBool(b bool) string {
	if b {
		return "true"
	}
	return "false"
}
func CoqString(s string) string {
	// Coq string literals: only the double quote needs escaping; non-printable bytes
	// are not representable portably, callers use bytes for those.
	return `"` + strings.ReplaceAll(s, `"`, `""`) + `"`
}
func CoqList(items []string) string { return "[" + strings.Join(items, "; ") + "]" }
func CoqOpt(s string, ok bool) string {
	if !ok {
		return "None"
	}
	return "(Some " + s + ")"
}
func CoqListN(xs []uint64) string {
	it := make([]string, len(xs))
	for i, x := range xs {
		it[i] = CoqN(x)
	}
	return CoqList(it)
}
func CoqListBool(xs []bool) string {
	it := make([]string, len(xs))
	for i, x := range xs {
		it[i] = CoqBool(x)
	}
	return CoqList(it)
}

// ---------------------------------------------------------------------------
// Run context

type Failure struct {
	// Signature identifies the failing input specifically (after shrinking); it is
	// what known_findings.json is matched against.
	Signature string      `json:"signature"`
	Desc      string      `json:"desc"`
	Replay    interface{} `json:"replay"`
}

type Result struct {
	Property          string                 `json:"property"`
	Evaluations       int                    `json:"evaluations"`
	DistinctNontrivial int                   `json:"distinct_nontrivial"`
	Rule              string                 `json:"rule"`
	Samples           []interface{}          `json:"samples"`
	Distribution      map[string]int         `json:"distribution"`
	Exhaustive        bool                   `json:"exhaustive"`
	OracleFailures    []Failure              `json:"oracle_failures"`
	Families          map[string]*FamilyInfo `json:"families"`
	Notes             []string               `json:"notes"`
}

type FamilyInfo struct {
	Files []string `json:"files"`
	Cases int      `json:"cases"`
}

type Ctx struct {
	Seed    uint64
	Tier    string
	Out     string
	Replay  string
	Rng     *Rand
	Res     Result
	fams    map[string]*family
	distinct map[string]bool
}

type family struct {
	name     string
	requires []string // Require lines
	checker  string   // Coq function : case -> bool
	shard    int      // max cases per file
	cases    []string
	descs    []interface{}
}

func Init(property string) *Ctx {
	seed := flag.Uint64("seed", 1, "PRNG seed")
	tier := flag.String("tier", "quick", "quick|thorough")
	out := flag.String("out", "", "output directory")
	replay := flag.String("replay", "", "replay file")
	flag.Parse()
	if *out == "" {
		fmt.Fprintln(os.Stderr, "need -out")
		os.Exit(2)
	}
	if err := os.MkdirAll(*out, 0o755); err != nil {
		panic(err)
	}
	c := &Ctx{Seed: *seed, Tier: *tier, Out: *out, Replay: *replay, Rng: NewRand(*seed)}
	c.Res.Property = property
	c.Res.Distribution = map[string]int{}
	c.Res.Families = map[string]*FamilyInfo{}
	c.fams = map[string]*family{}
	c.distinct = map[string]bool{}
	return c
}

func (c *Ctx) Thorough() bool { return c.Tier == "thorough" }

// Pick returns q for the quick tier and t for the thorough tier.
func (c *Ctx) Pick(q, t int) int {
	if c.Thorough() {
		return t
	}
	return q
}

// Family declares a group of cases checked by one Coq function `checker : T -> bool`.
// requires are the `From .. Require Import ..` lines the case file needs.
func (c *Ctx) Family(name string, requires []string, checker string, shard int) {
	c.fams[name] = &family{name: name, requires: requires, checker: checker, shard: shard}
}

// Case adds one case (a Coq term of the checker's argument type) with a JSON-able
// description used as replay when the model and the implementation disagree on it.
func (c *Ctx) Case(fam string, term string, desc interface{}) {
	f := c.fams[fam]
	f.cases = append(f.cases, term)
	f.descs = append(f.descs, desc)
}

func (c *Ctx) Count(key string)           { c.Res.Distribution[key]++ }
func (c *Ctx) CountN(key string, n int)   { c.Res.Distribution[key] += n }
func (c *Ctx) Eval()                      { c.Res.Evaluations++ }
func (c *Ctx) Note(s string)              { c.Res.Notes = append(c.Res.Notes, s) }
func (c *Ctx) Sample(s interface{}) {
	if len(c.Res.Samples) < 6 {
		c.Res.Samples = append(c.Res.Samples, s)
	}
}

// Nontrivial records a distinct non-trivial case by key.
func (c *Ctx) Nontrivial(key string) {
	if !c.distinct[key] {
		c.distinct[key] = true
		c.Res.DistinctNontrivial++
	}
}

func (c *Ctx) Fail(signature, desc string, replay interface{}) {
	for _, f := range c.Res.OracleFailures {
		if f.Signature == signature {
			return
		}
	}
	if len(c.Res.OracleFailures) < 50 {
		c.Res.OracleFailures = append(c.Res.OracleFailures, Failure{signature, desc, replay})
	}
}

// Finish writes the case files and result.json.
func (c *Ctx) Finish() {
	names := make([]string, 0, len(c.fams))
	for n := range c.fams {
		names = append(names, n)
	}
	sort.Strings(names)
	for _, n := range names {
		f := c.fams[n]
		fi := &FamilyInfo{Cases: len(f.cases)}
		c.Res.Families[n] = fi
		shard := f.shard
		if shard <= 0 {
			shard = 500
		}
		for i, k := 0, 0; i < len(f.cases); i, k = i+shard, k+1 {
			j := i + shard
			if j > len(f.cases) {
				j = len(f.cases)
			}
			base := fmt.Sprintf("cases_%s_%03d", n, k)
			var b strings.Builder
			for _, r := range f.requires {
				b.WriteString(r + "\n")
			}
			b.WriteString("From Lib Require Import Bytes.\nFrom Coq Require Import String.\nOpen Scope string_scope.\nOpen Scope N_scope.\n")
			b.WriteString("Definition cases := [\n")
			for q := i; q < j; q++ {
				if q > i {
					b.WriteString(";\n")
				}
				b.WriteString("  " + f.cases[q])
			}
			b.WriteString("\n].\n")
			b.WriteString("Definition bad := Eval vm_compute in bad_indices (" + f.checker + ") 0%nat cases.\n")
			b.WriteString("Print bad.\n")
			must(os.WriteFile(filepath.Join(c.Out, base+".v"), []byte(b.String()), 0o644))
			js, _ := json.Marshal(map[string]interface{}{"family": n, "offset": i, "cases": f.descs[i:j]})
			must(os.WriteFile(filepath.Join(c.Out, base+".json"), js, 0o644))
			fi.Files = append(fi.Files, base+".v")
		}
	}
	js, err := json.MarshalIndent(c.Res, "", " ")
	must(err)
	must(os.WriteFile(filepath.Join(c.Out, "result.json"), js, 0o644))
}

func must(err error) {
	if err != nil {
		panic(err)
	}
}

// LoadReplay reads a replay file into v.
func (c *Ctx) LoadReplay(v interface{}) error {
	b, err := os.ReadFile(c.Replay)
	if err != nil {
		return err
	}
	var wrap struct {
		Replay json.RawMessage `json:"replay"`
	}
	if err := json.Unmarshal(b, &wrap); err == nil && len(wrap.Replay) > 0 {
		return json.Unmarshal(wrap.Replay, v)
	}
	return json.Unmarshal(b, v)
}
