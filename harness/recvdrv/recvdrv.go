// Package recvdrv drives a real announce.Receiver through sequential histories and
// records what each call did, for the C09 and C16 correspondence checks.
package recvdrv

import (
	"context"
	"errors"
	"fmt"
	"runtime"
	"strings"
	"sync"
	"time"

	"github.com/ipfs/go-cid"
	"github.com/ipni/go-libipni/announce"
	"github.com/libp2p/go-libp2p/core/peer"
	"github.com/multiformats/go-multiaddr"
	"github.com/multiformats/go-multihash"

	"verif/harness/vlib"
)

// Op is one API call of a sequential history.
type Op struct {
	Kind      string `json:"kind"` // close | direct | next | uncache
	Peer      int    `json:"peer,omitempty"`
	Cid       int    `json:"cid,omitempty"`
	Addrs     []int  `json:"addrs,omitempty"`
	Cancelled bool   `json:"cancelled,omitempty"` // context already cancelled when called
}

// Obs is what the call did.
type Obs struct {
	Outcome string `json:"outcome"` // nil | closed | ctx | blocked | ann | hung | other:<err>
	Cid     int    `json:"cid,omitempty"`
	Peer    int    `json:"peer,omitempty"`
	Addrs   []int  `json:"addrs,omitempty"`
}

type Config struct {
	Cap       int  `json:"cap"`        // duplicate filter capacity (0 = leave the built-in one)
	FilterIPs bool `json:"filter_ips"` // WithFilterIPs
	AllowMod  int  `json:"allow_mod"`  // peer i allowed iff AllowMod == 0 || i % AllowMod != 0
}

func (c Config) Allowed(p int) bool { return c.AllowMod == 0 || p%c.AllowMod != 0 }

// Address universe: id -> (multiaddr, public?) ; public flag known by construction.
type AddrDef struct {
	S      string
	Public bool
}

var AddrTable = []AddrDef{
	{"/ip4/8.8.8.8/tcp/3103", true},
	{"/ip4/1.2.3.4/tcp/80/http", true},
	{"/ip4/10.0.0.1/tcp/3103", false},
	{"/ip4/192.168.1.7/tcp/443/https", false},
	{"/ip4/127.0.0.1/tcp/9999", false},
	{"/ip4/0.0.0.0/tcp/3103", false},
	{"/ip6/::1/tcp/3103", false},
	{"/ip6/2001:4860:4860::8888/tcp/3103", true},
	{"/dns4/localhost/tcp/80", false},
	{"/dns4/example.com/tcp/443/https", true},
	{"/ip4/172.16.5.5/tcp/1234", false},
	{"/ip6/fe80::1/tcp/1", false},
	{"/ip4/169.254.1.1/tcp/1", false},
	{"/dns/ipni.example.org/tcp/443/https", true},
	{"/ip6/::/tcp/3103", false},
	{"/ip4/192.0.2.1/tcp/1", false},                        // unroutable (TEST-NET-1)
	{"/ip4/224.0.0.1/tcp/1", false},                        // multicast
	{"/ip6zone/eth0/ip6/fe80::1/tcp/1", false},             // zoned link-local
	{"/ip6zone/lo/ip6/::1/tcp/1", false},                   // zoned loopback
	{"/ip6zone/eth0/ip6/::/tcp/1", false},                  // zoned unspecified
	{"/ip6zone/eth0/ip6/2001:4860:4860::8844/tcp/1", true}, // zoned public
}

var (
	addrOnce sync.Once
	addrs    []multiaddr.Multiaddr
	addrIdx  map[string]int
)

func Addr(i int) multiaddr.Multiaddr {
	addrOnce.Do(func() {
		addrIdx = map[string]int{}
		for j, d := range AddrTable {
			a, err := multiaddr.NewMultiaddr(d.S)
			if err != nil {
				panic(err)
			}
			addrs = append(addrs, a)
			addrIdx[string(a.Bytes())] = j
		}
	})
	return addrs[i]
}

func AddrID(a multiaddr.Multiaddr) int {
	Addr(0)
	if a == nil {
		return -1
	}
	if i, ok := addrIdx[string(a.Bytes())]; ok {
		return i
	}
	return -1
}

func Cid(i int) cid.Cid {
	h, err := multihash.Sum([]byte(fmt.Sprintf("verif-cid-%d", i)), multihash.SHA2_256, -1)
	if err != nil {
		panic(err)
	}
	return cid.NewCidV1(cid.Raw, h)
}

func Peer(i int) peer.ID {
	h, err := multihash.Sum([]byte(fmt.Sprintf("verif-peer-%d", i)), multihash.IDENTITY, -1)
	if err != nil {
		panic(err)
	}
	return peer.ID(h)
}

type idx struct {
	cids  map[string]int
	peers map[peer.ID]int
}

// Run executes one sequential history on a fresh receiver (no libp2p host, no topic).
// The returned slice is shorter than ops when a call hung: the history is cut there.
// watchdog is how long a call may run before it is deemed blocked; its context is then
// cancelled and it gets 20x that long to return before it is deemed hung.
func Run(cfg Config, ops []Op, watchdog time.Duration) []Obs {
	opts := []announce.Option{announce.WithFilterIPs(cfg.FilterIPs)}
	ix := idx{cids: map[string]int{}, peers: map[peer.ID]int{}}
	for _, o := range ops {
		ix.cids[Cid(o.Cid).String()] = o.Cid
		ix.peers[Peer(o.Peer)] = o.Peer
	}
	if cfg.AllowMod != 0 {
		opts = append(opts, announce.WithAllowPeer(func(p peer.ID) bool {
			i, ok := ix.peers[p]
			return ok && cfg.Allowed(i)
		}))
	}
	r, err := announce.NewReceiver(nil, "", opts...)
	if err != nil {
		panic(err)
	}
	if cfg.Cap > 0 {
		r.VerifSetCacheSize(cfg.Cap)
	}
	obs := make([]Obs, 0, len(ops))
	hungSeen := false
	for _, o := range ops {
		ob := runOp(r, o, ix, watchdog)
		obs = append(obs, ob)
		if ob.Outcome == "hung" {
			// every later call would hang too: the history is cut here
			hungSeen = true
			break
		}
	}
	if !hungSeen {
		// best-effort cleanup; a hung receiver is abandoned
		done := make(chan struct{})
		go func() { r.Close(); close(done) }()
		select {
		case <-done:
		case <-time.After(20 * watchdog):
		}
	}
	return obs
}

func runOp(r *announce.Receiver, o Op, ix idx, watchdog time.Duration) Obs {
	ctx, cancel := context.WithCancel(context.Background())
	defer cancel()
	if o.Cancelled {
		cancel()
	}
	resc := make(chan Obs, 1)
	started := make(chan struct{})
	go func() {
		close(started)
		switch o.Kind {
		case "close":
			err := r.Close()
			resc <- errObs(err)
		case "uncache":
			r.UncacheCid(Cid(o.Cid))
			resc <- Obs{Outcome: "nil"}
		case "direct":
			ai := peer.AddrInfo{ID: Peer(o.Peer)}
			for _, a := range o.Addrs {
				ai.Addrs = append(ai.Addrs, Addr(a))
			}
			err := r.Direct(ctx, Cid(o.Cid), ai)
			resc <- errObs(err)
		case "next":
			a, err := r.Next(ctx)
			if err != nil {
				resc <- errObs(err)
				return
			}
			ob := Obs{Outcome: "ann", Cid: -1, Peer: -1}
			if i, ok := ix.cids[a.Cid.String()]; ok {
				ob.Cid = i
			}
			if i, ok := ix.peers[a.PeerID]; ok {
				ob.Peer = i
			}
			for _, ma := range a.Addrs {
				ob.Addrs = append(ob.Addrs, AddrID(ma))
			}
			resc <- ob
		default:
			panic("bad op " + o.Kind)
		}
	}()
	// the watchdog runs from the moment the goroutine is running, so that a slow
	// start on a loaded machine is not mistaken for a blocked call
	<-started
	select {
	case ob := <-resc:
		return ob
	case <-time.After(watchdog):
	}
	// give a merely descheduled goroutine a last chance before declaring it blocked
	for i := 0; i < 3; i++ {
		runtime.Gosched()
		select {
		case ob := <-resc:
			return ob
		case <-time.After(watchdog / 8):
		}
	}
	cancel()
	select {
	case ob := <-resc:
		if ob.Outcome == "ctx" {
			return Obs{Outcome: "blocked"}
		}
		// returned late for another reason: report what it returned
		return ob
	case <-time.After(20 * watchdog):
		return Obs{Outcome: "hung"}
	}
}

func errObs(err error) Obs {
	switch {
	case err == nil:
		return Obs{Outcome: "nil"}
	case errors.Is(err, announce.ErrClosed):
		return Obs{Outcome: "closed"}
	case errors.Is(err, context.Canceled), errors.Is(err, context.DeadlineExceeded):
		return Obs{Outcome: "ctx"}
	}
	return Obs{Outcome: "other:" + err.Error()}
}

// RunRobust runs the history and, when a call was seen blocked or hung, runs it once
// more with a five times longer watchdog and reports that second run.
func RunRobust(cfg Config, ops []Op, watchdog time.Duration) []Obs {
	suspicious := func(obs []Obs) bool {
		for _, o := range obs {
			if o.Outcome == "blocked" || o.Outcome == "hung" || strings.HasPrefix(o.Outcome, "other:") {
				return true
			}
		}
		return false
	}
	same := func(a, b []Obs) bool {
		if len(a) != len(b) {
			return false
		}
		for i := range a {
			if a[i].Outcome != b[i].Outcome || a[i].Cid != b[i].Cid {
				return false
			}
		}
		return true
	}
	obs := Run(cfg, ops, watchdog)
	if !suspicious(obs) {
		return obs
	}
	// a blocked call may be a timing artefact: confirm with longer watchdogs and
	// report an observation only when two runs agree on it
	obs2 := Run(cfg, ops, 3*watchdog)
	if same(obs, obs2) {
		return obs2
	}
	obs3 := Run(cfg, ops, 10*watchdog)
	if same(obs2, obs3) || same(obs, obs3) {
		return obs3
	}
	return Run(cfg, ops, 25*watchdog)
}

// ---------------------------------------------------------------------------
// Coq printing (model/Announce_Receiver.v)

func coqAnn(c, p int, as []int) string {
	items := make([]string, len(as))
	for i, a := range as {
		pub := false
		if a >= 0 && a < len(AddrTable) {
			pub = AddrTable[a].Public
		}
		id := a
		if id < 0 {
			id = 9999
		}
		items[i] = fmt.Sprintf("(%d, %s)", id, vlib.CoqBool(pub))
	}
	if c < 0 {
		c = 999999
	}
	if p < 0 {
		p = 999999
	}
	return fmt.Sprintf("{| a_cid := %d; a_peer := %d; a_addrs := %s |}", c, p, vlib.CoqList(items))
}

func CoqOp(cfg Config, o Op) string {
	switch o.Kind {
	case "close":
		return "OClose"
	case "uncache":
		return fmt.Sprintf("(OUncache %d)", o.Cid)
	case "direct":
		return fmt.Sprintf("(ODirect %s %s %s)", vlib.CoqBool(cfg.Allowed(o.Peer)), coqAnn(o.Cid, o.Peer, o.Addrs), vlib.CoqBool(o.Cancelled))
	case "next":
		return fmt.Sprintf("(ONext %s)", vlib.CoqBool(o.Cancelled))
	}
	panic("bad op")
}

func CoqObs(ob Obs) string {
	switch ob.Outcome {
	case "nil":
		return "RNil"
	case "closed":
		return "RClosed"
	case "ctx":
		return "RCtx"
	case "blocked":
		return "RBlocked"
	case "ann":
		return "(RAnn " + coqAnn(ob.Cid, ob.Peer, ob.Addrs) + ")"
	}
	return "RHung"
}

func CoqCfg(cfg Config) string {
	cap := cfg.Cap
	if cap == 0 {
		cap = 64
	}
	return fmt.Sprintf("{| cap := %d%%nat; filter_ips := %s |}", cap, vlib.CoqBool(cfg.FilterIPs))
}

// CoqHistory prints (cfg, [(op, outcome); ...]).
func CoqHistory(cfg Config, ops []Op, obs []Obs) string {
	items := make([]string, len(ops))
	for i := range ops {
		items[i] = "(" + CoqOp(cfg, ops[i]) + ", " + CoqObs(obs[i]) + ")"
	}
	return "(" + CoqCfg(cfg) + ", " + vlib.CoqList(items) + ")"
}

// History is the JSON replay form.
type History struct {
	Cfg Config `json:"cfg"`
	Ops []Op   `json:"ops"`
	Obs []Obs  `json:"obs,omitempty"`
}

func OpsSig(ops []Op) string {
	parts := make([]string, len(ops))
	for i, o := range ops {
		s := o.Kind
		if o.Cancelled {
			s += "!"
		}
		parts[i] = s
	}
	return strings.Join(parts, ",")
}
