module verif/harness

go 1.23.6

require (
	github.com/gammazero/chanqueue v1.1.0
	github.com/hashicorp/go-multierror v1.1.1
	github.com/hashicorp/go-retryablehttp v0.7.7
	github.com/ipfs/go-cid v0.5.0
	github.com/ipfs/go-datastore v0.8.2
	github.com/ipfs/go-ipld-format v0.6.0
	github.com/ipfs/go-log/v2 v2.5.1
	github.com/ipfs/go-test v0.2.1
	github.com/ipld/go-ipld-prime v0.21.0
	github.com/libp2p/go-libp2p v0.41.1
	github.com/libp2p/go-libp2p-pubsub v0.13.1
	github.com/libp2p/go-msgio v0.3.0
	github.com/mr-tron/base58 v1.2.0
	github.com/multiformats/go-multiaddr v0.15.0
	github.com/multiformats/go-multicodec v0.9.0
	github.com/multiformats/go-multihash v0.2.3
	github.com/multiformats/go-varint v0.0.7
	github.com/stretchr/testify v1.10.0
	github.com/whyrusleeping/cbor-gen v0.2.0
	golang.org/x/crypto v0.36.0
	google.golang.org/protobuf v1.36.5
)

require (
	github.com/benbjohnson/clock v1.3.5 // indirect
	github.com/beorn7/perks v1.0.1 // indirect
	github.com/cespare/xxhash/v2 v2.3.0 // indirect
	github.com/containerd/cgroups v1.1.0 // indirect
	github.com/coreos/go-systemd/v22 v22.5.0 // indirect
	github.com/davecgh/go-spew v1.1.1 // indirect
	github.com/davidlazar/go-crypto v0.0.0-20200604182044-b73af7476f6c // indirect
	github.com/decred/dcrd/dcrec/secp256k1/v4 v4.4.0 // indirect
	github.com/docker/go-units v0.5.0 // indirect
	github.com/elastic/gosigar v0.14.3 // indirect
	github.com/flynn/noise v1.1.0 // indirect
	github.com/francoispqt/gojay v1.2.13 // indirect
	github.com/gammazero/deque v1.0.0 // indirect
	github.com/go-task/slim-sprig/v3 v3.0.0 // indirect
	github.com/godbus/dbus/v5 v5.1.0 // indirect
	github.com/gogo/protobuf v1.3.2 // indirect
	github.com/google/gopacket v1.1.19 // indirect
	github.com/google/pprof v0.0.0-20250208200701-d0013a598941 // indirect
	github.com/google/uuid v1.6.0 // indirect
	github.com/gopherjs/gopherjs v0.0.0-20190812055157-5d271430af9f // indirect
	github.com/gorilla/websocket v1.5.3 // indirect
	github.com/hashicorp/errwrap v1.1.0 // indirect
	github.com/hashicorp/go-cleanhttp v0.5.2 // indirect
	github.com/hashicorp/golang-lru/v2 v2.0.7 // indirect
	github.com/huin/goupnp v1.3.0 // indirect
	github.com/ipfs/go-block-format v0.2.0 // indirect
	github.com/ipfs/go-ipfs-util v0.0.2 // indirect
	github.com/jackpal/go-nat-pmp v1.0.2 // indirect
	github.com/jbenet/go-temp-err-catcher v0.1.0 // indirect
	github.com/klauspost/compress v1.18.0 // indirect
	github.com/klauspost/cpuid/v2 v2.2.10 // indirect
	github.com/koron/go-ssdp v0.0.5 // indirect
	github.com/libp2p/go-buffer-pool v0.1.0 // indirect
	github.com/libp2p/go-flow-metrics v0.2.0 // indirect
	github.com/libp2p/go-libp2p-asn-util v0.4.1 // indirect
	github.com/libp2p/go-netroute v0.2.2 // indirect
	github.com/libp2p/go-reuseport v0.4.0 // indirect
	github.com/libp2p/go-yamux/v5 v5.0.0 // indirect
	github.com/marten-seemann/tcp v0.0.0-20210406111302-dfbc87cc63fd // indirect
	github.com/mattn/go-isatty v0.0.20 // indirect
	github.com/miekg/dns v1.1.63 // indirect
	github.com/mikioh/tcpinfo v0.0.0-20190314235526-30a79bb1804b // indirect
	github.com/mikioh/tcpopt v0.0.0-20190314235656-172688c1accc // indirect
	github.com/minio/sha256-simd v1.0.1 // indirect
	github.com/multiformats/go-base32 v0.1.0 // indirect
	github.com/multiformats/go-base36 v0.2.0 // indirect
	github.com/multiformats/go-multiaddr-dns v0.4.1 // indirect
	github.com/multiformats/go-multiaddr-fmt v0.1.0 // indirect
	github.com/multiformats/go-multistream v0.6.0 // indirect
	github.com/munnerz/goautoneg v0.0.0-20191010083416-a7dc8b61c822 // indirect
	github.com/onsi/ginkgo/v2 v2.22.2 // indirect
	github.com/opencontainers/runtime-spec v1.2.0 // indirect
	github.com/pbnjay/memory v0.0.0-20210728143218-7b4eea64cf58 // indirect
	github.com/pion/datachannel v1.5.10 // indirect
	github.com/pion/dtls/v2 v2.2.12 // indirect
	github.com/pion/dtls/v3 v3.0.4 // indirect
	github.com/pion/ice/v4 v4.0.8 // indirect
	github.com/pion/interceptor v0.1.37 // indirect
	github.com/pion/logging v0.2.3 // indirect
	github.com/pion/mdns/v2 v2.0.7 // indirect
	github.com/pion/randutil v0.1.0 // indirect
	github.com/pion/rtcp v1.2.15 // indirect
	github.com/pion/rtp v1.8.11 // indirect
	github.com/pion/sctp v1.8.37 // indirect
	github.com/pion/sdp/v3 v3.0.10 // indirect
	github.com/pion/srtp/v3 v3.0.4 // indirect
	github.com/pion/stun v0.6.1 // indirect
	github.com/pion/stun/v3 v3.0.0 // indirect
	github.com/pion/transport/v2 v2.2.10 // indirect
	github.com/pion/transport/v3 v3.0.7 // indirect
	github.com/pion/turn/v4 v4.0.0 // indirect
	github.com/pion/webrtc/v4 v4.0.10 // indirect
	github.com/pkg/errors v0.9.1 // indirect
	github.com/pmezard/go-difflib v1.0.0 // indirect
	github.com/polydawn/refmt v0.89.0 // indirect
	github.com/prometheus/client_golang v1.21.1 // indirect
	github.com/prometheus/client_model v0.6.1 // indirect
	github.com/prometheus/common v0.62.0 // indirect
	github.com/prometheus/procfs v0.15.1 // indirect
	github.com/quic-go/qpack v0.5.1 // indirect
	github.com/quic-go/quic-go v0.50.1 // indirect
	github.com/quic-go/webtransport-go v0.8.1-0.20241018022711-4ac2c9250e66 // indirect
	github.com/raulk/go-watchdog v1.3.0 // indirect
	github.com/smartystreets/assertions v1.13.0 // indirect
	github.com/spaolacci/murmur3 v1.1.0 // indirect
	github.com/wlynxg/anet v0.0.5 // indirect
	go.uber.org/dig v1.18.0 // indirect
	go.uber.org/fx v1.23.0 // indirect
	go.uber.org/mock v0.5.0 // indirect
	go.uber.org/multierr v1.11.0 // indirect
	go.uber.org/zap v1.27.0 // indirect
	golang.org/x/exp v0.0.0-20250218142911-aa4b98e5adaa // indirect
	golang.org/x/mod v0.23.0 // indirect
	golang.org/x/net v0.36.0 // indirect
	golang.org/x/sync v0.12.0 // indirect
	golang.org/x/sys v0.31.0 // indirect
	golang.org/x/text v0.23.0 // indirect
	golang.org/x/tools v0.30.0 // indirect
	golang.org/x/xerrors v0.0.0-20220907171357-04be3eba64a2 // indirect
	gopkg.in/yaml.v3 v3.0.1 // indirect
	lukechampine.com/blake3 v1.4.0 // indirect
)

require (
	github.com/ipni/go-libipni v0.0.0
	github.com/multiformats/go-multibase v0.2.0
)

replace github.com/ipni/go-libipni => /repo
