#!/usr/bin/env python3
"""Lists functions of property-anchored files that the correspondence harnesses execute
little or not at all (from coverage/library_coverage.func.txt)."""
import json, os, re
V = os.path.dirname(os.path.abspath(__file__))
anch = {}
for l in open(V + "/properties.jsonl"):
    d = json.loads(l)
    k = [k for k in d if isinstance(d[k], dict) and "files" in d[k]][0]
    for f in d[k]["files"]:
        anch.setdefault(f, []).append(d["id"])
out = []
for l in open(V + "/coverage/library_coverage.func.txt"):
    m = re.match(r"github.com/ipni/go-libipni/(\S+?):(\d+):\s+(\S+)\s+([\d.]+)%", l)
    if not m:
        continue
    f, ln, fn, pc = m.group(1), m.group(2), m.group(3), float(m.group(4))
    if f in anch and pc < 75:
        out.append("%-24s %s:%s %s %.1f%%" % (",".join(anch[f]), f, ln, fn, pc))
open(V + "/coverage/anchored_gaps.txt", "w").write(
    "# functions below 75 % statement coverage (quick tier, all 20 harnesses) in files a property is anchored in\n" + "\n".join(out) + "\n")
print(len(out), "functions listed")
