#!/usr/bin/env python3
"""Driver shared by every property check.

  ./check Cxx [--tier quick|thorough] [--replay FILE]

One run: regenerate coq/gen from /repo, rebuild the property's Coq cone (proof
status), rebuild the Go harness against /repo's working tree with -tags verif, run
it (implementation outputs + direct oracles + case files), evaluate the case files
in Coq (correspondence), decide, write evidence/Cxx.json, print VIOLATION /
KNOWN-FINDING lines, exit 0/1.
"""
import concurrent.futures
import fcntl
import json
import os
import re
import shutil
import subprocess
import sys
import time

VERIF = os.path.dirname(os.path.abspath(__file__))
REPO = os.environ.get("VERIF_REPO", "/repo")
COQ = os.path.join(VERIF, "coq")
BUILD = os.path.join(VERIF, ".build")
HARNESS = os.path.join(VERIF, "harness")
QFLAGS = ["-Q", "lib", "Lib", "-Q", "model", "Model", "-Q", "proofs", "Proofs",
          "-Q", "props", "Props", "-Q", "gen", "Gen",
          "-w", "-notation-overridden,-deprecated-hint-without-locality,-deprecated-syntactic-definition,-ambiguous-paths"]

sys.path.insert(0, VERIF)
import props as PROPS  # noqa: E402


def goenv():
    env = dict(os.environ)
    env["GOFLAGS"] = "-mod=mod"
    env["GOPROXY"] = "off"
    env.pop("GOTOOLCHAIN", None)
    env.pop("GOSUMDB", None)
    env.setdefault("HOME", "/root")
    if os.environ.get("VERIF_COVER"):
        # statement coverage of the library by the correspondence harness (coverage_map.py)
        env["GOCOVERDIR"] = os.environ["VERIF_COVER"]
    return env


def sh(cmd, cwd=None, timeout=None, env=None):
    """run, return (rc, output)"""
    try:
        p = subprocess.run(cmd, cwd=cwd, env=env, timeout=timeout, stdout=subprocess.PIPE,
                           stderr=subprocess.STDOUT, text=True, errors="replace")
        return p.returncode, p.stdout
    except subprocess.TimeoutExpired as e:
        out = e.stdout or ""
        if isinstance(out, bytes):
            out = out.decode(errors="replace")
        return 124, out + "\n[timeout after %ss]" % timeout


class Lock:
    def __init__(self, name):
        os.makedirs(BUILD, exist_ok=True)
        self.path = os.path.join(BUILD, name + ".lock")

    def __enter__(self):
        self.f = open(self.path, "w")
        fcntl.flock(self.f, fcntl.LOCK_EX)

    def __exit__(self, *a):
        fcntl.flock(self.f, fcntl.LOCK_UN)
        self.f.close()


def harness_modfile():
    """go.mod of the harness; when VERIF_REPO points elsewhere, an alternate modfile"""
    src = os.path.join(HARNESS, "go.mod")
    shutil.copyfile(os.path.join(REPO, "go.sum"), os.path.join(HARNESS, "go.sum"))
    if REPO == "/repo":
        return []
    alt = os.path.join(BUILD, "alt-%s.mod" % re.sub(r"\W", "_", REPO))
    txt = open(src).read().replace("=> /repo", "=> " + REPO)
    open(alt, "w").write(txt)
    shutil.copyfile(os.path.join(REPO, "go.sum"), alt[:-4] + ".sum")
    return ["-modfile=" + alt]


def build_go(cmd, tags=True):
    out_bin = os.path.join(BUILD, cmd + ("" if REPO == "/repo" else "-alt-" + re.sub(r"\W", "_", REPO)))
    args = ["go", "build"] + harness_modfile()
    if tags:
        args += ["-tags", "verif"]
        if os.environ.get("VERIF_COVER"):
            out_bin += "-cov"
            args += ["-cover", "-coverpkg=all"]
    args += ["-o", out_bin, "./cmd/" + cmd]
    rc, out = sh(args, cwd=HARNESS, env=goenv(), timeout=900)
    return rc, out, out_bin


def regen():
    with Lock("coq"):
        rc, out, binp = build_go("astgen", tags=False)
        if rc != 0:
            return rc, "astgen build failed:\n" + out
        rc, out = sh([binp, "-repo", REPO, "-out", os.path.join(COQ, "gen")], env=goenv(), timeout=120)
        if rc != 0:
            return rc, "astgen failed (the source no longer parses?):\n" + out
        rc2, out2 = sh(["./gen_coqproject.sh"], cwd=COQ, timeout=120)
        return rc2, out2


def make_targets(targets, timeout):
    with Lock("coq"):
        rc, out = sh(["make", "-j16"] + targets, cwd=COQ, timeout=timeout)
    return rc, out


def parse_coq_error(out):
    m = re.search(r'File "([^"]+)", line (\d+), characters [\d-]+:\s*\n(Error:.*?)(?:\n\n|\nmake|\Z)', out, re.S)
    if m:
        return {"file": m.group(1), "line": int(m.group(2)), "error": m.group(3).strip()[:1500]}
    return {"file": "?", "line": 0, "error": out[-1500:]}


def enclosing_lemma(path, line):
    try:
        lines = open(os.path.join(COQ, path)).read().split("\n")
    except OSError:
        return None
    for i in range(min(line, len(lines)) - 1, -1, -1):
        m = re.match(r"\s*(Theorem|Lemma|Corollary|Example|Definition|Fixpoint|Fact|Remark)\s+([\w']+)", lines[i])
        if m:
            return m.group(2)
    return None


def props_status(pid, cfgp):
    """compile the Properties file itself (always), capture theorem names and Print Assumptions"""
    pf = cfgp["props_file"]
    with Lock("coq"):
        rc, out = sh(["coqc"] + QFLAGS + [pf], cwd=COQ, timeout=600)
    src = open(os.path.join(COQ, pf)).read()
    theorems = re.findall(r"^\s*(?:Theorem|Corollary)\s+([\w']+)", src, re.M)
    closed = len(re.findall(r"Closed under the global context", out))
    axioms = []
    for m in re.finditer(r"Axioms:\n(.*?)(?=\n\S|\Z)", out, re.S):
        axioms.append(m.group(1).strip())
    ax_names = sorted(set(re.findall(r"^([\w.']+)\s*:", "\n".join(axioms), re.M)))
    return rc, out, theorems, closed, ax_names


def cone_files(targets):
    """transitive .v dependencies of the given .vo targets, from coq_makefile's .Makefile.d"""
    deps = {}
    try:
        txt = open(os.path.join(COQ, ".Makefile.d")).read().replace("\\\n", " ")
    except OSError:
        return None
    for line in txt.split("\n"):
        if ":" not in line:
            continue
        lhs, rhs = line.split(":", 1)
        for t in lhs.split():
            if t.endswith(".vo"):
                deps[t] = [d for d in rhs.split() if d.endswith(".vo")]
    seen, todo = set(), list(targets)
    while todo:
        t = todo.pop()
        if t in seen:
            continue
        seen.add(t)
        todo.extend(deps.get(t, []))
    return {t[:-1] for t in seen}


def grep_guard(only=None):
    """no Admitted/admit/Axiom/... in the development (only: restrict to these .v files)"""
    bad = []
    pat = re.compile(r"\b(Admitted|admit|Axiom|Axioms|Parameter|Parameters|Conjecture|Conjectures|Hypothesis|Hypotheses|Variable|Variables|Context)\b|Unset Guard|bypass_check|type-in-type|impredicative-set|Admit Obligations")
    for d in ("lib", "model", "proofs", "props", "gen"):
        dd = os.path.join(COQ, d)
        if not os.path.isdir(dd):
            continue
        for fn in sorted(os.listdir(dd)):
            if not fn.endswith(".v"):
                continue
            if only is not None and (d + "/" + fn) not in only:
                continue
            depth = 0
            txt = open(os.path.join(dd, fn)).read()
            txt = re.sub(r"\(\*.*?\*\)", "", txt, flags=re.S)
            for ln, line in enumerate(txt.split("\n"), 1):
                if re.match(r"\s*Section\b", line):
                    depth += 1
                if re.match(r"\s*End\b", line) and depth > 0:
                    depth -= 1
                for m in pat.finditer(line):
                    w = m.group(0)
                    if w in ("Hypothesis", "Hypotheses", "Variable", "Variables", "Context") and depth > 0:
                        continue
                    bad.append("%s/%s:%d: %s" % (d, fn, ln, w))
    return bad


def run_shard(args):
    rundir, fn, timeout = args
    t0 = time.time()
    rc, out = sh(["coqc"] + QFLAGS + ["-Q", rundir, "Run", os.path.join(rundir, fn)], cwd=COQ, timeout=timeout)
    m = re.search(r"bad\s*=\s*(\[.*?\])\s*:\s*list nat", out, re.S)
    if rc != 0 or not m:
        return fn, None, out[-2000:], time.time() - t0
    body = m.group(1).strip()[1:-1].strip()
    idx = [int(x.replace("%nat", "").strip()) for x in body.split(";") if x.strip()] if body else []
    return fn, idx, "", time.time() - t0


def load_known():
    p = os.path.join(VERIF, "known_findings.json")
    if not os.path.exists(p):
        return []
    return json.load(open(p)).get("findings", [])


def match_known(pid, signature, known):
    for k in known:
        if k.get("property") != pid or k.get("status") != "open":
            continue
        if "signature" in k and k["signature"] == signature:
            return k
        if "signature_regex" in k and re.fullmatch(k["signature_regex"], signature):
            return k
    return None


def main():
    import argparse
    ap = argparse.ArgumentParser()
    ap.add_argument("pid")
    ap.add_argument("--tier", default=os.environ.get("VERIF_TIER", "quick"))
    ap.add_argument("--replay")
    ap.add_argument("--keep", action="store_true")
    a = ap.parse_args()
    pid = a.pid
    tier = a.tier if a.tier in ("quick", "thorough") else "quick"
    seed = int(os.environ.get("VERIF_SEED", "1") or "1")
    cfgp = PROPS.PROPS[pid]
    t0 = time.time()
    os.makedirs(BUILD, exist_ok=True)
    os.makedirs(os.path.join(VERIF, "evidence"), exist_ok=True)
    os.makedirs(os.path.join(VERIF, "replays"), exist_ok=True)
    rundir = os.path.join(COQ, "run", "%s-%d" % (pid, os.getpid()))
    shutil.rmtree(rundir, ignore_errors=True)
    os.makedirs(rundir)

    broken = []      # list of dicts: kind, name, detail
    notes = []

    # 1. regenerate + proof status
    rc, out = (0, "")
    if REPO == "/repo" or cfgp.get("uses_gen"):
        rc, out = regen()
    if rc != 0:
        broken.append({"kind": "regeneration", "name": "astgen", "detail": out[-1500:]})
    if tier == "thorough" and not a.replay:
        # full rebuild of this property's cone from clean
        with Lock("coq"):
            for t in cfgp["coq_targets"]:
                sh(["rm", "-f", t, t.replace(".vo", ".glob")], cwd=COQ)
    rc, out = make_targets(cfgp["coq_targets"] + cfgp.get("model_targets", []), timeout=3000)
    proof_ok = rc == 0
    if rc != 0:
        err = parse_coq_error(out)
        lemma = enclosing_lemma(err["file"].lstrip("./"), err["line"])
        broken.append({"kind": "proof", "name": "%s:%s" % (err["file"], lemma or err["line"]), "detail": err["error"]})
        # the executable model may still build even though a proof is broken
        rcm, outm = make_targets(cfgp.get("model_targets", []), timeout=1800)
        if rcm != 0:
            errm = parse_coq_error(outm)
            notes.append("model does not build: %s" % errm)
    theorems, closed, ax_names, passum = [], 0, [], ""
    if proof_ok:
        rc, passum, theorems, closed, ax_names = props_status(pid, cfgp)
        if rc != 0:
            proof_ok = False
            err = parse_coq_error(passum)
            broken.append({"kind": "proof", "name": cfgp["props_file"], "detail": err["error"]})
    guard = grep_guard(None if os.environ.get("VERIF_GUARD_ALL") else cone_files(cfgp["coq_targets"] + cfgp.get("model_targets", [])))
    if guard:
        proof_ok = False
        broken.append({"kind": "proof", "name": "grep-guard", "detail": "; ".join(guard[:10])})

    # 2. harness
    result = None
    mismatches = []
    shard_errors = []
    harness_ok = True
    coq_eval_s = 0.0
    if cfgp.get("harness"):
        rc, out, binp = build_go(cfgp["harness"])
        if rc != 0:
            harness_ok = False
            broken.append({"kind": "correspondence", "name": "harness build (cmd/%s) against the working tree" % cfgp["harness"], "detail": out[-1500:]})
        else:
            args = [binp, "-seed", str(seed), "-tier", tier, "-out", rundir]
            if a.replay:
                args += ["-replay", os.path.abspath(a.replay)]
            rc, out = sh(args, cwd=HARNESS, env=goenv(), timeout=cfgp.get("harness_timeout", 1500) * (4 if tier == "thorough" else 1))
            if a.replay:
                print(out)
            rp = os.path.join(rundir, "result.json")
            if rc != 0 or not os.path.exists(rp):
                harness_ok = False
                broken.append({"kind": "correspondence", "name": "harness run (cmd/%s)" % cfgp["harness"], "detail": out[-2500:]})
            else:
                result = json.load(open(rp))
        # 2a. the translator's differential check (harness/cmd/gencheck): the generated Gallina
        # definitions of this property evaluated on inputs on which the real Go functions were run
        gc_dirs = []
        if result is not None and cfgp.get("gencheck") and not a.replay:
            have_hooks = os.path.exists(os.path.join(REPO, "dhash", "export_gentie_verif.go"))
            if not have_hooks and REPO != "/repo":
                notes.append("gencheck skipped: the tree under test lacks the export_gentie_verif.go hook files")
            else:
                rcg, outg, bing = build_go("gencheck")
                gdir = os.path.join(rundir, "gencheck")
                os.makedirs(gdir, exist_ok=True)
                if rcg == 0:
                    genv = goenv()
                    genv["VERIF_GENCHECK_OWNER"] = pid
                    genv["VERIF_COQ_GEN"] = os.path.join(COQ, "gen")
                    rcg, outg = sh([bing, "-seed", str(seed), "-tier", tier, "-out", gdir], cwd=HARNESS, env=genv, timeout=600)
                gp = os.path.join(gdir, "result.json")
                if rcg != 0 or not os.path.exists(gp):
                    broken.append({"kind": "correspondence", "name": "gencheck (translator vs real Go functions) build/run", "detail": outg[-2000:]})
                else:
                    gres = json.load(open(gp))
                    for f in gres.get("oracle_failures") or []:
                        result.setdefault("oracle_failures", [])
                        result["oracle_failures"] = (result.get("oracle_failures") or []) + [f]
                    result["evaluations"] = result.get("evaluations", 0) + gres.get("evaluations", 0)
                    dist = result.get("distribution") or {}
                    dist["gencheck:cases (generated Gallina definition vs the real Go function on the same inputs)"] = gres.get("evaluations", 0)
                    dist["gencheck:definitions"] = len(gres.get("families") or {})
                    result["distribution"] = dist
                    fams = result.get("families") or {}
                    for k2, v2 in (gres.get("families") or {}).items():
                        fams["gencheck:" + k2] = v2
                    result["families"] = fams
                    gc_dirs.append(gdir)
        if result is not None:
            shards = sorted(f for f in os.listdir(rundir) if f.startswith("cases_") and f.endswith(".v"))
            tsh = time.time()
            with concurrent.futures.ThreadPoolExecutor(max_workers=16) as ex:
                jobs = [(rundir, f, 1500) for f in shards]
                for gd in gc_dirs:
                    jobs += [(gd, f, 1500) for f in sorted(os.listdir(gd)) if f.startswith("cases_") and f.endswith(".v")]
                for (jd, _, _), (fn, idx, err, dt) in zip(jobs, ex.map(run_shard, jobs)):
                    if idx is None:
                        shard_errors.append({"file": fn, "error": err})
                    else:
                        if idx:
                            descs = json.load(open(os.path.join(jd, fn[:-2] + ".json")))
                            for i in idx:
                                mismatches.append({"family": ("gencheck:" if jd != rundir else "") + descs["family"], "file": fn, "index": descs["offset"] + i,
                                                   "case": descs["cases"][i] if i < len(descs["cases"]) else None})
            coq_eval_s = time.time() - tsh
            if shard_errors:
                broken.append({"kind": "correspondence", "name": "case evaluation %s" % shard_errors[0]["file"], "detail": shard_errors[0]["error"]})
            if mismatches:
                m0 = mismatches[0]
                broken.append({"kind": "correspondence", "name": "%s/%s case %d (%d mismatching cases in all)" % (pid, m0["family"], m0["index"], len(mismatches)),
                               "detail": json.dumps(m0["case"])[:1500]})

    # 2b. something no longer checks but no direct oracle failed: enlarge the search for a
    # concrete failing input (deeper tier, other seeds) for a bounded time
    search_note = None
    if broken and result is not None and not (result.get("oracle_failures") or []) and harness_ok and not a.replay \
            and not os.environ.get("VERIF_NO_SEARCH"):
        budget = time.time() + int(os.environ.get("VERIF_SEARCH_S", "240"))
        tried = []
        for k, (t2, s2) in enumerate([("thorough", seed + 1), ("thorough", seed + 2), ("quick", seed + 3)]):
            left = budget - time.time()
            if left < 20:
                break
            sdir = rundir + "-search%d" % k
            shutil.rmtree(sdir, ignore_errors=True)
            os.makedirs(sdir)
            rc2, out2 = sh([binp, "-seed", str(s2), "-tier", t2, "-out", sdir], cwd=HARNESS, env=goenv(), timeout=left)
            tried.append("%s/seed=%d" % (t2, s2))
            rp2 = os.path.join(sdir, "result.json")
            found = []
            if os.path.exists(rp2):
                try:
                    found = json.load(open(rp2)).get("oracle_failures") or []
                except Exception:
                    found = []
            shutil.rmtree(sdir, ignore_errors=True)
            if found:
                result["oracle_failures"] = found
                search_note = "failing input found by the enlarged search (%s)" % tried[-1]
                break
        if search_note is None:
            search_note = "enlarged search found no failing input (%s)" % ", ".join(tried)
        notes.append(search_note)

    # 3. verdict
    known = load_known()
    violations = []   # (signature, desc, replay)
    known_hits = []
    for f in ((result or {}).get("oracle_failures") or []):
        k = match_known(pid, f["signature"], known)
        if k:
            known_hits.append((k, f))
        else:
            violations.append(f)
    exit_code = 0
    lines = []
    seen_k = set()
    for k, f in known_hits:
        if k["id"] in seen_k:
            continue
        seen_k.add(k["id"])
        lines.append("KNOWN-FINDING: property=%s %s" % (pid, k["what"]))
    stamp = "%s-%d" % (pid, int(time.time()))
    if violations:
        for i, f in enumerate(violations[:5]):
            rp = os.path.join(VERIF, "replays", "%s-%d.json" % (stamp, i))
            json.dump({"property": pid, "kind": "failing-input", "signature": f["signature"], "desc": f["desc"],
                       "replay": f["replay"], "broken": broken}, open(rp, "w"), indent=1)
            lines.append("VIOLATION property=%s replay=%s" % (pid, rp))
        exit_code = 1
    elif broken:
        # a mismatch explained only by listed known findings is not a new violation
        only_known = known_hits and all(b["kind"] == "correspondence" and "mismatching" in b["name"] for b in broken) and \
            all(any(k.get("explains_mismatch") for k, _ in known_hits) for _ in [0])
        if not only_known:
            rp = os.path.join(VERIF, "replays", "%s-broken.json" % stamp)
            json.dump({"property": pid, "kind": "no-failing-input-found",
                       "no_longer_checks": [b["name"] for b in broken], "broken": broken, "search": search_note,
                       "mismatching_cases": mismatches[:5]}, open(rp, "w"), indent=1)
            lines.append("VIOLATION property=%s replay=%s no-failing-input-found" % (pid, rp))
            exit_code = 1

    # 4. evidence
    res = result or {}
    obligations = len(theorems) if theorems else cfgp.get("n_theorems", 1)
    discharged = closed + (len(theorems) - closed if proof_ok and ax_names else 0) if proof_ok else 0
    if proof_ok:
        discharged = obligations
    ev = {
        "property_id": pid,
        "tier": tier,
        "seed": seed,
        "level": "proof",
        "coverage": {
            "obligations": max(obligations, 1),
            "discharged": discharged if proof_ok else 0,
            "checker_cmd": "cd /verif/coq && make -j16 %s && coqc <flags> %s (Print Assumptions under every theorem); cases: coqc on %d generated shard(s)" % (
                " ".join(cfgp["coq_targets"]), cfgp["props_file"], sum(len(v.get("files") or []) for v in (res.get("families") or {}).values())),
            "trusted_base": cfgp["trusted_base"],
            "theorems": theorems,
            "axioms_reported_by_print_assumptions": ax_names,
            "theorems_closed_under_global_context": closed,
            "evaluations": max(res.get("evaluations", 0), 0),
            "distinct_nontrivial": res.get("distinct_nontrivial", 0),
            "rule": res.get("rule", ""),
            "samples": (res.get("samples") or []) or [{"theorems": theorems}],
            "exhaustive": bool(res.get("exhaustive", False)),
            "distribution": res.get("distribution") or {},
            "families": res.get("families") or {},
            "mismatching_cases": len(mismatches),
            "oracle_failures": len((result or {}).get("oracle_failures") or []),
            "known_findings_reproduced": [k["id"] for k, _ in known_hits],
            "broken": broken,
            "notes": notes + (res.get("notes") or []),
            "coq_case_eval_s": round(coq_eval_s, 1),
            "repo": REPO,
        },
        "assumptions": cfgp.get("assumptions", []),
        "wall_s": round(time.time() - t0, 1),
        "violations": len(violations) + (1 if (exit_code == 1 and not violations) else 0),
    }
    if tier == "thorough" and proof_ok and not a.replay and cfgp.get("coqchk", True):
        mod = "Props." + os.path.basename(cfgp["props_file"])[:-2]
        with Lock("coq"):
            # make (normally a no-op) and coqchk under ONE lock acquisition, so that a
            # concurrent check cannot regenerate coq/gen in between
            sh(["make", "-j16"] + cfgp["coq_targets"], cwd=COQ, timeout=3000)
            rc, out = sh(["coqchk", "-silent", "-o"] + QFLAGS[:-2] + [mod], cwd=COQ, timeout=3000)
        ev["coverage"]["coqchk"] = {"rc": rc, "tail": out[-1500:]}
        if rc != 0:
            lines.append("VIOLATION property=%s replay=%s no-failing-input-found" % (pid, "coqchk"))
            exit_code = 1
    if not a.replay:
        evdir = os.path.join(VERIF, "evidence") if REPO == "/repo" else os.path.join(BUILD, "evidence-alt")
        os.makedirs(evdir, exist_ok=True)
        json.dump(ev, open(os.path.join(evdir, pid + ".json"), "w"), indent=1)
    for l in lines:
        print(l)
    print("%s: tier=%s seed=%d proof_ok=%s theorems=%d evaluations=%d mismatches=%d oracle_failures=%d known=%d wall=%.1fs" % (
        pid, tier, seed, proof_ok, len(theorems), res.get("evaluations", 0), len(mismatches),
        len(res.get("oracle_failures") or []), len(known_hits), time.time() - t0))
    if broken:
        for b in broken:
            print("  broken: %s %s :: %s" % (b["kind"], b["name"], b["detail"][:400].replace("\n", " ")))
    if not a.keep:
        shutil.rmtree(rundir, ignore_errors=True)
    sys.exit(exit_code)


if __name__ == "__main__":
    main()
